"""./check entry point."""
from __future__ import annotations

import argparse
import importlib
import json
import os
import sys

sys.path.insert(0, os.path.dirname(os.path.dirname(os.path.abspath(__file__))))

from pyvc import driver  # noqa: E402
from pyvc.registry import PROPS  # noqa: E402


def main():
    ap = argparse.ArgumentParser()
    ap.add_argument("pid")
    ap.add_argument("--tier", default=os.environ.get("VERIF_TIER", "quick"), choices=["quick", "thorough"])
    ap.add_argument("--repo", default=os.environ.get("VERIF_REPO", "/repo"))
    ap.add_argument("--replay", default=None)
    ap.add_argument("--update-ledger", action="store_true")
    ap.add_argument("--jobs", type=int, default=None)
    a = ap.parse_args()
    seed = int(os.environ.get("VERIF_SEED", "0") or 0)
    os.environ["VERIF_TIER_EFFECTIVE"] = a.tier  # contract modules may add expensive contracts in the thorough tier (inherited by the worker processes)
    repo = os.path.abspath(a.repo)
    # the repository under check shadows the installed package for everything imported from here on (constants, cstruct layouts)
    sys.path.insert(0, repo)
    for m in [m for m in sys.modules if m.startswith("dissect.hypervisor")]:
        del sys.modules[m]
    if a.replay:
        rec = json.load(open(a.replay))
        from replay import harness

        if "fmt" in rec and "spec" in rec:
            r = harness.replay_one(repo, rec["fmt"], rec["spec"], rec["requests"])
            print(json.dumps(r, indent=1))
            sys.exit(1 if r["fails"] else 0)
        print(json.dumps(rec, indent=1)[:4000])
        sys.exit(0)
    if a.pid not in PROPS:
        print(f"unknown or not-applicable property {a.pid}")
        sys.exit(3)
    cfg = PROPS[a.pid]
    rep = driver.Report(a.pid, a.tier, seed, repo)
    ledger = driver.load_ledger()
    known = driver.load_known()
    timeout_ms = 60000 if a.tier == "quick" else 120000
    try:
        mods = [(modname, importlib.import_module(modname)) for modname in cfg["modules"]]
        pairs = []
        for modname, mod in mods:
            if hasattr(mod, "contracts"):
                cs_ = [c for c in mod.contracts(repo) if a.pid in c.props]
                if cs_:
                    pairs.append((modname, len(cs_)))
                    driver.COSTS.update({(modname, i): getattr(c, "cost", 1) for i, c in enumerate(cs_)})
        if pairs:
            failed = driver.discharge_contracts(rep, pairs, None, timeout_ms, jobs=a.jobs)
            by_mod = {}
            for name, qs in failed.items():
                short = name.split(":")[0]
                owner = next((mod for modname, mod in mods if hasattr(mod, "contracts") and any(c.name.split(":")[0] == short and name.startswith(c.name) for c in mod.contracts(repo))), None)
                by_mod.setdefault(id(owner), (owner, {}))[1][name] = qs
            for owner, fl in by_mod.values():
                driver.triage(rep, fl, (lambda n, q, mod=owner: mod.replay(rep, n, q)) if owner is not None and hasattr(owner, "replay") else None, ledger, known)
        # mechanical scan of the sidecars: every place where a fact is *assumed* (callee contracts, class invariants, axioms) rather than
        # proved -- `hyps.append(...)`, `hyps += ...`, `requires=` lists are preconditions and are listed by the contracts themselves
        import inspect
        import re as _re

        sites = {}
        for modname, mod in mods:
            try:
                src = inspect.getsource(mod).splitlines()
            except (OSError, TypeError):
                continue
            hits = [i + 1 for i, ln in enumerate(src) if _re.search(r"\bhyps\.append\(|\bhyps \+= |\.hyps\.insert\(", ln) and not ln.lstrip().startswith("#")]
            if hits:
                sites[modname] = hits
        rep.extra["assumed_fact_sites"] = {k: {"count": len(v), "lines": v[:60]} for k, v in sites.items()}
        for modname, mod in mods:
            if hasattr(mod, "extra_checks"):
                mod.extra_checks(rep, a.pid, ledger, known)
            if hasattr(mod, "trusted"):
                rep.add_trusted(*mod.trusted(a.pid))
            if hasattr(mod, "bounded") and (modname in cfg.get("bounded_from", cfg["modules"])):
                mod.bounded(rep, a.pid, known)
        driver.class_state_obligations(rep, ledger)
    except Exception as e:  # noqa: BLE001
        import traceback

        rep.errors.append(f"checker crash: {type(e).__name__}: {e}\n{traceback.format_exc()[-1500:]}")
    if a.update_ledger:
        for k, v in rep.obligations.items():
            ledger[k] = {"verdict": v["verdict"], "ms": v["ms"], "stages": sorted(x for x in v.get("stages", ()) if x)}
        with open(os.path.join(driver.VERIF, "ledger.json.tmp"), "w") as f_:
            json.dump(ledger, f_, indent=0, sort_keys=True)
        os.replace(os.path.join(driver.VERIF, "ledger.json.tmp"), os.path.join(driver.VERIF, "ledger.json"))
    code = driver.finish(rep, level=cfg.get("level", "proof"), technique=cfg.get("technique", ""))
    sys.exit(code)


if __name__ == "__main__":
    main()
