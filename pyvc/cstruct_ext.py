"""Assumed contract of dissect.cstruct (A3): `T(fh)` reads len(T) bytes at the handle's position and returns the
fields per the layout *computed by cstruct from the repository's definitions at run time* (not re-typed here);
raises EOFError on short data.  Bit-fields are LSB-first within their storage unit for little-endian structures.
The assumption is cross-checked every run by one-hot probing (`probe_layout`)."""
from __future__ import annotations

import importlib

import z3

from .engine import BytesV, FileV, IntV, ObjV, Unsupported, fresh


def load_cmodule(modname):
    return importlib.import_module(modname)


def _int_info(tp):
    name = tp.__name__
    base = {"uint8": (1, False), "int8": (1, True), "uint16": (2, False), "int16": (2, True), "uint32": (4, False),
            "int32": (4, True), "uint64": (8, False), "int64": (8, True), "char": (1, False), "uint128": (16, False)}
    if name in base:
        return base[name]
    # enums / flags: underlying type
    t = getattr(tp, "type", None)
    if t is not None and t.__name__ in base:
        return base[t.__name__]
    return None


def layout(T):
    """[(name, byte_offset, width_bytes, kind, signed, bit_lo, bit_n)] ; kind in int|bytes|struct|array|other"""
    out = []
    cur_off = 0
    bit_pos = 0
    for name, f in T.fields.items():
        tp = f.type
        size = getattr(tp, "size", None)
        info = _int_info(tp)
        if f.bits:
            if f.offset is not None:
                cur_off = f.offset
                bit_pos = 0
            out.append((name, cur_off, size, "int", False, bit_pos, f.bits))
            bit_pos += f.bits
            if bit_pos >= size * 8:
                cur_off += size
                bit_pos = 0
            continue
        off = f.offset if f.offset is not None else cur_off
        if info and "[" not in tp.__name__:
            out.append((name, off, info[0], "int", info[1], 0, 0))
        elif tp.__name__.startswith("char[") or tp.__name__.startswith("uint8["):
            out.append((name, off, size, "bytes", False, 0, 0))
        elif hasattr(tp, "fields"):
            out.append((name, off, size, "struct", False, 0, 0))
        else:
            out.append((name, off, size, "other", False, 0, 0))
        if size is not None:
            cur_off = off + size
    return out


def field_expr(at, pos, endian, width, signed, bit_lo=0, bit_n=0):
    """z3 integer value of a field stored at file position `pos`; returns (expr, side facts)"""
    if endian == ">":
        e = at(pos)
        for i in range(1, width):
            e = e * 256 + at(pos + i)
    else:
        e = at(pos + width - 1)
        for i in range(width - 2, -1, -1):
            e = e * 256 + at(pos + i)
    facts = []
    if bit_n:
        # (e >> bit_lo) & (2^bit_n - 1) through witnesses
        hi = fresh("bf_hi")
        mid = fresh("bf")
        lo = fresh("bf_lo")
        facts.append(z3.And(e == hi * (1 << (bit_lo + bit_n)) + mid * (1 << bit_lo) + lo, 0 <= lo, lo < (1 << bit_lo) if bit_lo else lo == 0,
                            0 <= mid, mid < (1 << bit_n), hi >= 0))
        return mid, facts
    if signed:
        v = fresh("sv")
        facts.append(v == z3.If(e >= (1 << (8 * width - 1)), e - (1 << (8 * width)), e))
        return v, facts
    return e, facts


def parse_struct(eng, st, model, T, endian, fv: FileV, node, label=None):
    """`T(fh)`: symbolic parse at the current position.  Registers the fields under a fresh object path."""
    n = len(T)
    fsize, at = model.file(fv.name)
    pos = eng.file_pos(st, fv.name)
    eng.may_raise("EOFError", st, pos + n <= fsize, node)
    st.filepos[fv.name] = pos + n
    st.ghost["io"] = st.ghost.get("io", z3.IntVal(0)) + n
    st.ghost["io_calls"] = st.ghost.get("io_calls", z3.IntVal(0)) + 1
    path = f"{label or T.__name__}!{next(_pc)}"
    for name, off, width, kind, signed, blo, bn in layout(T):
        key = f"{path}.{name}"
        if kind == "int":
            e, facts = field_expr(at, pos + off, endian, width, signed, blo, bn)
            for f_ in facts:
                st.hyps.append(f_)
            model.fields[key] = IntV(e)
        elif kind == "bytes":
            model.fields[key] = BytesV(z3.IntVal(width), lambda i, p=pos + off, at=at: at(p + i))
        else:
            pass  # nested/other: not modelled -> Unsupported on access
    model.struct_pos = getattr(model, "struct_pos", {})
    model.struct_pos[path] = pos
    model.truthy[path] = z3.BoolVal(True)
    return ObjV(path)


def parse_bytes(eng, st, model, T, endian, b: BytesV, node, label=None):
    """`T(buf)`: symbolic parse of a bytes value (EOFError when it is shorter than the structure)"""
    n = len(T)
    eng.may_raise("EOFError", st, b.n >= n, node)
    path = f"{label or T.__name__}!{next(_pc)}"
    for name, off, width, kind, signed, blo, bn in layout(T):
        key = f"{path}.{name}"
        if kind == "int":
            e, facts = field_expr(b.at, z3.IntVal(off), endian, width, signed, blo, bn)
            for f_ in facts:
                st.hyps.append(f_)
            model.fields[key] = IntV(e)
        elif kind == "bytes":
            model.fields[key] = BytesV(z3.IntVal(width), lambda i, p=off, at=b.at: at(p + i))
    model.truthy[path] = z3.BoolVal(True)
    return ObjV(path)


import itertools

_pc = itertools.count()


def struct_fields_symbolic(model, path, T, hyps, prefix=None):
    """Declare every integer field of cstruct type T as a symbolic field of object `path`, with its machine range."""
    out = {}
    for name, off, width, kind, signed, blo, bn in layout(T):
        if kind == "int":
            bits = bn or 8 * width
            lo, hi = (-(1 << (bits - 1)), (1 << (bits - 1)) - 1) if signed else (0, (1 << bits) - 1)
            out[name] = model.int_field(f"{path}.{name}", lo, hi, hyps)
    return out


def probe_layout(T, endian):
    """Bounded validation of the assumed cstruct contract: one-hot bytes through the real parser."""
    n = len(T)
    checked = 0
    for name, off, width, kind, signed, blo, bn in layout(T):
        if kind != "int":
            continue
        for byte in range(width):
            for bit in (0, 7):
                buf = bytearray(n)
                buf[off + byte] = 1 << bit
                obj = T(bytes(buf))
                got = int(getattr(obj, name))
                idx = (width - 1 - byte) if endian == ">" else byte
                raw = (1 << bit) << (8 * idx)
                if bn:
                    exp = (raw >> blo) & ((1 << bn) - 1)
                elif signed and raw >= 1 << (8 * width - 1):
                    exp = raw - (1 << (8 * width))
                else:
                    exp = raw
                if got != exp:
                    return False, f"{T.__name__}.{name}: byte {byte} bit {bit}: parser gives {got}, layout contract gives {exp}"
                checked += 1
    return True, checked
