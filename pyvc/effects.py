"""Effect discipline over the whole package (C09 read-only, C19 XML entry points): frame obligations generated per call
site from the AST of every module under dissect/hypervisor, discharged by set inclusion (no solver).

An obligation here is `<file>:<function>/<kind>#<ordinal-in-function>`; it is *discharged* when the call site is in the
allowed class, *violated* otherwise.  Names are resolved syntactically (assumption A1: no monkey-patching / dynamic
dispatch; rule E3 obliges the absence of the dynamic features that would invalidate that)."""
from __future__ import annotations

import ast
import os
import re

READ_MODE = re.compile(r"^(r[bt]?|rb|rt|r[:|][a-z*0-9]*)$")
PATH_MUTATORS = {"write_text", "write_bytes", "unlink", "rename", "rmdir", "mkdir", "touch", "chmod", "lchmod", "chown", "symlink_to",
                 "hardlink_to", "link_to", "removedirs", "rmtree", "copyfile", "copytree", "copy2", "move", "makedirs", "truncate",
                 "writelines", "write", "remove"}
MODULE_MUTATORS = {
    "os": {"remove", "unlink", "rename", "renames", "replace", "rmdir", "removedirs", "mkdir", "makedirs", "truncate", "ftruncate", "chmod", "chown", "lchown",
           "link", "symlink", "system", "popen", "startfile", "write", "pwrite", "mkfifo", "mknod", "utime", "open", "fdopen", "spawnl", "spawnv", "execv", "execl"},
    "shutil": "*", "subprocess": "*", "tempfile": "*", "pathlib": set(), "socket": "*", "urllib.request": "*", "requests": "*", "http": "*", "ftplib": "*",
}
DYNAMIC = {"setattr", "exec", "eval", "__import__", "compile", "delattr"}
FRESH_CTORS = {"io.BytesIO", "BytesIO", "bytearray", "io.StringIO", "StringIO"}
XML_ENTRY = {"fromstring", "XML", "iterparse", "XMLParser", "XMLPullParser", "parseString", "fromstringlist", "XMLID"}
XML_MODULES = ("xml", "lxml", "defusedxml", "expat", "pyexpat", "xmltodict", "bs4")


class Site:
    def __init__(self, file, func, kind, ordinal, line, text, ok, why):
        self.file, self.func, self.kind, self.ordinal, self.line, self.text, self.ok, self.why = file, func, kind, ordinal, line, text, ok, why

    @property
    def name(self):
        return f"{self.file.rsplit('/', 1)[-1][:-3]}:{self.func}/{self.kind}#{self.ordinal}"

    def as_dict(self):
        return {"obligation": self.name, "file": self.file, "line": self.line, "site": self.text, "verdict": "discharged" if self.ok else "violated", "why": self.why}


def dotted(n):
    if isinstance(n, ast.Name):
        return n.id
    if isinstance(n, ast.Attribute):
        b = dotted(n.value)
        return f"{b}.{n.attr}" if b else None
    return None


def const_str(n):
    return n.value if isinstance(n, ast.Constant) and isinstance(n.value, str) else None


class ModuleInfo:
    def __init__(self, relpath, tree):
        self.relpath = relpath
        self.tree = tree
        self.imports = {}  # local name -> dotted origin
        self.typing_only = set()
        for n in tree.body:
            self._imports(n, False)

    def _imports(self, n, typing_only):
        if isinstance(n, ast.Import):
            for a in n.names:
                self.imports[(a.asname or a.name).split(".")[0]] = a.name
                if typing_only:
                    self.typing_only.add((a.asname or a.name).split(".")[0])
        elif isinstance(n, ast.ImportFrom):
            for a in n.names:
                self.imports[a.asname or a.name] = f"{n.module}.{a.name}"
                if typing_only:
                    self.typing_only.add(a.asname or a.name)
        elif isinstance(n, ast.If) and "TYPE_CHECKING" in ast.unparse(n.test):
            for m in n.body:
                self._imports(m, True)
        elif isinstance(n, ast.Try):
            for m in n.body:
                self._imports(m, typing_only)

    def origin(self, name):
        """dotted origin of a dotted local expression, e.g. ElementTree.fromstring -> defusedxml.ElementTree.fromstring"""
        if not name:
            return None
        head, _, rest = name.partition(".")
        o = self.imports.get(head)
        if o is None:
            return None
        return o + ("." + rest if rest else "")


def functions_of(tree):
    """(qualname, node) for every function, plus ('<module>', tree) for module-level statements"""
    out = []

    def rec(body, prefix):
        for n in body:
            if isinstance(n, (ast.FunctionDef, ast.AsyncFunctionDef)):
                out.append((prefix + n.name, n))
                rec(n.body, prefix + n.name + ".")
            elif isinstance(n, ast.ClassDef):
                rec(n.body, prefix + n.name + ".")

    rec(tree.body, "")
    return out


def own_calls(fn):
    """Call nodes belonging to fn itself (not to nested defs), in source order"""
    calls = []

    def rec(n):
        for c in ast.iter_child_nodes(n):
            if isinstance(c, (ast.FunctionDef, ast.AsyncFunctionDef, ast.ClassDef, ast.Lambda)) and c is not fn:
                if isinstance(c, ast.Lambda):
                    rec(c)
                continue
            if isinstance(c, ast.Call):
                calls.append(c)
            rec(c)

    rec(fn)
    return sorted(calls, key=lambda c: (c.lineno, c.col_offset))


def fresh_names(fn, owned_params):
    """names bound in fn to a fresh in-memory object (io.BytesIO(), bytearray(), ...) and never rebound otherwise"""
    fresh, other = set(), set()
    for n in ast.walk(fn):
        if isinstance(n, ast.Assign) and len(n.targets) == 1 and isinstance(n.targets[0], ast.Name):
            nm = n.targets[0].id
            if isinstance(n.value, ast.Call) and dotted(n.value.func) in FRESH_CTORS:
                fresh.add(nm)
            else:
                other.add(nm)
        elif isinstance(n, (ast.AugAssign, ast.AnnAssign)) and isinstance(n.target, ast.Name):
            other.add(n.target.id)
    return (fresh - other) | set(owned_params)


HANDLE_ATTRS = {"fh", "fileobj", "fp", "file", "stream", "data_file", "backing_file", "raw", "buf", "buffer"}
OWNED_CTORS = FRESH_CTORS | {"dict", "list", "set", "defaultdict", "collections.defaultdict", "OrderedDict", "collections.OrderedDict", "array", "array.array"}
DERIVING_METHODS = {"setdefault", "get", "copy"}


def owned_locals(fn):
    """locals of fn all of whose bindings create a fresh in-memory container (display, comprehension, bytearray()/dict()/...) or
    derive one from an owned local (alias, element, .setdefault/.get/.copy of it); parameters are never owned"""
    binds = {}
    params = {a.arg for a in fn.args.posonlyargs + fn.args.args + fn.args.kwonlyargs} | ({fn.args.vararg.arg} if fn.args.vararg else set()) | ({fn.args.kwarg.arg} if fn.args.kwarg else set())
    for n in ast.walk(fn):
        if isinstance(n, ast.Assign):
            for t in n.targets:
                if isinstance(t, ast.Name):
                    binds.setdefault(t.id, []).append(n.value)
                else:
                    for x in ast.walk(t):
                        if isinstance(x, ast.Name) and isinstance(x.ctx, ast.Store):
                            binds.setdefault(x.id, []).append(None)
        elif isinstance(n, ast.AnnAssign) and isinstance(n.target, ast.Name):
            binds.setdefault(n.target.id, []).append(n.value)
        elif isinstance(n, ast.NamedExpr):
            binds.setdefault(n.target.id, []).append(n.value)
        elif isinstance(n, (ast.For, ast.comprehension)):
            for x in ast.walk(n.target):
                if isinstance(x, ast.Name):
                    binds.setdefault(x.id, []).append(("elements", n.iter))  # elements of an owned container are derived from it
        elif isinstance(n, ast.withitem) and n.optional_vars is not None:
            for x in ast.walk(n.optional_vars):
                if isinstance(x, ast.Name):
                    binds.setdefault(x.id, []).append(None)
    owned = set()

    def root_owned(e):
        while isinstance(e, (ast.Subscript, ast.Attribute)):
            e = e.value
        return isinstance(e, ast.Name) and e.id in owned

    def fresh(v):
        if v is None:
            return False
        if isinstance(v, tuple):
            it = v[1]
            if isinstance(it, ast.Call) and isinstance(it.func, ast.Attribute) and it.func.attr in ("values", "items", "keys") and not it.args:
                it = it.func.value
            return isinstance(it, (ast.Name, ast.Subscript)) and root_owned(it)
        if isinstance(v, (ast.Dict, ast.List, ast.Set, ast.ListComp, ast.DictComp, ast.SetComp)):
            return True
        if isinstance(v, ast.Call):
            if dotted(v.func) in OWNED_CTORS:
                return True
            if isinstance(v.func, ast.Attribute) and v.func.attr in DERIVING_METHODS and root_owned(v.func.value):
                return True
            return False
        if isinstance(v, (ast.Name, ast.Subscript)):
            return root_owned(v)
        return False

    # greatest fixpoint (node = store; node = node[part] is owned when store is): start from every non-parameter local, drop a name
    # as soon as one of its bindings is not fresh / derived from names still in the set
    owned |= {nm for nm, vals in binds.items() if nm not in params and vals}
    changed = True
    while changed:
        changed = False
        for nm in sorted(owned):
            if not all(fresh(v) for v in binds[nm]):
                owned.discard(nm)
                changed = True
    return owned


def memory_stores(fn):
    """(node, container expression) of every item/slice store, augmented store and deletion belonging to fn"""
    out = []
    for n in ast.walk(fn):
        tg = n.targets if isinstance(n, (ast.Assign, ast.Delete)) else ([n.target] if isinstance(n, (ast.AugAssign, ast.AnnAssign)) else [])
        for t in tg:
            for y in ast.walk(t):
                if isinstance(y, ast.Subscript) and isinstance(y.ctx, (ast.Store, ast.Del)):
                    out.append((n, y.value))
    return sorted(out, key=lambda x: (x[0].lineno, x[0].col_offset))


def container_ok(e, owned):
    """the stored-into container is the function's own fresh object or parser-object state (an attribute that is not a handle)"""
    if isinstance(e, ast.Name):
        return e.id in owned, f"local {e.id} " + ("is a fresh in-memory container of this function" if e.id in owned else "is not bound to a fresh in-memory container on every path (it may alias a caller's buffer or handle)")
    if isinstance(e, ast.Subscript):
        return container_ok(e.value, owned)
    if isinstance(e, ast.Attribute):
        chain, x = [], e
        while isinstance(x, ast.Attribute):
            chain.append(x.attr)
            x = x.value
        bad = [a for a in chain if a in HANDLE_ATTRS]
        if bad:
            return False, f"store into memory reached through the handle attribute .{bad[0]}"
        if isinstance(x, (ast.Name, ast.Subscript)):
            return True, f"state of a parser object (.{chain[0]})"
        return False, f"store into an attribute of a computed object {ast.unparse(x)[:40]}"
    return False, f"store into the result of {ast.unparse(e)[:60]} (not an owned container)"


def analyse(repo, owned_params, allowed_writer, passthrough):
    """returns (sites, module infos).  owned_params: {(relpath, func): {param,...}} ; allowed_writer: (relpath, func);
    passthrough: {(relpath, func)} functions that forward *args/**kwargs to an opener (mode is the caller's)."""
    sites = []
    infos = {}
    root = os.path.join(repo, "dissect", "hypervisor")
    files = []
    for d, _dirs, fs in os.walk(root):
        for f in sorted(fs):
            if f.endswith(".py"):
                files.append(os.path.relpath(os.path.join(d, f), repo))
    callers_of_owned = {k: [] for k in owned_params}
    for rel in sorted(files):
        src = open(os.path.join(repo, rel)).read()
        tree = ast.parse(src)
        from . import alpha

        alpha.restore_module(tree, rel)  # renamed helpers / locals back to the names the rules below refer to (alpha-conversion, pyvc/alpha.py)
        mi = ModuleInfo(rel, tree)
        infos[rel] = mi
        units = functions_of(tree) + [("<module>", tree)]
        for q_, f_ in units:
            if q_ != "<module>":
                alpha.restore(f_, rel, q_)
        local_funcs = {q.split(".")[-1] for q, _ in units}
        for qual, fn in units:
            fresh = fresh_names(fn, owned_params.get((rel, qual), set())) if qual != "<module>" else set()
            counters = {}
            with_names = {}
            for n in ast.walk(fn):
                if isinstance(n, ast.With):
                    for it in n.items:
                        if isinstance(it.optional_vars, ast.Name):
                            with_names[it.optional_vars.id] = it.context_expr
            calls = own_calls(fn) if qual != "<module>" else [c for c in own_calls(tree)]

            def add(kind, node, ok, why):
                i = counters.get(kind, 0)
                counters[kind] = i + 1
                sites.append(Site(rel, qual, kind, i, node.lineno, ast.unparse(node)[:120], ok, why))

            if qual != "<module>":
                own = owned_locals(fn) | fresh
                for st_node, cont in memory_stores(fn):
                    ok, why = container_ok(cont, own)
                    add("store.memory", st_node, ok, why)
            for c in calls:
                fname = dotted(c.func)
                attr = c.func.attr if isinstance(c.func, ast.Attribute) else (c.func.id if isinstance(c.func, ast.Name) else None)
                recv = c.func.value if isinstance(c.func, ast.Attribute) else None
                origin = mi.origin(fname)
                starred = any(isinstance(a, ast.Starred) for a in c.args) or any(k.arg is None for k in c.keywords)
                # ---- E1 opens
                ctor_open = origin in ("tarfile.TarFile", "gzip.GzipFile", "zipfile.ZipFile", "io.FileIO", "bz2.BZ2File", "lzma.LZMAFile")
                if attr == "open" or fname in ("open", "io.open") or ctor_open:
                    module_open = ctor_open or fname in ("open", "io.open") or (origin or "").split(".")[0] in ("gzip", "bz2", "lzma", "tarfile", "zipfile", "io", "codecs", "os")
                    if origin and origin.startswith("os."):
                        add("open.mode", c, False, "os.open: flags are not checked by this discipline; not allowed")
                        continue
                    if starred:
                        ok = (rel, qual) in passthrough and all(k.arg in (None, "tarinfo") for k in c.keywords)
                        add("open.mode", c, ok, "pass-through of the caller's arguments; the library adds no mode of its own (listed exemption)" if ok else "opener called with *args/**kwargs outside the declared pass-through functions")
                        continue
                    idx = 1 if module_open else 0
                    mode_node = c.args[idx] if len(c.args) > idx else next((k.value for k in c.keywords if k.arg == "mode"), None)
                    if mode_node is None:
                        add("open.mode", c, True, "no mode argument: default read-only mode")
                    else:
                        m = const_str(mode_node)
                        writer_ok = (rel, qual) == allowed_writer and m == "wb" and ast.unparse(recv) == "args.output" if recv is not None else False
                        if m is not None and READ_MODE.match(m):
                            add("open.mode", c, True, f"constant read-only mode {m!r}")
                        elif writer_ok:
                            add("open.mode", c, True, "the single allowed writer: args.output.open('wb') in the decrypt tool")
                        else:
                            add("open.mode", c, False, f"mode {ast.unparse(mode_node)} is not a constant read-only mode")
                    continue
                # ---- E2 mutators on module functions
                if origin:
                    mod = origin.split(".")[0]
                    fn_name = origin.split(".")[-1]
                    banned = MODULE_MUTATORS.get(mod) or MODULE_MUTATORS.get(".".join(origin.split(".")[:2]))
                    if banned == "*" or (banned and fn_name in banned and len(origin.split(".")) == 2):
                        add("mutator.module", c, False, f"call to {origin}")
                        continue
                # ---- E2 mutating methods
                if attr in PATH_MUTATORS and recv is not None:
                    rname = dotted(recv)
                    if attr == "write":
                        first = dotted(c.args[0]) if c.args else None
                        if rname in fresh:
                            add("mutator.method", c, True, f"write to owned in-memory object {rname}")
                        elif first in fresh and rname not in fresh:
                            add("mutator.method", c, True, f"serialiser .write(stream, ...) into owned in-memory object {first}")
                        elif (rel, qual) == allowed_writer and rname in with_names and ast.unparse(with_names[rname]).startswith("args.output.open("):
                            ok = ast.unparse(c.args[0]) == "envelope.decrypt(keystore.key)" if c.args else False
                            add("mutator.method", c, ok, "the only thing written to args.output is envelope.decrypt(keystore.key)" if ok else "unexpected data written to the output file")
                        else:
                            add("mutator.method", c, False, f".write on receiver {rname or ast.unparse(recv)[:40]} that is not an owned in-memory object")
                    else:
                        add("mutator.method", c, rname in fresh, f".{attr}() on {rname or ast.unparse(recv)[:40]}" + ("" if rname not in fresh else " (owned)"))
                    continue
                if attr == "replace" and recv is not None and len(c.args) == 1 and not c.keywords:
                    add("mutator.method", c, False, "one-argument .replace(target) renames a file (str.replace takes two)")
                    continue
                # ---- E3 dynamic features
                if fname in DYNAMIC or (origin or "").startswith("importlib"):
                    add("dynamic", c, False, f"dynamic feature {fname}")
                    continue
                if fname == "getattr":
                    lit = len(c.args) >= 2 and const_str(c.args[1]) is not None
                    ok = lit or qual.endswith("__getattr__")
                    add("dynamic", c, ok, "getattr with a literal attribute name" if lit else ("read-only delegation inside __getattr__" if ok else "getattr with a computed name"))
                    continue
                # ---- ownership of declared owned parameters at call sites
                for (orel, oqual), params in owned_params.items():
                    if attr == oqual.split(".")[-1] or fname == oqual.split(".")[-1]:
                        if orel == rel:
                            a0 = dotted(c.args[0]) if c.args else None
                            add("owned.arg", c, a0 in fresh, f"argument {a0} passed for owned parameter must be a fresh in-memory object")
                # ---- C19 XML entry points
                # a call is an XML entry point when its callee resolves (through the module's imports) into an XML library, or
                # when it is a bare name / unresolvable dotted name with a parser-entry name (e.g. `fromstring(...)` imported directly);
                # method calls on local objects (self.map.fromstring of array.array) do not resolve to a module and are not XML --
                # aliasing an XML module to a local name is itself an obligation (xml.alias) so this cannot be used to hide a parser
                xml_origin = bool(origin) and origin.split(".")[0] in XML_MODULES
                bare_entry = isinstance(c.func, ast.Name) and attr in XML_ENTRY
                if xml_origin or bare_entry:
                    weak = [k.arg for k in c.keywords if k.arg in ("forbid_entities", "forbid_external", "forbid_dtd") and not (isinstance(k.value, ast.Constant) and k.value.value is True)]
                    ok = origin == "defusedxml.ElementTree.fromstring" and not weak and not starred
                    add("xml.entry", c, ok, "defusedxml.ElementTree.fromstring with default (forbidding) flags" if ok else f"XML entry point resolves to {origin or fname}" + (f" with weakening keywords {weak}" if weak else ""))
        for n in ast.walk(tree):
            if isinstance(n, ast.Assign):
                o = mi.origin(dotted(n.value)) if isinstance(n.value, (ast.Name, ast.Attribute)) else None
                if o and o.split(".")[0] in XML_MODULES:
                    sites.append(Site(rel, "<module>", "xml.alias", len([s_ for s_ in sites if s_.file == rel and s_.kind == "xml.alias"]), n.lineno, ast.unparse(n)[:100], False,
                                      "an XML module/function is bound to another name; call sites through the alias cannot be classified"))
        # imports of XML libraries other than defusedxml outside TYPE_CHECKING
        for local, org in mi.imports.items():
            top = org.split(".")[0]
            if top in XML_MODULES and top != "defusedxml" and local not in mi.typing_only:
                sites.append(Site(rel, "<module>", "xml.import", len([s for s in sites if s.file == rel and s.kind == "xml.import"]), 1, f"import {org}", False, "XML library other than defusedxml imported at run time"))
            elif top in XML_MODULES:
                sites.append(Site(rel, "<module>", "xml.import", len([s for s in sites if s.file == rel and s.kind == "xml.import"]), 1, f"import {org}", True, "defusedxml" if top == "defusedxml" else "typing-only import"))
    return sites, infos
