"""Alpha-conversion of locals back to the names the sidecar contracts were written against.

Sidecar contracts name the locals and parameters of the real function (st.env["sector"], fragment locators such as
`for ... in fhs`).  A behaviour-preserving rename of a local in /repo would otherwise leave the contract without its variable and
the obligations undecided.  On every run find_function() compares the binding structure of the current function with the one
recorded in pyvc/locals_baseline.json (generated from the tree the contracts were written against, tools/gen_locals_baseline.py):

  * exact: the function with every local/parameter replaced by its binding position is identical to the baseline  => the two
    functions are alpha-equivalent and the names are mapped by position;
  * otherwise, for each baseline name that no longer exists, a current name that did not exist in the baseline and whose binding
    statements (with all locals erased) are those of the baseline name, if exactly one such name exists.

The current AST is then renamed new -> old (Name and arg nodes of the whole function, nested scopes included), which is an
alpha-conversion: it is applied only if `old` does not occur as an identifier anywhere in the current function and `new` is not
declared global/nonlocal.  Nothing else is changed; the renaming performed is reported in the evidence (notes).  What this does not
do: it never guesses when the match is not unique (the contract then fails to find its variable and the obligation is reported
undecided, exit 2, never as a violation)."""
from __future__ import annotations

import ast
import copy
import hashlib
import json
import os

BASELINE = os.path.join(os.path.dirname(os.path.abspath(__file__)), "locals_baseline.json")
NOTES: list[str] = []
_cache = None


def _baseline():
    global _cache
    if _cache is None:
        try:
            _cache = json.load(open(BASELINE))
        except (OSError, ValueError):
            _cache = {}
    return _cache


def _params(fn):
    a = fn.args
    return [x.arg for x in a.posonlyargs + a.args] + ([a.vararg.arg] if a.vararg else []) + [x.arg for x in a.kwonlyargs] + ([a.kwarg.arg] if a.kwarg else [])


def _ordered(node):
    """source-order traversal (ast.walk is breadth first)"""
    yield node
    for ch in ast.iter_child_nodes(node):
        yield from _ordered(ch)


def binding_order(fn):
    names = list(_params(fn))
    declared = set()
    for n in _ordered(fn):
        if isinstance(n, (ast.Global, ast.Nonlocal)):
            declared |= set(n.names)
    for n in _ordered(fn):
        if n is fn:
            continue
        if isinstance(n, ast.Name) and isinstance(n.ctx, ast.Store) and n.id not in names and n.id not in declared:
            names.append(n.id)
        elif isinstance(n, ast.arg) and n.arg not in names:  # nested lambda / def parameters
            names.append(n.arg)
        elif isinstance(n, ast.ExceptHandler) and n.name and n.name not in names:
            names.append(n.name)
    return names, declared


class _Ren(ast.NodeTransformer):
    def __init__(self, mp):
        self.mp = mp

    def visit_Name(self, n):
        if n.id in self.mp:
            n.id = self.mp[n.id]
        return n

    def visit_arg(self, n):
        if n.arg in self.mp:
            n.arg = self.mp[n.arg]
        return n

    def visit_ExceptHandler(self, n):
        if n.name and n.name in self.mp:
            n.name = self.mp[n.name]
        self.generic_visit(n)
        return n


def _strip(fn):
    """copy without docstring, decorators, annotations (comments are not in the AST)"""
    f = copy.deepcopy(fn)
    f.decorator_list = []
    f.returns = None
    for n in ast.walk(f):
        if isinstance(n, ast.arg):
            n.annotation = None
    if f.body and isinstance(f.body[0], ast.Expr) and isinstance(getattr(f.body[0], "value", None), ast.Constant) and isinstance(f.body[0].value.value, str) and len(f.body) > 1:
        f.body = f.body[1:]
    return f


def canon(fn):
    order, _ = binding_order(fn)
    f = _Ren({n: f"L{i}" for i, n in enumerate(order)}).visit(_strip(fn))
    f.name = "f"
    return hashlib.sha1(ast.dump(f).encode()).hexdigest()


def binding_sigs(fn):
    """name -> hash of its binding statements with every local erased"""
    order, _ = binding_order(fn)
    er = {n: "_" for n in order}
    sigs = {n: [] for n in order}
    for i, p in enumerate(_params(fn)):
        sigs[p].append(f"param{i}")

    def erased(e):
        return ast.dump(_Ren(er).visit(copy.deepcopy(e))) if e is not None else ""

    def targets(t, prefix=""):
        if isinstance(t, ast.Name):
            yield t.id, prefix
        elif isinstance(t, (ast.Tuple, ast.List)):
            for i, e in enumerate(t.elts):
                yield from targets(e, prefix + f".{i}")
        elif isinstance(t, ast.Starred):
            yield from targets(t.value, prefix + "*")

    for n in _ordered(fn):
        if isinstance(n, ast.Assign):
            for t in n.targets:
                for name, pre in targets(t):
                    if name in sigs:
                        sigs[name].append("=" + pre + erased(n.value))
        elif isinstance(n, ast.AnnAssign) and n.value is not None:
            for name, pre in targets(n.target):
                if name in sigs:
                    sigs[name].append("=" + pre + erased(n.value))
        elif isinstance(n, ast.AugAssign):
            for name, pre in targets(n.target):
                if name in sigs:
                    sigs[name].append("aug" + type(n.op).__name__ + erased(n.value))
        elif isinstance(n, (ast.For, ast.comprehension)):
            for name, pre in targets(n.target):
                if name in sigs:
                    sigs[name].append("for" + pre + erased(n.iter))
        elif isinstance(n, ast.NamedExpr):
            if n.target.id in sigs:
                sigs[n.target.id].append(":=" + erased(n.value))
        elif isinstance(n, ast.withitem) and n.optional_vars is not None:
            for name, pre in targets(n.optional_vars):
                if name in sigs:
                    sigs[name].append("with" + pre + erased(n.context_expr))
        elif isinstance(n, ast.ExceptHandler) and n.name in sigs:
            sigs[n.name].append("except" + erased(n.type))
    return {k: hashlib.sha1("|".join(v).encode()).hexdigest()[:16] for k, v in sigs.items()}


def describe(fn):
    order, _ = binding_order(fn)
    return {"order": order, "canon": canon(fn), "sigs": binding_sigs(fn)}


def restore(fn, relpath, qualname):
    """rename locals of `fn` (in place) back to the baseline names where the match is unambiguous; returns the mapping new -> old"""
    base = _baseline().get(f"{relpath}:{qualname}")
    if not base:
        return {}
    order, declared = binding_order(fn)
    if set(base["order"]) <= set(order):
        return {}
    mp = {}
    if canon(fn) == base["canon"] and len(order) == len(base["order"]):
        mp = {new: old for new, old in zip(order, base["order"]) if new != old}
    else:
        sigs = binding_sigs(fn)
        extra = [n for n in order if n not in base["order"]]
        for old in base["order"]:
            if old in order:
                continue
            cands = [n for n in extra if sigs.get(n) == base["sigs"].get(old) and n not in mp]
            if len(cands) == 1:
                mp[cands[0]] = old
    if not mp:
        return {}
    idents = {n.id for n in ast.walk(fn) if isinstance(n, ast.Name)} | {n.arg for n in ast.walk(fn) if isinstance(n, ast.arg)}
    # simultaneous renaming: a target name may be in use only if it is itself renamed away
    mp = {new: old for new, old in mp.items() if new not in declared and (old not in idents or old in mp)}
    if len(set(mp.values())) != len(mp) or not mp:
        return {}
    _Ren(mp).visit(fn)
    note = f"{relpath}:{qualname}: locals alpha-renamed to the contract's names: " + ", ".join(f"{n} -> {o}" for n, o in sorted(mp.items()))
    if note not in NOTES:
        NOTES.append(note)
    return mp


def _functions(tree):
    out = {}

    def walk(body, prefix):
        for n in body:
            if isinstance(n, ast.ClassDef):
                walk(n.body, prefix + [n.name])
            elif isinstance(n, (ast.FunctionDef, ast.AsyncFunctionDef)):
                out.setdefault(".".join(prefix + [n.name]), n)

    walk(tree.body, [])
    return out


class _EraseSelfAttrs(ast.NodeTransformer):
    def visit_Attribute(self, n):
        self.generic_visit(n)
        if isinstance(n.value, ast.Name) and n.value.id == "self":
            n.attr = "_"
        return n


def class_attr_sigs(cls):
    """instance attributes of a class: name -> signature of the statements `self.<name> = <value>` anywhere in the class, in source
    order, with the names of locals and of other self attributes erased (so that a renamed attribute keeps its signature)"""
    sigs = {}
    for fn in [n for n in cls.body if isinstance(n, (ast.FunctionDef, ast.AsyncFunctionDef))]:
        order, _ = binding_order(fn)
        er = {n: "_" for n in order if n != "self"}
        for n in _ordered(fn):
            tg = n.targets if isinstance(n, ast.Assign) else ([n.target] if isinstance(n, ast.AnnAssign) and n.value is not None else [])
            for t in tg:
                if isinstance(t, ast.Attribute) and isinstance(t.value, ast.Name) and t.value.id == "self":
                    v = _EraseSelfAttrs().visit(_Ren(er).visit(copy.deepcopy(n.value)))
                    sigs.setdefault(t.attr, []).append(fn.name + ":" + ast.dump(v))
    return {k: hashlib.sha1("|".join(v).encode()).hexdigest()[:16] for k, v in sigs.items()}


def describe_classes(tree):
    out = {}

    def walk(body, prefix):
        for n in body:
            if isinstance(n, ast.ClassDef):
                out[".".join(prefix + [n.name])] = {"attrs": class_attr_sigs(n)}
                walk(n.body, prefix + [n.name])

    walk(tree.body, [])
    return out


def restore_attributes(tree, relpath):
    """instance attributes of the baseline that are no longer assigned in their class: if exactly one new attribute of that class has the
    same assignment signature, every `.new` in the module is renamed back to `.old` (only if `.old` occurs nowhere in the module)"""
    base = {k.split("::", 1)[1]: v for k, v in _baseline().items() if k.startswith(relpath + "::")}
    if not base:
        return {}
    cur = describe_classes(tree)
    used = {n.attr for n in ast.walk(tree) if isinstance(n, ast.Attribute)}
    ren = {}
    for cname, b in base.items():
        c = cur.get(cname)
        if c is None:
            continue
        missing = [a for a in b["attrs"] if a not in c["attrs"]]
        extra = [a for a in c["attrs"] if a not in b["attrs"]]
        for old in missing:
            cands = [x for x in extra if c["attrs"][x] == b["attrs"][old] and x not in ren]
            if len(cands) == 1 and old not in used and ren.get(cands[0], old) == old:
                ren[cands[0]] = old
    if not ren or len(set(ren.values())) != len(ren):
        return {}
    for n in ast.walk(tree):
        if isinstance(n, ast.Attribute) and n.attr in ren:
            n.attr = ren[n.attr]
    note = f"{relpath}: instance attributes renamed back to the contract's names (same assignment signature): " + ", ".join(f".{n} -> .{o}" for n, o in sorted(ren.items()))
    if note not in NOTES:
        NOTES.append(note)
    return ren


def restore_module(tree, relpath):
    """functions / methods of the baseline that no longer exist under their name: if exactly one new function of the same class is
    alpha-equivalent to the baseline body, the definition and every reference in this module (obj.<new>, bare <new>) are renamed back
    (in place).  Applied only if the old name occurs nowhere in the current module.  Returns {new: old}."""
    ren_attrs = {}
    base = {k.split(":", 1)[1]: v for k, v in _baseline().items() if k.startswith(relpath + ":") and not k.startswith(relpath + "::")}
    if not base:
        return dict(restore_attributes(tree, relpath))
    cur = _functions(tree)
    missing = [q for q in base if q not in cur]
    if not missing:
        return dict(restore_attributes(tree, relpath))
    extra = [q for q in cur if q not in base]
    canon_of = {q: canon(cur[q]) for q in extra}
    mp = {}
    for q in missing:
        cls = q.rpartition(".")[0]
        cands = [x for x in extra if x.rpartition(".")[0] == cls and canon_of[x] == base[q]["canon"] and x not in mp]
        if len(cands) == 1:
            mp[cands[0]] = q
    if not mp:
        return dict(restore_attributes(tree, relpath))
    used = {n.attr for n in ast.walk(tree) if isinstance(n, ast.Attribute)} | {n.id for n in ast.walk(tree) if isinstance(n, ast.Name)} | {q.rpartition(".")[2] for q in cur}
    ren = {}
    for new_q, old_q in mp.items():
        new, old = new_q.rpartition(".")[2], old_q.rpartition(".")[2]
        if old in used or new in ren:
            continue
        ren[new] = old
        cur[new_q].name = old
    if not ren:
        return dict(restore_attributes(tree, relpath))
    for n in ast.walk(tree):
        if isinstance(n, ast.Attribute) and n.attr in ren:
            n.attr = ren[n.attr]
        elif isinstance(n, ast.Name) and n.id in ren:
            n.id = ren[n.id]
    note = f"{relpath}: functions renamed back to the contract's names (alpha-equivalent bodies): " + ", ".join(f"{n} -> {o}" for n, o in sorted(ren.items()))
    if note not in NOTES:
        NOTES.append(note)
    # functions first (a method that is also wrapped into an instance attribute of the same name, e.g. self._f = lru_cache(..)(self._f), is
    # restored as a function, which renames the attribute with it), then the remaining instance attributes
    return {**restore_attributes(tree, relpath), **ren}
