"""property id -> contract modules that carry obligations for it"""
TECH = "contract-based deductive verification: VCs generated from the AST of the real functions, discharged by z3/cvc5"
PROPS = {
    "C06": {"modules": ["contracts.hdd"], "level": "proof", "technique": TECH},
    "C05": {"modules": ["contracts.vdi"], "level": "proof", "technique": TECH},
    "C04": {"modules": ["contracts.vhd"], "level": "proof",
            "technique": "contract-based deductive verification: VCs generated from the AST of the real functions, discharged by z3/cvc5"},
}
