"""property id -> contract modules that carry obligations for it"""
PROPS = {
    "C04": {"modules": ["contracts.vhd"], "level": "proof",
            "technique": "contract-based deductive verification: VCs generated from the AST of the real functions, discharged by z3/cvc5"},
}
