"""property id -> contract modules that carry obligations for it"""
TECH = "contract-based deductive verification: VCs generated from the AST of the real functions, discharged by z3/cvc5"
PROPS = {
    "C11": {"modules": ["contracts.vhd", "contracts.vhdx", "contracts.vmdk", "contracts.vdi", "contracts.hdd", "contracts.c11"], "level": "proof", "bounded_from": ["contracts.c11"],
            "technique": TECH + "; loop variants without well-formedness assumptions; finite-universe variants for reference walks"},
    "C12": {"modules": ["contracts.gates", "contracts.gates_text"], "level": "proof", "technique": TECH + "; exceptional postconditions (normal return => accept set) in gate mode"},
    "C13": {"modules": ["contracts.vhd", "contracts.vhdx", "contracts.vmdk", "contracts.vdi", "contracts.hdd", "contracts.c13"], "level": "proof", "bounded_from": ["contracts.c13"],
            "technique": TECH + "; ghost I/O-cost postconditions; unbounded-integer arithmetic for wide offsets"},
    "C10": {"modules": ["contracts.vmdk_c10", "contracts.vmdk", "contracts.hdd"], "level": "proof", "technique": TECH + "; regex language inclusion for the extent grammar"},
    "C08": {"modules": ["contracts.stream", "contracts.vhd", "contracts.vhdx", "contracts.vmdk", "contracts.vdi", "contracts.hdd", "contracts.c08"], "level": "proof", "bounded_from": ["contracts.c08"],
            "technique": TECH + "; AlignedStream verified from the installed source against the L-stream contract each _read is proved to satisfy; frame obligations for history independence"},
    "C09": {"modules": ["contracts.effects_c09"], "level": "proof", "technique": "contract-based frame/effect obligations per call site over the whole package, discharged by set inclusion (no solver); audit-hook run as bounded cross-check"},
    "C20": {"modules": ["contracts.vmtar"], "level": "proof", "technique": TECH + "; stdlib tarfile assumed"},
    "C19": {"modules": ["contracts.xml_c19"], "level": "proof", "technique": "contract-based frame obligations on every XML parser entry point (callee resolves to defusedxml.ElementTree.fromstring), assumed defusedxml contract cross-checked by a bounded corpus"},
    "C01": {"modules": ["contracts.qcow2"], "level": "proof", "technique": TECH + "; complete case split over cluster_bits 9..21 x extended L2"},
    "C02": {"modules": ["contracts.vmdk"], "level": "proof", "technique": TECH},
    "C03": {"modules": ["contracts.vhdx"], "level": "proof", "technique": TECH},
    "C07": {"modules": ["contracts.vhdx", "contracts.vdi", "contracts.hdd"], "level": "proof", "technique": TECH + "; chains of any depth by the modular rule (parent used through the same class contract)"},
    "C06": {"modules": ["contracts.hdd"], "level": "proof", "technique": TECH},
    "C05": {"modules": ["contracts.vdi"], "level": "proof", "technique": TECH},
    "C04": {"modules": ["contracts.vhd"], "level": "proof",
            "technique": "contract-based deductive verification: VCs generated from the AST of the real functions, discharged by z3/cvc5"},
}
