"""Discharge of obligations (DESIGN.md 2.5/2.6): recursive goal splitting (R7), flattening + slicing (R3), our own
instantiation of quantified hypotheses, quantifier-free first (R8), opaque spec functions unfolded at ground
applications (R4), one query per (path, obligation, atom) (R2), SMT-LIB text handed to a pool of solver processes.

`unsat` of any stage is a proof of that atom (each stage's hypotheses are consequences of the full hypothesis set).
`sat` of a quantifier-free stage is only a *candidate* counterexample."""
from __future__ import annotations

import os
import re
import subprocess
import tempfile
import time
from concurrent.futures import ProcessPoolExecutor
from dataclasses import dataclass, field

import z3

from .engine import EUCLID, I, ediv, fresh

OPAQUE = {}  # uninterpreted function name -> python definition over z3 terms (R4)


OPAQUE_WHEN = {}  # name -> predicate(obligation name): unfold only in those obligations (default: everywhere)


def register_opaque(name, fn, when=None):
    OPAQUE[name] = fn
    if when is not None:
        OPAQUE_WHEN[name] = when
    else:
        OPAQUE_WHEN.pop(name, None)


def has_quant(e):
    if z3.is_quantifier(e):
        return True
    return any(has_quant(c) for c in e.children())


def flatten(h, acc):
    if z3.is_and(h):
        for c in h.children():
            flatten(c, acc)
    elif z3.is_true(h):
        pass
    else:
        acc.append(h)
    return acc


def split_goal(g, extra=(), sk=()):
    """And -> each conjunct; Implies(a, b) -> assume a; Forall -> skolemise; If-then-else at top -> both arms."""
    if z3.is_and(g):
        out = []
        for c in g.children():
            out += split_goal(c, extra, sk)
        return out
    if z3.is_implies(g):
        return split_goal(g.arg(1), tuple(extra) + (g.arg(0),), sk)
    if z3.is_quantifier(g) and g.is_forall():
        vs = [fresh(g.var_name(i), g.var_sort(i)) for i in range(g.num_vars())]
        return split_goal(z3.substitute_vars(g.body(), *reversed(vs)), extra, tuple(sk) + tuple(vs))
    if z3.is_true(g):
        return []
    return [(list(extra), list(sk), g)]


def quantified_parts(h, guard=None, out=None):
    """(guard, forall) for hypotheses of the form Forall, Implies(c, Forall / And(.. Forall ..)), And(...)."""
    out = [] if out is None else out
    if z3.is_quantifier(h) and h.is_forall():
        out.append((guard, h))
    elif z3.is_and(h):
        for c in h.children():
            quantified_parts(c, guard, out)
    elif z3.is_implies(h) and has_quant(h.arg(1)):
        g2 = h.arg(0) if guard is None else z3.And(guard, h.arg(0))
        quantified_parts(h.arg(1), g2, out)
    return out


def is_pure_arith(e):
    """no array read, no uninterpreted application, no quantifier"""
    if z3.is_quantifier(e):
        return False
    if z3.is_app(e):
        k = e.decl().kind()
        if k == z3.Z3_OP_UNINTERPRETED and e.num_args() > 0:
            return False
        if k in (z3.Z3_OP_SELECT, z3.Z3_OP_STORE):
            return False
    return all(is_pure_arith(c) for c in e.children())


def _walk(e, seen, fn):
    if e.get_id() in seen:
        return
    seen.add(e.get_id())
    fn(e)
    if z3.is_quantifier(e):
        _walk(e.body(), seen, fn)
    else:
        for c in e.children():
            _walk(c, seen, fn)


def has_var(e):
    found = []

    def f(x):
        if z3.is_var(x):
            found.append(1)

    _walk(e, set(), f)
    return bool(found)


def ground_apps(exprs):
    """ground applications of uninterpreted functions and array selects: decl-key -> list of arg tuples"""
    out = {}
    seen = set()

    def f(x):
        if z3.is_app(x) and x.num_args() > 0:
            k = x.decl().kind()
            if k == z3.Z3_OP_UNINTERPRETED:
                key = ("uf", x.decl().name())
                args = x.children()
            elif k == z3.Z3_OP_SELECT:
                key = ("sel", x.arg(0).get_id())
                args = x.children()[1:]
            else:
                return
            if not any(has_var(a) for a in args):
                out.setdefault(key, [])
                if not any(all(a.eq(b) for a, b in zip(args, t)) for t in out[key]):
                    out[key].append(tuple(args))

    for e in exprs:
        _walk(e, seen, f)
    return out


def direct_var_patterns(body):
    """keys of uninterpreted applications / selects in a one-variable quantifier body whose (single relevant) argument is
    the bound variable itself: those are instantiated at every ground argument of the same symbol (table axioms)."""
    keys = set()

    def f(x):
        if z3.is_app(x) and x.num_args() > 0:
            k = x.decl().kind()
            if k == z3.Z3_OP_UNINTERPRETED and x.num_args() == 1 and z3.is_var(x.arg(0)):
                keys.add(("uf", x.decl().name()))
            elif k == z3.Z3_OP_SELECT and z3.is_var(x.arg(1)) and not has_var(x.arg(0)):
                keys.add(("sel", x.arg(0).get_id()))

    _walk(body, set(), f)
    return keys


def const_ids(exprs):
    ids = set()

    def f(x):
        if z3.is_const(x) and x.decl().kind() == z3.Z3_OP_UNINTERPRETED:
            ids.add(x.get_id())

    seen = set()
    for e in exprs:
        _walk(e, seen, f)
    return ids


def euclid_lemmas(exprs):
    """Instances of the (separately proved, see selfcheck_lemmas) uniqueness lemma for Euclidean division:
         x1 == q1*d + r1, 0 <= r1 < d, x2 == q2*d + r2, 0 <= r2 < d, 0 <= x2 - q1*d < d  ==>  q2 == q1 and r2 == x2 - q1*d
       for every two witness pairs with the same divisor that occur in the query.  With these the content obligations
       need linear arithmetic only (products q*d stay opaque)."""
    ids = const_ids(exprs)
    live = [p for p in EUCLID if p[2].get_id() in ids or p[3].get_id() in ids]
    out = []
    for (x1, d1, q1, r1) in live:
        for (x2, d2, q2, r2) in live:
            if q1 is q2 or not d1.eq(d2):
                continue
            # spec-side pairs (sq!/sr!) are related to each other only through the code's pairs: keeps the instance count
            # linear in the number of unfolded spec applications instead of quadratic
            if str(q1).startswith("sq!") and str(q2).startswith("sq!"):
                continue
            if z3.is_int_value(d1):
                continue  # constant divisor: linear already
            t = x2 - q1 * d1
            out.append(z3.Implies(z3.And(t >= 0, t < d1), z3.And(q2 == q1, r2 == t)))
    return out


def selfcheck_lemmas():
    """prove the uniqueness lemma used by euclid_lemmas (once per run, nonlinear, small)"""
    x1, x2, q1, q2, r1, r2, d = z3.Ints("x1 x2 q1 q2 r1 r2 d")
    s = z3.Solver()
    s.set(timeout=30000)
    s.add(d > 0, x1 == q1 * d + r1, 0 <= r1, r1 < d, x2 == q2 * d + r2, 0 <= r2, r2 < d, x2 - q1 * d >= 0, x2 - q1 * d < d)
    s.add(z3.Not(z3.And(q2 == q1, r2 == x2 - q1 * d)))
    return s.check() == z3.unsat


@dataclass
class AtomQuery:
    ob_name: str
    ob_index: int
    atom: int
    line: int
    path: str
    stages: list  # [(stage name, smt2 text)]
    goal_str: str
    verdict: str = ""
    stage: str = ""
    secs: float = 0.0
    model: dict = field(default_factory=dict)
    backend: str = ""
    detail: str = ""


def _smt2(assertions):
    s = z3.Solver()
    for a in assertions:
        s.add(a)
    return s.to_smt2()


def unfold_opaque(exprs, depth=2, ob_name=""):
    """definitional equations for every ground application of a registered opaque spec function (R4)"""
    eqs = []
    seen = set()
    frontier = list(exprs)
    for _ in range(depth):
        apps = []

        def f(x):
            if z3.is_app(x) and x.decl().kind() == z3.Z3_OP_UNINTERPRETED and x.num_args() > 0 and x.decl().name() in OPAQUE:
                w = OPAQUE_WHEN.get(x.decl().name())
                if w is not None and not w(ob_name):
                    return
                if x.get_id() not in seen and not any(has_var(c) for c in x.children()):
                    seen.add(x.get_id())
                    apps.append(x)

        ws = set()
        for e in frontier:
            _walk(e, ws, f)
        if not apps:
            break
        new = []
        for a in apps:
            d = OPAQUE[a.decl().name()](*a.children())
            facts = []
            if isinstance(d, tuple):
                d, facts = d
            if z3.is_bool(a):
                new.append(a == d)
            else:
                new.append(a == d)
            new.extend(facts)
        eqs.extend(new)
        frontier = new
    return eqs


def prepare(obs, shifts_for=None, extra_inst_terms=None, units=()):
    """obligations -> AtomQuery list with SMT-LIB text for each stage"""
    queries = []
    for oi, ob in enumerate(obs):
        shifts = [z3.IntVal(0)] + list(shifts_for(ob) if shifts_for else [])
        for ai, (extra, sk, body) in enumerate(split_goal(ob.goal)):
            hyps = []
            for h in list(ob.hyps) + list(extra):
                flatten(h, hyps)
            qf = [h for h in hyps if not has_quant(h)]
            int_sk = [s_ for s_ in sk if s_.sort() == I]

            def vclass(name):
                # quantified variables are typed by name: t* = table index (pattern-instantiated only), i/j = unit (sector) index,
                # anything else (k) = byte index.  Keeps irrelevant instances (and their div/mod terms) out of the query.
                if name.startswith("t"):
                    return "table"
                if name[0] in "ij":
                    return "unit"
                return "byte"

            def skname(c):
                return c.decl().name().split("!")[0]

            byte_sk = [s_ for s_ in int_sk if vclass(skname(s_)) == "byte"]
            unit_sk = [s_ for s_ in int_sk if vclass(skname(s_)) == "unit"]
            terms_byte = [s_ - d for s_ in byte_sk for d in shifts] + [s_ + d for s_ in byte_sk for d in shifts[1:]]
            terms_unit = [s_ - d for s_ in unit_sk for d in shifts] + [s_ + d for s_ in unit_sk for d in shifts[1:]]
            if extra_inst_terms:
                terms_byte += list(extra_inst_terms(ob))
            # unit quotients: a byte index k lies in unit (sector) k div u; callee/element contracts are indexed by units
            unit_facts = []
            for s_ in byte_sk:
                for u in units:
                    uq, ur, uf = ediv(s_, z3.IntVal(u))
                    unit_facts.append(uf)
                    terms_unit += [uq] + [uq - d for d in shifts[1:]] + [uq + d for d in shifts[1:]]
            if not units:
                terms_unit += terms_byte
                terms_byte = terms_byte + [t for t in terms_unit if not any(t.eq(x) for x in terms_byte)]
            qf = qf + unit_facts
            hyps = hyps + unit_facts
            qparts = []
            for h in hyps:
                qparts += quantified_parts(h)
            inst = []
            # (i) skolem +/- segment lengths
            for guard, fa in qparts:
                if fa.num_vars() != 1 or fa.var_sort(0) != I:
                    continue
                cls = vclass(fa.var_name(0))
                if cls == "table":
                    continue
                for t in (terms_unit if cls == "unit" else terms_byte):
                    b = z3.substitute_vars(fa.body(), t)
                    inst.append(b if guard is None else z3.Implies(guard, b))
            # (ii) table axioms: instantiate F(k) patterns at every ground argument of F (two rounds)
            for _round in range(2):
                ga = ground_apps([body] + qf + inst)
                added = []
                for guard, fa in qparts:
                    if fa.num_vars() != 1 or fa.var_sort(0) != I:
                        continue
                    for key in direct_var_patterns(fa.body()):
                        for args in ga.get(key, []):
                            t = args[0]
                            b = z3.substitute_vars(fa.body(), t)
                            b = b if guard is None else z3.Implies(guard, b)
                            if not any(b.eq(x) for x in inst) and not any(b.eq(x) for x in added):
                                added.append(b)
                if not added or len(inst) + len(added) > 400:
                    break
                inst += added
            defs = unfold_opaque([body] + qf + inst, ob_name=ob.name)
            lem = euclid_lemmas([body] + qf + inst + defs)
            stages = []
            if is_pure_arith(body):
                core = [h for h in qf if is_pure_arith(h)]
                stages.append(("arith-core/lin", core + lem))
                stages.append(("arith-core", core + lem))
            stages.append(("qf+inst/lin", qf + inst + defs + lem))
            stages.append(("qf+inst", qf + inst + defs + lem))
            if len(qf) != len(hyps):
                stages.append(("full", hyps + inst + defs + lem))
            texts = []
            cache = {}
            for nm, hy in stages:
                key = tuple(h.get_id() for h in hy)
                if key not in cache:
                    cache[key] = _smt2(list(hy) + [z3.Not(body)])
                texts.append((nm, cache[key]))
            queries.append(AtomQuery(ob.name, oi, ai, ob.line, ob.path, texts, str(body)[:300]))
    return queries


# ------------------------------------------------------------------------------------------------ back ends
def _model_dict(m):
    out = {}
    for d in m.decls():
        try:
            if d.arity() == 0:
                out[d.name()] = str(m[d])
            else:
                out[d.name()] = str(m[d])[:2000]
        except Exception:  # noqa: BLE001
            pass
    return out


def solve_z3(text, timeout_ms, seed=0, linear=False, legacy=False):
    s = z3.Solver()
    s.set(timeout=timeout_ms)
    if legacy:
        s.set("arith.solver", 2)  # legacy simplex: on these integer queries often 100x faster than the default (and vice versa)
    if linear:
        s.set("arith.nl", False)  # products stay opaque: weaker theory, so `unsat` is still a proof; other answers are ignored
    if seed:
        s.set("random_seed", seed)
    s.from_string(text)
    t = time.time()
    r = s.check()
    dt = time.time() - t
    if r == z3.sat:
        return "sat", dt, _model_dict(s.model())
    return str(r), dt, {}


def solve_cli(cmd, text, timeout_s):
    """external solver on the same SMT-LIB text (cvc5 / system z3): used on z3's `unknown`"""
    with tempfile.NamedTemporaryFile("w", suffix=".smt2", delete=False, dir=os.environ.get("TMPDIR", "/tmp")) as f:
        f.write("(set-logic ALL)\n" if "cvc5" in cmd[0] else "")
        f.write(text)
        path = f.name
    t = time.time()
    try:
        p = subprocess.run(cmd + [path], capture_output=True, text=True, timeout=timeout_s)
        out = p.stdout.strip().splitlines()
        r = out[0].strip() if out else "unknown"
        if r not in ("sat", "unsat", "unknown"):
            r = "unknown"
    except subprocess.TimeoutExpired:
        r = "unknown"
    finally:
        os.unlink(path)
    return r, time.time() - t


def solve_query(q_tuple):
    """worker: try the stages in order; first unsat wins"""
    idx, stages, timeout_ms, thorough, seed = q_tuple
    best = ("unknown", "", 0.0, {}, "z3-5.1", "")
    total = 0.0
    for nm, text in stages:
        lin = nm.endswith("/lin")
        try:
            if lin:
                # two arithmetic back ends of z3, products opaque; only `unsat` is used
                r, dt, model = solve_z3(text, min(timeout_ms, 8000), seed, linear=True, legacy=True)
                if r != "unsat":
                    total += dt
                    r, dt, model = solve_z3(text, min(timeout_ms, 8000), seed, linear=True)
            else:
                r, dt, model = solve_z3(text, timeout_ms, seed)
                if r == "unknown":
                    total += dt
                    r, dt, model = solve_z3(text, timeout_ms, seed, legacy=True)
        except z3.Z3Exception as e:  # parse/internal error: never a verdict about the code
            return idx, "error", nm, total, {}, "z3-5.1", str(e)[:300]
        total += dt
        if r == "unsat":
            return idx, "unsat", nm, total, {}, "z3-5.1", ""
        if lin:
            continue
        if r == "sat":
            # candidate counterexample; quantifier-free stages may be spurious w.r.t. uninstantiated hypotheses
            best = ("sat", nm, total, model, "z3-5.1", "")
            if nm == "full":
                return (idx,) + best
            continue
        # unknown: other back ends on the same text
        for cmd, name in (( ["/usr/bin/cvc5", f"--tlimit={timeout_ms}"], "cvc5-1.0.3"), (["/usr/bin/z3", f"-T:{max(1, timeout_ms // 1000)}"], "z3-4.8.12")):
            if "lambda" in text and "cvc5" in cmd[0]:
                continue
            r2, dt2 = solve_cli(cmd, text, timeout_ms / 1000 + 5)
            total += dt2
            if r2 == "unsat":
                return idx, "unsat", nm, total, {}, name, ""
        if best[0] != "sat":
            best = ("unknown", nm, total, {}, "z3-5.1", "")
    return (idx,) + (best[0], best[1], total) + best[3:]


_POOL = {}


def _warm(texts=()):
    """first use of z3's arithmetic in a fresh process touches ~200 MB (page faults are slow and serialised in this VM:
    0.9 s alone, ~9 s when 16 workers start together) -- pay that before any query runs under a time budget"""
    x, y, q, r = z3.Ints("wx wy wq wr")
    s = z3.Solver()
    s.set(timeout=20000)
    s.add(x == q * y + r, 0 <= r, r < y, y > 0, x >= 0, z3.Not(q >= 0))
    s.check()
    for text in texts:
        try:
            s = z3.Solver()
            s.set(timeout=3000)
            s.from_string(text)
            s.check()
        except z3.Z3Exception:
            pass


def _pool(jobs, sample_texts=()):
    import multiprocessing as mp

    if jobs not in _POOL:
        _POOL[jobs] = ProcessPoolExecutor(max_workers=jobs, mp_context=mp.get_context("forkserver"), initializer=_warm, initargs=(tuple(sample_texts),))
    return _POOL[jobs]


def run_queries(queries, jobs=None, timeout_ms=10000, thorough=False, seed=0):
    jobs = jobs or min(16, os.cpu_count() or 4)
    tasks = [(i, q.stages, timeout_ms, thorough, seed) for i, q in enumerate(queries)]
    if not tasks:
        return queries
    if jobs == 1 or len(tasks) < 3:
        results = map(solve_query, tasks)
    else:
        by_size = sorted((q.stages[0][1] for q in queries if q.stages), key=len)
        ex = _pool(jobs, [by_size[len(by_size) // 2], by_size[-1]] if by_size else [])
        results = ex.map(solve_query, tasks, chunksize=max(1, min(8, len(tasks) // (jobs * 4))))
    for idx, verdict, stage, secs, model, backend, detail in results:
        q = queries[idx]
        q.verdict, q.stage, q.secs, q.model, q.backend, q.detail = verdict, stage, secs, model, backend, detail
    return queries


def shifts_by_name(pattern):
    """shift terms = integer constants in the hypotheses whose name matches `pattern` (segment lengths in play).
    `pattern` may be a dict {substring of the obligation name: regex} with "" as the default entry."""
    if isinstance(pattern, dict):
        table = {k: re.compile(v) for k, v in pattern.items()}
    else:
        table = {"": re.compile(pattern)}

    def f(ob):
        rx = next((r for k, r in table.items() if k and k in ob.name), table.get("", re.compile(r"^$")))
        acc = {}

        def g(x):
            if z3.is_const(x) and x.decl().kind() == z3.Z3_OP_UNINTERPRETED and x.sort() == I and rx.match(x.decl().name()):
                acc[x.decl().name()] = x

        seen = set()
        for h in ob.hyps:
            _walk(h, seen, g)
        _walk(ob.goal, seen, g)
        return list(acc.values())

    return f
