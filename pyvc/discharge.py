"""Discharge of obligations (DESIGN.md 2.5/2.6): recursive goal splitting (R7), flattening + slicing (R3), our own
instantiation of quantified hypotheses, quantifier-free first (R8), opaque spec functions unfolded at ground
applications (R4), one query per (path, obligation, atom) (R2), SMT-LIB text handed to a pool of solver processes.

`unsat` of any stage is a proof of that atom (each stage's hypotheses are consequences of the full hypothesis set).
`sat` of a quantifier-free stage is only a *candidate* counterexample."""
from __future__ import annotations

import os
import re
import subprocess
import tempfile
import time
from concurrent.futures import ProcessPoolExecutor
from dataclasses import dataclass, field

import z3

from .engine import EUCLID, I, ediv, fresh

OPAQUE = {}  # uninterpreted function name -> python definition over z3 terms (R4)


OPAQUE_WHEN = {}  # name -> predicate(obligation name): unfold only in those obligations (default: everywhere)


def reset_memo():
    """memo tables are per contract: opaque definitions and fresh-name counters are re-created for every contract"""
    for t in (_MEMO_Q, _MEMO_PURE, _MEMO_VAR, _MEMO_INFO, _MEMO_UNFOLD, _MEMO_DVP, _MEMO_SHIFT):
        t.clear()
    del _KEEP[:]


def register_opaque(name, fn, when=None):
    _MEMO_UNFOLD.clear()
    _MEMO_INFO.clear()
    OPAQUE[name] = fn
    if when is not None:
        OPAQUE_WHEN[name] = when
    else:
        OPAQUE_WHEN.pop(name, None)


_KEEP = []  # keeps analysed expressions alive so that AST ids stay unique for the lifetime of the memo tables
_MEMO_Q = {}


def has_quant(e):
    i = e.get_id()
    r = _MEMO_Q.get(i)
    if r is None:
        if z3.is_quantifier(e):
            r = True
        else:
            r = any(has_quant(c) for c in e.children())
        _MEMO_Q[i] = r
        _KEEP.append(e)
    return r


def flatten(h, acc):
    if z3.is_and(h):
        for c in h.children():
            flatten(c, acc)
    elif z3.is_true(h):
        pass
    elif z3.is_implies(h) and z3.is_and(h.arg(1)):
        # g => (a and b)  ==  (g => a) and (g => b): keeps the quantifier-free conjuncts of a guarded contract usable in the QF stages
        for c in h.arg(1).children():
            flatten(z3.Implies(h.arg(0), c), acc)
    else:
        acc.append(h)
    return acc


def split_goal(g, extra=(), sk=()):
    """And -> each conjunct; Implies(a, b) -> assume a; Forall -> skolemise; If-then-else at top -> both arms."""
    if z3.is_and(g):
        out = []
        for c in g.children():
            out += split_goal(c, extra, sk)
        return out
    if z3.is_implies(g):
        return split_goal(g.arg(1), tuple(extra) + (g.arg(0),), sk)
    if z3.is_quantifier(g) and g.is_forall():
        vs = [fresh(g.var_name(i), g.var_sort(i)) for i in range(g.num_vars())]
        return split_goal(z3.substitute_vars(g.body(), *reversed(vs)), extra, tuple(sk) + tuple(vs))
    if z3.is_true(g):
        return []
    return [(list(extra), list(sk), g)]


def quantified_parts(h, guard=None, out=None):
    """(guard, forall) for hypotheses of the form Forall, Implies(c, Forall / And(.. Forall ..)), And(...)."""
    out = [] if out is None else out
    if z3.is_quantifier(h) and h.is_forall():
        out.append((guard, h))
    elif z3.is_and(h):
        for c in h.children():
            quantified_parts(c, guard, out)
    elif z3.is_implies(h) and has_quant(h.arg(1)):
        g2 = h.arg(0) if guard is None else z3.And(guard, h.arg(0))
        quantified_parts(h.arg(1), g2, out)
    return out


_MEMO_PURE = {}


def is_pure_arith(e):
    """no array read, no uninterpreted application, no quantifier"""
    i = e.get_id()
    r = _MEMO_PURE.get(i)
    if r is not None:
        return r
    r = True
    if z3.is_quantifier(e):
        r = False
    elif z3.is_app(e):
        k = e.decl().kind()
        if k == z3.Z3_OP_UNINTERPRETED and e.num_args() > 0:
            r = False
        elif k in (z3.Z3_OP_SELECT, z3.Z3_OP_STORE):
            r = False
    if r:
        r = all(is_pure_arith(c) for c in e.children())
    _MEMO_PURE[i] = r
    _KEEP.append(e)
    return r


def short_str(e, limit=300):
    """bounded-cost rendering of a goal for reports (pretty-printing a large term in full costs seconds)"""
    try:
        if z3.is_app(e) and e.num_args() > 0:
            head = e.decl().name()
            parts = []
            for c in e.children()[:3]:
                parts.append(short_str(c, limit // 3) if c.num_args() > 0 and limit > 60 else (str(c) if c.num_args() == 0 else c.decl().name() + "(..)"))
            return (f"{head}({', '.join(parts)}{', ..' if e.num_args() > 3 else ''})")[:limit]
        return str(e)[:limit]
    except Exception:  # noqa: BLE001
        return "<goal>"


def _walk(e, seen, fn):
    if e.get_id() in seen:
        return
    seen.add(e.get_id())
    fn(e)
    if z3.is_quantifier(e):
        _walk(e.body(), seen, fn)
    else:
        for c in e.children():
            _walk(c, seen, fn)


_MEMO_VAR = {}


def has_var(e):
    i = e.get_id()
    r = _MEMO_VAR.get(i)
    if r is None:
        r = z3.is_var(e) or any(has_var(c) for c in (e.children() if not z3.is_quantifier(e) else [e.body()]))
        _MEMO_VAR[i] = r
        _KEEP.append(e)
    return r


class _Info:
    __slots__ = ("apps", "consts", "opaque", "arrays")

    def __init__(self):
        self.apps = {}  # (kind, symbol) -> {tuple(arg ids): args}
        self.consts = set()
        self.arrays = set()
        self.opaque = {}  # app id -> app


_MEMO_INFO = {}


def info(e):
    """ground uninterpreted applications / array selects, uninterpreted constants and opaque-spec applications of one expression (memoised)"""
    i = e.get_id()
    r = _MEMO_INFO.get(i)
    if r is not None:
        return r
    r = _Info()

    def f(x):
        if not z3.is_app(x):
            return
        k = x.decl().kind()
        n = x.num_args()
        if k == z3.Z3_OP_UNINTERPRETED:
            if n == 0:
                r.consts.add(x.get_id())
                if z3.is_array(x) and not x.decl().name().startswith("data("):
                    r.arrays.add(x.decl().name())
                return
            args = x.children()
            if any(has_var(a_) for a_ in args):
                return
            r.apps.setdefault(("uf", x.decl().name()), {})[tuple(a_.get_id() for a_ in args)] = tuple(args)
            if x.decl().name() in OPAQUE:
                r.opaque[x.get_id()] = x
        elif k == z3.Z3_OP_SELECT:
            args = x.children()[1:]
            if any(has_var(a_) for a_ in args) or has_var(x.arg(0)):
                return
            r.apps.setdefault(("sel", x.arg(0).get_id()), {})[tuple(a_.get_id() for a_ in args)] = tuple(args)

    _walk(e, set(), f)
    _MEMO_INFO[i] = r
    _KEEP.append(e)
    return r


def ground_apps(exprs):
    """ground applications of uninterpreted functions and array selects: key -> list of arg tuples"""
    out = {}
    for e in exprs:
        for key, d in info(e).apps.items():
            out.setdefault(key, {}).update(d)
    return {k: list(v.values()) for k, v in out.items()}


_MEMO_DVP = {}
_MEMO_SHIFT = {}


def direct_var_patterns(body):
    """keys of uninterpreted applications / selects in a one-variable quantifier body whose (single relevant) argument is
    the bound variable itself: those are instantiated at every ground argument of the same symbol (table axioms)."""
    bid = body.get_id()
    if bid in _MEMO_DVP:
        return _MEMO_DVP[bid]
    keys = set()

    def f(x):
        if z3.is_app(x) and x.num_args() > 0:
            k = x.decl().kind()
            if k == z3.Z3_OP_UNINTERPRETED and x.num_args() == 1 and z3.is_var(x.arg(0)):
                keys.add(("uf", x.decl().name()))
            elif k == z3.Z3_OP_SELECT and z3.is_var(x.arg(1)) and not has_var(x.arg(0)):
                keys.add(("sel", x.arg(0).get_id()))

    _walk(body, set(), f)
    _MEMO_DVP[bid] = keys
    _KEEP.append(body)
    return keys


def array_consts(exprs):
    """names of the byte-array constants (sort Array Int Int, other than file contents `data(...)`) occurring in exprs"""
    out = set()
    for e in exprs:
        i = info(e)
        out |= i.arrays
    return out


def const_ids(exprs):
    ids = set()
    for e in exprs:
        ids |= info(e).consts
    return ids


def euclid_lemmas(exprs, anchors=()):
    """Instances of the (separately proved, see selfcheck_lemmas) uniqueness lemma for Euclidean division:
         x1 == q1*d + r1, 0 <= r1 < d, x2 == q2*d + r2, 0 <= r2 < d, 0 <= x2 - q1*d < d  ==>  q2 == q1 and r2 == x2 - q1*d
       for every two witness pairs with the same divisor that occur in the query.  With these the content obligations
       need linear arithmetic only (products q*d stay opaque)."""
    ids = const_ids(exprs)
    live = [p for p in EUCLID if p[2].get_id() in ids or p[3].get_id() in ids]
    anchor_ids = {z3.simplify(a).get_id() for a in anchors}

    def primary(p):  # code-side pair, or a spec-side pair whose dividend is an anchor position of the contract
        return not p[2].decl().name().startswith("sq!") or p[0].get_id() in anchor_ids

    out = []
    live = [p for p in live if not z3.is_int_value(p[1])]  # constant divisor: linear already
    # multipliers m with a product m*d in the query (d a symbolic divisor): shift lemma  x2 == x1 + m*d  ==>  q2 == q1 + m, r2 == r1
    mults = {}
    if live:
        dset = {p[1].get_id(): p[1] for p in live}

        def fm(x):
            if z3.is_app(x) and x.decl().kind() == z3.Z3_OP_MUL and x.num_args() == 2:
                a_, b_ = x.arg(0), x.arg(1)
                for d_, m_ in ((a_, b_), (b_, a_)):
                    if d_.get_id() in dset and not z3.is_int_value(m_) and m_.get_id() not in dset:
                        mults.setdefault(d_.get_id(), {})[m_.get_id()] = m_

        seen_ = set()
        for e in exprs:
            _walk(e, seen_, fm)
    prim = [primary(p) for p in live]
    dids = [p[1].get_id() for p in live]
    for i1, (x1, d1, q1, r1) in enumerate(live):
        for i2, (x2, d2, q2, r2) in enumerate(live):
            if i1 == i2 or dids[i1] != dids[i2]:
                continue
            # spec-side pairs (sq!/sr!) are related to each other only through primary pairs (the code's own pairs and pairs
            # at the contract's anchor positions): keeps the instance count linear in the number of unfolded applications
            if not (prim[i1] or prim[i2]):
                continue
            t = x2 - q1 * d1
            out.append(z3.Implies(z3.And(t >= 0, t < d1), z3.And(q2 == q1, r2 == t)))
            for m_ in list(mults.get(dids[i1], {}).values())[:6]:
                if m_.get_id() in (q1.get_id(), q2.get_id()):
                    continue
                out.append(z3.Implies(x2 - x1 == m_ * d1, z3.And(q2 == q1 + m_, r2 == r1)))
            if prim[i1]:
                # adjacent quotients (crossing into the next / previous unit), same uniqueness argument
                out.append(z3.Implies(z3.And(t >= d1, t < 2 * d1), z3.And(q2 == q1 + 1, r2 == t - d1)))
                out.append(z3.Implies(z3.And(t >= -d1, t < 0), z3.And(q2 == q1 - 1, r2 == t + d1)))
    return out


def selfcheck_lemmas():
    """prove the uniqueness lemma used by euclid_lemmas (once per run, nonlinear, small)"""
    x1, x2, q1, q2, r1, r2, d = z3.Ints("x1 x2 q1 q2 r1 r2 d")
    s = z3.Solver()
    s.set(timeout=30000)
    s.add(d > 0, x1 == q1 * d + r1, 0 <= r1, r1 < d, x2 == q2 * d + r2, 0 <= r2, r2 < d, x2 - q1 * d >= 0, x2 - q1 * d < d)
    s.add(z3.Not(z3.And(q2 == q1, r2 == x2 - q1 * d)))
    ok = s.check() == z3.unsat
    mm = z3.Int("mm")
    s = z3.Solver()
    s.set(timeout=30000)
    s.add(d > 0, x1 == q1 * d + r1, 0 <= r1, r1 < d, x2 == q2 * d + r2, 0 <= r2, r2 < d, x2 - x1 == mm * d, z3.Not(z3.And(q2 == q1 + mm, r2 == r1)))
    ok = ok and s.check() == z3.unsat
    for k in (1, -1):
        s = z3.Solver()
        s.set(timeout=30000)
        t = x2 - q1 * d
        s.add(d > 0, x1 == q1 * d + r1, 0 <= r1, r1 < d, x2 == q2 * d + r2, 0 <= r2, r2 < d, t >= k * d, t < (k + 1) * d)
        s.add(z3.Not(z3.And(q2 == q1 + k, r2 == t - k * d)))
        ok = ok and s.check() == z3.unsat
    return ok


@dataclass
class AtomQuery:
    ob_name: str
    ob_index: int
    atom: int
    line: int
    path: str
    stages: list  # [(stage name, smt2 text)]
    goal_str: str
    verdict: str = ""
    stage: str = ""
    secs: float = 0.0
    model: dict = field(default_factory=dict)
    backend: str = ""
    detail: str = ""
    kind: str = "ob"
    cname: str = ""
    props: list = field(default_factory=list)


def _smt2(assertions):
    s = z3.Solver()
    for a in assertions:
        s.add(a)
    return s.to_smt2()


_MEMO_UNFOLD = {}


def unfold_opaque(exprs, depth=2, ob_name=""):
    """definitional equations for every ground application of a registered opaque spec function (R4)"""
    eqs = []
    seen = set()
    frontier = list(exprs)
    for _ in range(depth):
        apps = []
        for e in frontier:
            for i, x in info(e).opaque.items():
                if i in seen:
                    continue
                w = OPAQUE_WHEN.get(x.decl().name())
                if w is not None and not w(ob_name):
                    continue
                seen.add(i)
                apps.append(x)
        if not apps:
            break
        new = []
        for a in apps:
            got = _MEMO_UNFOLD.get(a.get_id())
            if got is None:
                d = OPAQUE[a.decl().name()](*a.children())
                facts = []
                if isinstance(d, tuple):
                    d, facts = d
                got = [a == d] + list(facts)
                _MEMO_UNFOLD[a.get_id()] = got
                _KEEP.append(a)
            new.extend(got)
        eqs.extend(new)
        frontier = new
    return eqs


def prepare(obs, shifts_for=None, extra_inst_terms=None, units=(), last_for=None, select_terms=False):
    """obligations -> AtomQuery list with SMT-LIB text for each stage"""
    queries = []
    for oi, ob in enumerate(obs):
        all_anchors = list(getattr(ob, "anchors", []))
        anchors = [a for a, c in all_anchors if c == "unit"]
        banchors = [a for a, c in all_anchors if c == "byte"]
        named = list(shifts_for(ob) if shifts_for else [])
        # with declared units, named segment lengths are byte quantities and anchors are unit (sector) positions
        shifts = [z3.IntVal(0)] + named + banchors + ([] if units else anchors)
        ushifts = [z3.IntVal(0)] + (anchors if units else named + anchors)
        # a goal that is syntactically True still is an obligation of the contract (it becomes False when the code changes, e.g. a codec
        # tag): it is kept as one trivial query so that the obligation is counted, recorded in the ledger and missed when it fails
        for ai, (extra, sk, body) in enumerate(split_goal(ob.goal) or [([], [], z3.BoolVal(True))]):
            hyps = []
            for h in list(ob.hyps) + list(extra):
                flatten(h, hyps)
            qf = [h for h in hyps if not has_quant(h)]
            int_sk = [s_ for s_ in sk if s_.sort() == I]

            def vclass(name):
                # quantified variables are typed by name: t* = table index (pattern-instantiated only), i/j = unit (sector) index,
                # anything else (k) = byte index.  Keeps irrelevant instances (and their div/mod terms) out of the query.
                if name.startswith("t"):
                    return "table"
                if name[0] in "ij":
                    return "unit"
                return "byte"

            def skname(c):
                return c.decl().name().split("!")[0]

            byte_sk = [s_ for s_ in int_sk if vclass(skname(s_)) == "byte"]
            unit_sk = [s_ for s_ in int_sk if vclass(skname(s_)) == "unit"]
            terms_byte = [s_ - d for s_ in byte_sk for d in shifts] + [s_ + d for s_ in byte_sk for d in shifts[1:]]
            terms_unit = [s_ - d for s_ in unit_sk for d in ushifts] + [s_ + d for s_ in unit_sk for d in ushifts[1:]]
            if extra_inst_terms:
                terms_byte += list(extra_inst_terms(ob))
            terms_unit += anchors
            terms_byte += banchors
            if last_for:
                lt = [c - 1 for c in last_for(ob)]
                lt += [a + c for a in anchors for c in lt]
                terms_unit += lt
                terms_byte += lt
            if select_terms:
                # (opt-in per contract) every ground array position read in the quantifier-free hypotheses or the goal is a byte-class term
                from .engine import _select_indices

                seen_ix = []
                for e_ in qf + [body]:
                    for ix in _select_indices(e_):
                        if not any(ix.eq(x) for x in seen_ix):
                            seen_ix.append(ix)
                terms_byte += [t for t in seen_ix[:40] if not any(t.eq(x) for x in terms_byte)]
            # unit quotients: a byte index k lies in unit (sector) k div u; callee/element contracts are indexed by units
            unit_facts = []
            for s_ in byte_sk:
                for u in units:
                    uq, ur, uf = ediv(s_, z3.IntVal(u))
                    unit_facts.append(uf)
                    terms_unit += [uq] + [uq - d for d in ushifts[1:]] + [uq + d for d in ushifts[1:]]
            if not units:
                terms_unit += terms_byte
                terms_byte = terms_byte + [t for t in terms_unit if not any(t.eq(x) for x in terms_byte)]
            hyps = hyps + unit_facts

            def pipeline(hs):
                """instantiate / unfold / lemma for one set of hypotheses; returns (qf, inst, defs, lem)"""
                qf_ = [h for h in hs if not has_quant(h)]
                qparts = []
                for h in hs:
                    qparts += quantified_parts(h)
                inst = []
                # (i) skolem +/- segment lengths
                for guard, fa in qparts:
                    if fa.num_vars() != 1 or fa.var_sort(0) != I:
                        continue
                    cls = vclass(fa.var_name(0))
                    if cls == "table":
                        continue
                    for t in (terms_unit if cls == "unit" else terms_byte):
                        b = z3.substitute_vars(fa.body(), t)
                        inst.append(b if guard is None else z3.Implies(guard, b))
                # (ii) table axioms: instantiate F(t) patterns at every ground argument of F; interleaved with the unfolding
                # of opaque spec functions (their definitions mention table symbols), up to three rounds
                for _round in range(3):
                    defs = unfold_opaque([body] + qf_ + inst, ob_name=ob.name)
                    ga = ground_apps([body] + qf_ + inst + defs)
                    added = []
                    have = {x.get_id() for x in inst}
                    for guard, fa in qparts:
                        if fa.num_vars() != 1 or fa.var_sort(0) != I or vclass(fa.var_name(0)) != "table":
                            continue
                        for key in direct_var_patterns(fa.body()):
                            for args in ga.get(key, []):
                                t = args[0]
                                b = z3.substitute_vars(fa.body(), t)
                                b = b if guard is None else z3.Implies(guard, b)
                                if b.get_id() not in have:
                                    have.add(b.get_id())
                                    added.append(b)
                    if not added or len(inst) + len(added) > 600:
                        break
                    inst += added
                defs = unfold_opaque([body] + qf_ + inst, ob_name=ob.name)
                lem = euclid_lemmas([body] + qf_ + inst + defs, anchors)
                return qf_, inst, defs, lem

            # relevance slice (R3): hypotheses that talk about a byte-array symbol (accumulators, callee results) which the goal
            # does not mention are left out of the first stages; dropping hypotheses is sound for proving
            garr = array_consts([body] + list(extra))
            harr = [array_consts([h]) for h in hyps]
            changed = True
            while changed:  # transitive: arrays co-occurring with a relevant array are relevant
                changed = False
                for ha in harr:
                    if ha & garr and not ha <= garr:
                        garr |= ha
                        changed = True
            sliced = [h for h, ha in zip(hyps, harr) if ha <= garr]
            stages = []
            qf, inst, defs, lem = pipeline(hyps)
            if is_pure_arith(body):
                core = [h for h in qf if is_pure_arith(h)]
                stages.append(("arith-core/lin", core + lem))
                stages.append(("arith-core", core + lem))
            if len(sliced) < len(hyps):
                qf_s, inst_s, defs_s, lem_s = pipeline(sliced)
                stages.append(("sliced/lin", qf_s + inst_s + defs_s + lem_s))
                stages.append(("sliced", qf_s + inst_s + defs_s + lem_s))
            stages.append(("qf+inst/lin", qf + inst + defs + lem))
            stages.append(("qf+inst", qf + inst + defs + lem))
            if len(qf) != len(hyps):
                stages.append(("full", hyps + inst + defs + lem))
            texts = []
            cache = {}
            for nm, hy in stages:
                key = tuple(h.get_id() for h in hy)
                if key not in cache:
                    cache[key] = _smt2(list(hy) + [z3.Not(body)])
                texts.append((nm, cache[key]))
            queries.append(AtomQuery(ob.name, oi, ai, ob.line, ob.path, texts, short_str(body)))
    return queries


# ------------------------------------------------------------------------------------------------ back ends
def _model_dict(m):
    out = {}
    for d in m.decls():
        try:
            if d.arity() == 0:
                out[d.name()] = str(m[d])
            else:
                out[d.name()] = str(m[d])[:2000]
        except Exception:  # noqa: BLE001
            pass
    return out


def solve_z3(text, timeout_ms, seed=0, linear=False, legacy=False):
    s = z3.Solver()
    s.set(timeout=timeout_ms)
    if legacy:
        s.set("arith.solver", 2)  # legacy simplex: on these integer queries often 100x faster than the default (and vice versa)
    if linear:
        s.set("arith.nl", False)  # products stay opaque: weaker theory, so `unsat` is still a proof; other answers are ignored
    if seed:
        s.set("random_seed", seed)
    s.from_string(text)
    t = time.time()
    r = s.check()
    dt = time.time() - t
    if r == z3.sat:
        return "sat", dt, _model_dict(s.model())
    return str(r), dt, {}


def solve_cli(cmd, text, timeout_s):
    """external solver on the same SMT-LIB text (cvc5 / system z3): used on z3's `unknown`"""
    with tempfile.NamedTemporaryFile("w", suffix=".smt2", delete=False, dir=os.environ.get("TMPDIR", "/tmp")) as f:
        f.write("(set-logic ALL)\n" if "cvc5" in cmd[0] else "")
        f.write(text)
        path = f.name
    t = time.time()
    try:
        p = subprocess.run(cmd + [path], capture_output=True, text=True, timeout=timeout_s)
        out = p.stdout.strip().splitlines()
        r = out[0].strip() if out else "unknown"
        if r not in ("sat", "unsat", "unknown"):
            r = "unknown"
    except subprocess.TimeoutExpired:
        r = "unknown"
    finally:
        os.unlink(path)
    return r, time.time() - t


def solve_query(q_tuple):
    """worker: try the stages in order; first unsat wins"""
    idx, stages, timeout_ms, thorough, seed = q_tuple[:5]
    deadline = q_tuple[5] if len(q_tuple) > 5 else None
    best = ("unknown", "", 0.0, {}, "z3-5.1", "")
    total = 0.0
    for nm, text in stages:
        if deadline is not None and time.time() > deadline:
            # wall-clock budget of the whole solve phase exhausted (only ever reached when many obligations fail at once): undecided, never a verdict
            return (idx, best[0], best[1] or "deadline", total, best[3], best[4], best[5] or "solve-phase deadline reached")
        lin = nm.endswith("/lin")
        try:
            if lin:
                # two arithmetic back ends of z3, products opaque; only `unsat` is used
                lin_cap = timeout_ms * 4 // 9  # 20 s of the 45 s quick budget, 53 s of the 120 s thorough budget, 60 s in the second pass
                r, dt, model = solve_z3(text, lin_cap, seed, linear=True, legacy=True)
                if r != "unsat":
                    total += dt
                    r, dt, model = solve_z3(text, lin_cap, seed, linear=True)
            else:
                r, dt, model = solve_z3(text, timeout_ms, seed)
                if r == "unknown":
                    total += dt
                    r, dt, model = solve_z3(text, timeout_ms, seed, legacy=True)
        except z3.Z3Exception as e:  # parse/internal error: never a verdict about the code
            return idx, "error", nm, total, {}, "z3-5.1", str(e)[:300]
        total += dt
        if r == "unsat":
            return idx, "unsat", nm, total, {}, "z3-5.1", ""
        if lin:
            continue
        if r == "sat":
            # candidate counterexample; quantifier-free stages may be spurious w.r.t. uninstantiated hypotheses
            best = ("sat", nm, total, model, "z3-5.1", "")
            if nm == "full":
                return (idx,) + best
            continue
        # unknown: other back ends on the same text (thorough tier, last stage only: they cost a full budget each)
        for cmd, name in () if not (thorough and nm == stages[-1][0]) else (( ["/usr/bin/cvc5", f"--tlimit={timeout_ms}"], "cvc5-1.0.3"), (["/usr/bin/z3", f"-T:{max(1, timeout_ms // 1000)}"], "z3-4.8.12")):
            if "lambda" in text and "cvc5" in cmd[0]:
                continue
            r2, dt2 = solve_cli(cmd, text, timeout_ms / 1000 + 5)
            total += dt2
            if r2 == "unsat":
                return idx, "unsat", nm, total, {}, name, ""
        if best[0] != "sat":
            best = ("unknown", nm, total, {}, "z3-5.1", "")
    return (idx,) + (best[0], best[1], total) + best[3:]


_POOL = {}


def _warm(texts=()):
    """first use of z3's arithmetic in a fresh process touches ~200 MB (page faults are slow and serialised in this VM:
    0.9 s alone, ~9 s when 16 workers start together) -- pay that before any query runs under a time budget"""
    x, y, q, r = z3.Ints("wx wy wq wr")
    s = z3.Solver()
    s.set(timeout=20000)
    s.add(x == q * y + r, 0 <= r, r < y, y > 0, x >= 0, z3.Not(q >= 0))
    s.check()
    for text in texts:
        try:
            s = z3.Solver()
            s.set(timeout=3000)
            s.from_string(text)
            s.check()
        except z3.Z3Exception:
            pass


def _pool(jobs, sample_texts=()):
    import multiprocessing as mp

    if jobs not in _POOL:
        _POOL[jobs] = ProcessPoolExecutor(max_workers=jobs, mp_context=mp.get_context("forkserver"), initializer=_warm, initargs=(tuple(sample_texts),))
    return _POOL[jobs]


def run_queries(queries, jobs=None, timeout_ms=10000, thorough=False, seed=0, budget_s=None):
    jobs = jobs or min(16, os.cpu_count() or 4)
    deadline = time.time() + budget_s if budget_s else None
    # vacuity queries (canaries, pre.sat) only have to be *not refuted*: one quantifier-free stage, short budget
    tasks = [(i, [st_ for st_ in q.stages if st_[0] == "qf+inst"][:1] or q.stages[-1:], 5000, False, seed) if getattr(q, "kind", "ob") != "ob"
             else (i, q.stages, timeout_ms, thorough, seed, deadline) for i, q in enumerate(queries)]
    if not tasks:
        return queries
    if jobs == 1 or len(tasks) < 3:
        results = map(solve_query, tasks)
    else:
        by_size = sorted((q.stages[0][1] for q in queries if q.stages), key=len)
        ex = _pool(jobs, [by_size[len(by_size) // 2], by_size[-1]] if by_size else [])
        results = ex.map(solve_query, tasks, chunksize=max(1, min(8, len(tasks) // (jobs * 4))))
    for idx, verdict, stage, secs, model, backend, detail in results:
        q = queries[idx]
        q.verdict, q.stage, q.secs, q.model, q.backend, q.detail = verdict, stage, secs, model, backend, detail
    return queries


def shifts_by_name(pattern):
    """shift terms = integer constants in the hypotheses whose name matches `pattern` (segment lengths in play).
    `pattern` may be a dict {substring of the obligation name: regex} with "" as the default entry."""
    if isinstance(pattern, dict):
        table = {k: re.compile(v) for k, v in pattern.items()}
    else:
        table = {"": re.compile(pattern)}

    def f(ob):
        rx = next((r for k, r in table.items() if k and k in ob.name), table.get("", re.compile(r"^$")))
        acc = {}
        for h in list(ob.hyps) + [ob.goal]:
            key = (h.get_id(), rx.pattern)
            got = _MEMO_SHIFT.get(key)
            if got is None:
                got = {}

                def g(x, got=got):
                    if z3.is_const(x) and x.decl().kind() == z3.Z3_OP_UNINTERPRETED and x.sort() == I and rx.match(x.decl().name()):
                        got[x.decl().name()] = x

                if rx.pattern != "^$":
                    _walk(h, set(), g)
                _MEMO_SHIFT[key] = got
                _KEEP.append(h)
            acc.update(got)
        return list(acc.values())

    return f
