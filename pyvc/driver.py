"""Check driver: property id -> contracts -> obligations -> discharge -> (refutation pipeline) -> verdict + evidence.

Exit codes: 0 every obligation discharged (and every bounded block clean); 1 violation (replayed input, or an
obligation that is discharged in the committed ledger and now fails: `no-failing-input-found`); 2 undecided
(unsupported construct, new undischarged obligation that is not in the ledger); 3 checker error."""
from __future__ import annotations

import importlib
import json
import os
import sys
import time
import traceback

import z3

from . import discharge as D
from .engine import Obligation, reset_names
from .model import FnContract, run_contract

VERIF = os.path.dirname(os.path.dirname(os.path.abspath(__file__)))

EXTRACTION_DROPS = [
    "type annotations and docstrings", "log.debug()/log.warning() statements (treated as skip)",
    "f-string contents of exception messages (exception type is kept)", "from __future__ / TYPE_CHECKING imports",
]
ENCODING_ASSUMPTIONS = [
    "A1 Python encoding: ints are mathematical integers; //,%,divmod,>>,& via Euclid witnesses (divisor>0 obliged); bytes as (length, index->value); "
    "left-to-right evaluation; no monkey-patching/threads; file handles: seek/read/tell with short reads at EOF",
    "A2 z3 5.1.0 (and cvc5 1.0.3 / z3 4.8.12 on z3's unknown) are sound",
]


class Report:
    def __init__(self, pid, tier, seed, repo):
        self.pid, self.tier, self.seed, self.repo = pid, tier, seed, repo
        self.t0 = time.time()
        self.functions = []  # dicts
        self.obligations = {}  # name -> dict(verdict, atoms, secs, backend, line)
        self.undischarged = []
        self.unsupported = []
        self.errors = []
        self.canary_fail = []
        self.assumptions = list(ENCODING_ASSUMPTIONS)
        self.trusted = []
        self.bounded = []
        self.extra = {}
        self.samples = []
        self.violations = []  # (replay path, text, no_input: bool)
        self.known = []
        self.solver_time = 0.0
        self.n_queries = 0
        self.notes = []

    def add_trusted(self, *items):
        for i in items:
            if i not in self.trusted:
                self.trusted.append(i)


def load_ledger():
    p = os.path.join(VERIF, "ledger.json")
    if os.path.exists(p):
        return json.load(open(p))
    return {}


def load_known():
    p = os.path.join(VERIF, "known_findings.json")
    if os.path.exists(p):
        return json.load(open(p))
    return {"findings": []}


def strip_path(name):
    return name


def _setup_repo_path(repo):
    import sys

    if sys.path[0] != repo:
        sys.path.insert(0, repo)
        for m in [m for m in sys.modules if m.startswith("dissect.hypervisor")]:
            del sys.modules[m]
    if VERIF not in sys.path:
        sys.path.insert(1, VERIF)


def generate_contract(task):
    """worker: symbolic execution + query preparation for ONE contract in a fresh process state (deterministic names and
    AST ids, so the SMT-LIB text of every query depends only on the repository source and the contract)"""
    modname, idx, repo, pid = task
    _setup_repo_path(repo)
    mod = importlib.import_module(modname)
    cs = [c for c in mod.contracts(repo) if pid is None or pid in c.props]
    c = cs[idx]
    reset_names()
    D.reset_memo()
    t = time.time()
    out = {"name": c.name, "file": c.file, "qual": c.qual, "props": c.props, "note": c.note, "queries": [], "unsupported": "", "error": ""}
    try:
        r = run_contract(repo, c)
    except Exception as e:  # noqa: BLE001
        out["error"] = f"engine crash {type(e).__name__}: {e}\n{traceback.format_exc()[-800:]}"
        return out
    out.update(line=r.source_line, n_obligations=len(r.obligations), n_paths=r.n_paths, unsupported=r.unsupported)
    if r.unsupported:
        out["gen_s"] = round(time.time() - t, 2)
        return out
    shifts = D.shifts_by_name(c.shifts)
    last = D.shifts_by_name(c.last_terms)
    qs = D.prepare(r.obligations, shifts_for=shifts, units=c.units, last_for=last, select_terms=getattr(c, "select_terms", False))
    for q in qs:
        q.kind = "ob"
    # a contract whose postcondition is `no normal return` (expect_no_return) has no reachable return by design: its vacuity guard is pre.sat alone
    cq = [] if getattr(c, "expect_no_return", False) else D.prepare(r.canaries, shifts_for=shifts, units=c.units)
    for q in cq:
        q.kind = "canary"
    pre = Obligation(f"{c.name}/pre.sat", r.pre_hyps, z3.BoolVal(False), r.source_line, kind="canary")
    pq = D.prepare([pre])
    for q in pq:
        q.kind = "presat"
    for q in qs + cq + pq:
        q.cname = c.name
        q.props = c.props
    out["queries"] = qs + cq + pq
    out["gen_s"] = round(time.time() - t, 2)
    return out


COSTS = {}


def discharge_contracts(rep: Report, modname, n_contracts, timeout_ms, jobs=None):
    """generate (one process per contract) and discharge all obligations of the contracts of `modname` (or of a list of
    (modname, count) pairs) that carry rep.pid; fills rep; returns {obligation name: [failed atom queries]}"""
    all_obs = []
    if not rep.extra.get("euclid_lemma_proved"):
        if not D.selfcheck_lemmas():
            rep.errors.append("Euclid uniqueness lemma could not be re-proved")
        rep.extra["euclid_lemma_proved"] = True
    pairs = modname if isinstance(modname, list) else [(modname, n_contracts)]
    tasks = [(mn, i, rep.repo, rep.pid) for mn, cnt in pairs for i in range(cnt)]
    tasks.sort(key=lambda t: -COSTS.get((t[0], t[1]), 1))  # longest generation first (contracts may carry a relative `cost` hint): shorter makespan on the pool
    jobs_n = jobs or min(16, os.cpu_count() or 4)
    if len(tasks) == 1 or jobs_n == 1:
        gen = [generate_contract(t) for t in tasks]
    else:
        gen = list(D._pool(jobs_n).map(generate_contract, tasks))
    rep.extra["generation_wall_s"] = round(time.time() - rep.t0, 1)
    for g in gen:
        rep.functions.append({"function": f"{g['file']}:{g['qual']}", "contract": g["name"], "props": g["props"], "line": g.get("line", 0),
                              "obligation_instances": g.get("n_obligations", 0), "paths": g.get("n_paths", 0), "note": g["note"], "gen_s": g.get("gen_s", 0)})
        if g["error"]:
            rep.errors.append(f"{g['name']}: {g['error']}")
            continue
        if g["unsupported"]:
            rep.unsupported.append(f"{g['name']}: unsupported({g['unsupported']})")
            continue
        if not g.get("n_obligations"):
            rep.errors.append(f"{g['name']}: zero obligations generated")
        all_obs += g["queries"]
    t_solve = time.time()
    # the solve phase takes well under two minutes on the unchanged tree; the wall-clock budget only bounds the time spent when a change makes
    # many obligations fail at once (each would otherwise run every stage to its timeout): what is cut off is reported as undecided
    D.run_queries(all_obs, jobs=jobs, timeout_ms=timeout_ms, thorough=(rep.tier == "thorough"), seed=rep.seed, budget_s=(300 if rep.tier == "quick" else 1800))
    # second opinion for time-outs: an obligation query that ended `unknown` (every stage ran out of time, or the phase deadline cut it off)
    # says nothing about the code -- on a loaded machine it happens to queries that normally take 10..20 s.  Such queries are run once
    # more, after the pool has drained, with three times the per-query budget; only what is still undecided then is reported (as
    # undecided, never as a violation).  Not attempted when many queries are open at once (a change that breaks many obligations).
    again = [q for q in all_obs if getattr(q, "kind", "ob") == "ob" and q.verdict == "unknown"]
    if 0 < len(again) <= 48:
        first = {id(q): q.secs for q in again}
        led = load_ledger()
        for q in again:
            # only the stages that discharge this obligation on the unchanged tree (ledger): the question of the second pass is whether
            # they still do when given time, not whether some other stage might
            keep = set(led.get(q.ob_name, {}).get("stages", ()))
            if keep and any(nm in keep for nm, _ in q.stages):
                q.stages = [(nm, tx) for nm, tx in q.stages if nm in keep]
        D.run_queries(again, jobs=jobs, timeout_ms=3 * timeout_ms, thorough=(rep.tier == "thorough"), seed=rep.seed, budget_s=(400 if rep.tier == "quick" else 1800))
        for q in again:
            q.second_pass_s = q.secs
            q.secs += first[id(q)]
        rep.notes.append(f"{len(again)} atomic queries timed out in the first pass and were re-run alone with a {3 * timeout_ms // 1000} s budget: "
                         f"{sum(1 for q in again if q.verdict == 'unsat')} discharged, {sum(1 for q in again if q.verdict == 'sat')} refuted, {sum(1 for q in again if q.verdict == 'unknown')} still open")
    rep.extra["solve_wall_s"] = round(time.time() - t_solve, 1)
    rep.n_queries += len(all_obs)
    failed = {}
    canary_ok = {}
    presat = {}
    for q in all_obs:
        rep.solver_time += q.secs
        if q.verdict == "error":
            rep.errors.append(f"{q.ob_name}: solver error {q.detail}")
            continue
        if q.kind == "canary":
            canary_ok.setdefault(q.cname, False)
            if q.verdict != "unsat":
                canary_ok[q.cname] = True
            continue
        if q.kind == "presat":
            presat[q.cname] = q.verdict
            continue
        o = rep.obligations.setdefault(q.ob_name, {"verdict": "discharged", "atoms": 0, "ms": 0, "backends": set(), "line": q.line,
                                                   "props": q.props, "stages": set()})
        o["atoms"] += 1
        o["ms"] += int(q.secs * 1000)
        o["backends"].add(q.backend)
        o["stages"].add(q.stage)
        if q.verdict != "unsat":
            o["verdict"] = "undischarged"
            failed.setdefault(q.ob_name, []).append(q)
    failed_fns = {n.split("/")[0] for n in failed}
    for name, ok in canary_ok.items():
        # an invariant that is not preserved makes the loop exit infeasible: only a function whose obligations are all
        # discharged must also have a reachable return
        if not ok and name not in failed_fns:
            rep.canary_fail.append(f"{name}: every return path is infeasible (vacuous contract or engine defect)")
    for name, v in presat.items():
        if v == "unsat":
            rep.canary_fail.append(f"{name}: precondition is unsatisfiable (vacuous)")
    rep.extra["canaries_refuted"] = rep.extra.get("canaries_refuted", 0) + sum(1 for v in canary_ok.values() if v)
    rep.extra["vacuity_checks"] = rep.extra.get("vacuity_checks", 0) + len(canary_ok) + len(presat)
    return failed


def finish(rep: Report, level="proof", technique=""):
    """verdict, evidence file, exit code"""
    n_known = sum(1 for o in rep.obligations.values() if o["verdict"] == "known-finding")
    n_ob = len(rep.obligations) - n_known  # obligations matched by a listed known finding are reported separately
    n_dis = sum(1 for o in rep.obligations.values() if o["verdict"] == "discharged")
    rep.extra["known_finding_obligations"] = n_known
    code = 0
    if rep.errors:
        code = 3
    elif rep.violations:
        code = 1  # a replayed / ledger-backed violation outranks a vacuity warning (a function that can no longer return is often the defect itself)
    elif rep.canary_fail:
        code = 3
    elif rep.unsupported or rep.undischarged:
        code = 2
    if n_ob == 0 and not rep.bounded and level == "proof" and code == 0:
        rep.errors.append("zero obligations")
        code = 3
    try:  # report every alpha-renaming of locals performed by find_function on the functions under contract (pyvc/alpha.py)
        from . import alpha
        from .engine import find_function

        for fq in sorted({f["function"] for f in rep.functions}):
            file, _, qual = fq.partition(":")
            if file.endswith(".py") and qual and " " not in qual.split("(")[0].strip():
                try:
                    find_function(rep.repo, file, qual.split("(")[0].strip())
                except Exception:
                    pass
            elif file.endswith(".py") and qual:
                try:
                    find_function(rep.repo, file, qual.split()[0].strip(" ,("))
                except Exception:
                    pass
        for n in alpha.NOTES:
            if n not in rep.notes:
                rep.notes.append(n)
    except Exception:
        pass
    samples = rep.samples[:]
    for name, o in list(rep.obligations.items())[:6]:
        samples.append({"obligation": name, "verdict": o["verdict"], "atomic_queries": o["atoms"], "solver_ms": o["ms"], "source_line": o["line"]})
    cov = {
        "obligations": n_ob, "discharged": n_dis,
        "checker_cmd": f"./check {rep.pid} --tier {rep.tier}",
        "trusted_base": rep.trusted + rep.assumptions,
        "samples": samples or [{"note": "no obligations"}],
        "functions_under_contract": rep.functions,
        "distinct_functions_under_contract": sorted({f["function"] for f in rep.functions}),
        "atomic_queries": rep.n_queries, "solver_time_s": round(rep.solver_time, 2),
        "per_obligation": {k: {"verdict": v["verdict"], "atoms": v["atoms"], "ms": v["ms"], "backends": sorted(x for x in v["backends"] if x),
                               "stages": sorted(x for x in v["stages"] if x), "line": v["line"]} for k, v in rep.obligations.items()},
        "extraction_drops": EXTRACTION_DROPS,
        "undischarged": rep.undischarged, "unsupported": rep.unsupported, "errors": rep.errors + rep.canary_fail,
        "bounded": rep.bounded, "known_findings_matched": rep.known, "notes": rep.notes,
        "technique": technique,
    }
    cov.update(rep.extra)
    if level != "proof" or n_ob == 0:
        ev_n = sum(b.get("evaluations", 0) for b in rep.bounded)
        dn = sum(b.get("distinct_nontrivial", 0) for b in rep.bounded)
        cov["evaluations"] = max(ev_n, 1)
        cov["distinct_nontrivial"] = max(dn, 2) if dn >= 2 else dn
        cov["rule"] = "; ".join(b.get("rule", "") for b in rep.bounded) or "n/a"
    ev = {"property_id": rep.pid, "tier": rep.tier, "seed": rep.seed, "level": level, "coverage": cov,
          "assumptions": rep.assumptions + rep.trusted, "wall_s": round(time.time() - rep.t0, 2), "violations": len(rep.violations)}
    # evidence describes /repo; a run against a scratch tree (--repo, used for seeded changes) must not overwrite it
    ev_dir = os.path.join(VERIF, "evidence") if os.path.realpath(rep.repo) == os.path.realpath(os.environ.get("VERIF_REPO", "/repo")) else os.path.join(VERIF, "replays", "_scratch_evidence")
    os.makedirs(ev_dir, exist_ok=True)
    with open(os.path.join(ev_dir, f"{rep.pid}.json"), "w") as f:
        json.dump(ev, f, indent=1, default=str)
    print(f"[{rep.pid}] tier={rep.tier} contracts={len(rep.functions)} functions={len({f['function'] for f in rep.functions})} obligations={n_ob} discharged={n_dis} queries={rep.n_queries} "
          f"solver={rep.solver_time:.1f}s wall={time.time() - rep.t0:.1f}s bounded_blocks={len(rep.bounded)}")
    for k in rep.known:
        print(f"KNOWN-FINDING: property={rep.pid} {k}")
    for u in rep.unsupported:
        print("UNDECIDED", u)
    for u in rep.undischarged:
        print("UNDECIDED", u)
    for e in rep.errors + rep.canary_fail:
        print("CHECKER-ERROR", e)
    for path, text, noinput in rep.violations:
        print(f"VIOLATION property={rep.pid} replay={path}" + (" no-failing-input-found" if noinput else ""))
        if text:
            print("   ", text)
    return code


def class_state_obligations(rep: Report, ledger):
    """one frame obligation per class that owns a function under contract (sidecar contracts and fragment contracts alike): the class
    keeps no mutable container at class level that its instances mutate (pyvc/model.py: shared_class_state).  Syntactic, decided by
    inspection of the class body; generated for every class on every run, so it is in the ledger while it holds."""
    from .model import shared_class_state

    import ast

    files = []
    for f in list(rep.functions):
        file = f.get("function", "").partition(":")[0]
        if file.endswith(".py") and file not in files and os.path.exists(os.path.join(rep.repo, file)):
            files.append(file)
    if rep.pid == "C09":
        # the read-only property is stated for the whole package: module-level state can carry a caller's write mode from one call to the
        # next (e.g. keyword arguments remembered in a module dictionary), so every module is covered
        for d, _dirs, fs in os.walk(os.path.join(rep.repo, "dissect", "hypervisor")):
            for f_ in sorted(fs):
                rel = os.path.relpath(os.path.join(d, f_), rep.repo)
                if f_.endswith(".py") and rel not in files:
                    files.append(rel)
        files.sort()
    todo = []
    for file in files:  # every class of every file that has a function under contract: the classes of one parser cooperate
        try:
            tree = ast.parse(open(os.path.join(rep.repo, file)).read())
        except (OSError, SyntaxError):
            continue
        todo += [(file, n.name) for n in tree.body if isinstance(n, ast.ClassDef)]
    # one frame obligation per file that has a function under contract: no function of the module keeps state in a module-level
    # variable (subscript store / mutating method call / `global` rebinding: pyvc/model.py: module_state_mutations).  Such state is shared
    # by every object in the process -- a parent or table resolved for one image would be handed to another (C07, C08, C12).
    from .model import module_state_mutations

    for file in files:
        try:
            tree = ast.parse(open(os.path.join(rep.repo, file)).read())
        except (OSError, SyntaxError):
            continue
        muts = []
        for fn in [n for n in ast.walk(tree) if isinstance(n, (ast.FunctionDef, ast.AsyncFunctionDef))]:
            muts += [f"{fn.name}: {m_}" for m_ in module_state_mutations(rep.repo, file, fn)]
        name = f"{os.path.basename(file)[:-3]}:<module>/frame.no_function_keeps_state_in_module_variables"
        rep.obligations[name] = {"verdict": "discharged" if not muts else "undischarged", "atoms": 1, "ms": 0, "backends": {"set-inclusion"}, "stages": set(), "line": 0, "props": [rep.pid]}
        if muts:
            text = "module-level state mutated by a function (shared by every object in the process): " + "; ".join(sorted(set(muts))[:6])
            p = write_replay(rep.pid, name, {"property": rep.pid, "obligation": name, "verifier_output": text})
            rep.violations.append((p, f"{name}: {text}", True))
    for file, cls in todo:
        try:
            shared = shared_class_state(rep.repo, file, cls + ".x")
        except (OSError, SyntaxError):
            continue
        name = f"{os.path.basename(file)[:-3]}:{cls}/frame.no_mutable_state_shared_between_instances"
        rep.obligations[name] = {"verdict": "discharged" if not shared else "undischarged", "atoms": 1, "ms": 0, "backends": {"set-inclusion"}, "stages": set(), "line": 0, "props": [rep.pid]}
        if shared:
            text = "class-level mutable container mutated through instances and never rebound per instance: " + ", ".join(shared)
            p = write_replay(rep.pid, name, {"property": rep.pid, "obligation": name, "verifier_output": text})
            rep.violations.append((p, f"{name}: {text}", True))


def write_replay(pid, name, record):
    d = os.path.join(VERIF, "replays", pid)
    os.makedirs(d, exist_ok=True)
    safe = "".join(ch if ch.isalnum() or ch in "._-" else "_" for ch in name)[:120]
    p = os.path.join(d, safe + ".json")
    with open(p, "w") as f:
        json.dump(record, f, indent=1, default=str)
    return p


def triage(rep: Report, failed, replay_fn, ledger, known):
    """Refutation pipeline (DESIGN.md 4) for undischarged obligations.
    replay_fn(ob_name, queries) -> None | dict(found=True, record=..., text=..., finding_key=...)"""
    known_keys = {k["key"]: k for k in known.get("findings", []) if k.get("property") == rep.pid and k.get("status") == "known"}
    for name, qs in failed.items():
        cand = next((q for q in qs if q.verdict == "sat"), qs[0])
        solver_out = [{"atom": q.atom, "verdict": q.verdict, "stage": q.stage, "goal": q.goal_str, "path": q.path, "model": dict(list(q.model.items())[:60])} for q in qs[:6]]
        res = None
        if all(q.detail == "solve-phase deadline reached" for q in qs):
            # never examined (wall-clock budget of the solve phase, used up by other obligations that fail): nothing is known about this
            # obligation, so no failing input is attributed to it either -- the bounded block reports inputs under its own name
            rep.undischarged.append(f"{name} line {cand.line}: not examined, solve-phase deadline reached")
            continue
        if replay_fn is not None:
            try:
                res = replay_fn(name, qs)
            except Exception as e:  # noqa: BLE001
                rep.notes.append(f"replay harness error for {name}: {type(e).__name__}: {e}")
        if res and res.get("found"):
            key = res.get("finding_key", "")
            if key in known_keys:
                rep.known.append(f"{known_keys[key]['what']} [obligation {name}]")
                rep.obligations[name]["verdict"] = "known-finding"
                continue
            rec = {"property": rep.pid, "obligation": name, "source_line": cand.line, "solver_output": solver_out, **res.get("record", {})}
            p = write_replay(rep.pid, name, rec)
            rep.violations.append((p, res.get("text", ""), False))
            continue
        base = name
        cut_off = all(q.detail == "solve-phase deadline reached" for q in qs)
        timed_out = not cut_off and all(q.verdict == "unknown" for q in qs)
        led_e = ledger.get(base, {})
        spent = sum(getattr(q, "second_pass_s", 0.0) for q in qs)
        if timed_out and led_e.get("verdict") == "discharged" and led_e.get("stages") and spent >= max(30.0, 6 * led_e.get("ms", 0) / 1000.0):
            # the stages that discharge this obligation on the unchanged tree (ledger) were given three times the budget, alone, and at least
            # six times the time the whole obligation takes there, and still do not discharge it: reported as no longer discharged
            rec = {"property": rep.pid, "obligation": name, "source_line": cand.line, "solver_output": solver_out,
                   "note": f"discharged on the unchanged tree in {led_e.get('ms', 0)} ms by stages {led_e.get('stages')}; now those stages time out "
                           f"({spent:.0f} s in the second pass, alone, three times the budget); no counter-model and no failing input found"}
            p = write_replay(rep.pid, name, rec)
            rep.violations.append((p, f"obligation {name} (line {cand.line}) no longer discharged: time-out after {spent:.0f} s (unchanged tree: {led_e.get('ms', 0)} ms)", True))
        elif timed_out:
            # every failing atom is a time-out (also after the second pass) and the time spent is not far beyond what the obligation
            # needs on the unchanged tree: the solver gave no reason -- undecided, whatever the ledger says
            rep.undischarged.append(f"{name} line {cand.line}: solver time-out at stage {cand.stage} (no verdict)")
        elif cut_off:
            # never examined to the end (wall-clock budget of the solve phase): undecided, whatever the ledger says
            rep.undischarged.append(f"{name} line {cand.line}: not examined, solve-phase deadline reached")
        elif ledger.get(base, {}).get("verdict") == "discharged":
            rec = {"property": rep.pid, "obligation": name, "source_line": cand.line, "solver_output": solver_out,
                   "note": "obligation is discharged on the unchanged tree (ledger.json) and is not discharged now; no failing input was found by replay / small-scope search"}
            p = write_replay(rep.pid, name, rec)
            rep.violations.append((p, f"obligation {name} (line {cand.line}) no longer discharged: {cand.verdict} at stage {cand.stage}", True))
        else:
            rep.undischarged.append(f"{name} line {cand.line}: {cand.verdict} at stage {cand.stage}; goal {cand.goal_str[:160]}")
