"""Format-model base class and the function-contract harness.

A *format model* gives symbolic meaning to the objects a function under contract touches.  Fields are declared in
`self.fields` ("self.header.block_size" -> V or callable), callee contracts in `self.methods`
(("self.bat", "get") -> handler(eng, st, args, node) -> V), subscripting in `self.items`, files in `self.files`.
Anything not declared raises Unsupported, so a function that starts touching something the contract does not know
about becomes *undecided* (exit 2) rather than silently passing.
"""
from __future__ import annotations

import ast
from dataclasses import dataclass, field

import z3

from .engine import (B, I, BoolV, BytesV, Engine, FileV, IntV, NoneV, ObjV, Obligation, OptV, State, TupleV,
                     Unsupported, find_function, fresh)


class Model:
    def __init__(self):
        self.fields = {}
        self.methods = {}
        self.items = {}
        self.lens = {}
        self.iters = {}
        self.globals = {}
        self.global_calls = {}
        self.files = {}
        self.truthy = {}  # path -> z3 bool (object is truthy / not None)
        self.stores_allowed = set()  # attribute stores allowed outside __init__ (frame)

    # -- declaration helpers
    def int_field(self, path, lo=None, hi=None, hyps=None):
        c = z3.Int(path)
        self.fields[path] = IntV(c)
        if hyps is not None:
            if lo is not None:
                hyps.append(c >= lo)
            if hi is not None:
                hyps.append(c <= hi)
        return c

    def obj_field(self, path):
        self.fields[path] = ObjV(path)

    def file_field(self, path, name=None):
        name = name or path
        self.fields[path] = FileV(name)
        if name not in self.files:
            self.files[name] = (z3.Int(f"size({name})"), z3.Array(f"data({name})", I, I))
        return self.files[name]

    # -- engine interface
    def global_(self, name):
        if name in self.globals:
            return self.globals[name]
        # integer / bytes constants defined at module level are read from the real module of the repository under check
        modname = getattr(self, "pymodule", None)
        if modname:
            import importlib

            v = getattr(importlib.import_module(modname), name, None)
            if isinstance(v, bool):
                return None
            if isinstance(v, int):
                return IntV(z3.IntVal(v))
        return None

    def attr(self, eng, st, path, name, node):
        key = f"{path}.{name}"
        if key in self.fields:
            v = self.fields[key]
            return v(eng, st, node) if callable(v) else v
        raise Unsupported(f"attribute {key} is not part of the contract's model@{getattr(node, 'lineno', 0)}")

    def is_method(self, path, name):
        return (path, name) in self.methods

    def call(self, eng, st, path, name, args, node, **kwargs):
        h = self.methods.get((path, name))
        if h is None:
            raise Unsupported(f"call {path}.{name}() has no contract@{node.lineno}")
        return h(eng, st, args, node, **kwargs) if kwargs else h(eng, st, args, node)

    def call_global(self, eng, st, name, args, node, **kwargs):
        h = self.global_calls.get(name)
        if h is None:
            raise Unsupported(f"call {name}() has no contract@{node.lineno}")
        return h(eng, st, args, node, **kwargs) if kwargs else h(eng, st, args, node)

    def getitem(self, eng, st, path, idx, node):
        h = self.items.get(path)
        if h is None:
            raise Unsupported(f"subscript {path}[..] has no contract@{node.lineno}")
        return h(eng, st, idx, node)

    def setitem(self, eng, st, path, idx, v, node):
        h = getattr(self, "setitems", {}).get(path)
        if h is None:
            raise Unsupported(f"subscript store {path}[..] = .. has no contract@{node.lineno}")
        return h(eng, st, idx, v, node)

    def len_(self, eng, st, path, node):
        h = self.lens.get(path)
        if h is None:
            raise Unsupported(f"len({path}) has no contract@{node.lineno}")
        return h(eng, st, node) if callable(h) else h

    def iter_(self, eng, st, path, node):
        h = self.iters.get(path)
        if h is None:
            raise Unsupported(f"iteration over {path} has no contract@{node.lineno}")
        return h(eng, st, node)

    def file(self, name):
        if name not in self.files:
            raise Unsupported(f"file {name} not declared")
        size, arr = self.files[name]
        if callable(arr):
            return size, arr
        return size, (lambda i, arr=arr: z3.Select(arr, i))

    def obj_truthy(self, path):
        if path in self.truthy:
            return self.truthy[path]
        raise Unsupported(f"truthiness of object {path}")

    def obj_not_none(self, path):
        return self.obj_truthy(path)

    def obj_eq(self, a, b):
        if a == b:
            return z3.BoolVal(True)
        raise Unsupported(f"== between objects {a}, {b}")

    def on_attr_store(self, eng, st, path, name, v, node):
        if eng.fn_node.name == "__init__" or f"{path}.{name}" in self.stores_allowed:
            return
        # frame condition (C08 history independence): no attribute is assigned outside __init__
        eng.ob("frame.no_attribute_store", st, z3.BoolVal(False), node, tag=f"{path}.{name}")


@dataclass
class FnContract:
    file: str
    qual: str
    props: list
    model: object  # callable() -> Model (fresh per run) or Model
    params: object  # (model) -> dict name -> V
    requires: object  # (model) -> list of z3 bools
    post: object = None  # (eng, st, retval) -> z3 goal | list of (tag, goal)
    raises: dict = field(default_factory=dict)  # exc name -> (eng, st) -> z3 condition (exceptional postcondition)
    loops: dict = field(default_factory=dict)  # ("While"|"For", ordinal) -> LoopSpec
    on_yield: object = None
    on_append: object = None
    ghost: object = None  # (model) -> dict initial ghost state
    ghost_asserts: dict = field(default_factory=dict)
    shifts: str = r"^$"  # regex over constant names used as instantiation shifts
    last_terms: object = r"^$"  # regex over constant names c: the term c - 1 ("last element") is added to the instantiation terms
    units: tuple = ()  # unit sizes (e.g. sector size): byte-index skolems are also instantiated at their unit quotient
    case: str = ""
    allow_any_exception: bool = False
    mode: str = ""  # free-form label ("functional" / "termination")
    note: str = ""

    @property
    def name(self):
        mod = self.file.rsplit("/", 1)[-1][:-3]
        return f"{mod}:{self.qual}" + (f"@{self.case}" if self.case else "") + (f"~{self.mode}" if self.mode else "")


@dataclass
class FnResult:
    contract: FnContract
    obligations: list
    canaries: list
    unsupported: str = ""
    source_line: int = 0
    n_paths: int = 0
    pre_hyps: list = field(default_factory=list)


MUTATORS = {"update", "append", "extend", "insert", "setdefault", "pop", "popitem", "clear", "add", "remove", "discard", "sort", "reverse", "__setitem__", "__delitem__"}


def shared_class_state(repo, relpath, qual):
    """class-level attributes of the class that owns `qual` which hold a mutable container (display, dict()/list()/set()/bytearray()/
    defaultdict()/...) and are mutated through an instance (self.<name>[..] = / del / augmented store / mutating method) in some method
    of the class although no method rebinds self.<name>: one object shared by every instance, so what one parser object returns depends
    on which other objects were used before (C08), and metadata of one image leaks into another (C14, C17)"""
    import os

    parts = qual.split(".")
    if len(parts) < 2:
        return []
    tree = ast.parse(open(os.path.join(repo, relpath)).read())
    body, cls = tree.body, None
    for p_ in parts[:-1]:
        cls = next((n for n in body if isinstance(n, ast.ClassDef) and n.name == p_), None)
        if cls is None:
            return []
        body = cls.body
    mutable = {}
    for n in cls.body:
        tg = n.targets if isinstance(n, ast.Assign) else ([n.target] if isinstance(n, ast.AnnAssign) and n.value is not None else [])
        v = getattr(n, "value", None)
        fresh = isinstance(v, (ast.Dict, ast.List, ast.Set, ast.ListComp, ast.DictComp, ast.SetComp)) or (
            isinstance(v, ast.Call) and ast.unparse(v.func).split(".")[-1] in ("dict", "list", "set", "bytearray", "defaultdict", "OrderedDict", "deque", "Counter"))
        for t in tg:
            if isinstance(t, ast.Name) and fresh:
                mutable[t.id] = n.lineno
    if not mutable:
        return []
    rebound, mutated = set(), {}
    for n in ast.walk(cls):
        tg = n.targets if isinstance(n, (ast.Assign, ast.Delete)) else ([n.target] if isinstance(n, (ast.AugAssign, ast.AnnAssign)) else [])
        for t in tg:
            if isinstance(t, ast.Attribute) and isinstance(t.value, ast.Name) and t.value.id == "self" and isinstance(n, (ast.Assign, ast.AnnAssign)):
                rebound.add(t.attr)
            for y in ast.walk(t):
                if isinstance(y, ast.Subscript) and isinstance(y.ctx, (ast.Store, ast.Del)):
                    b_ = y.value
                    while isinstance(b_, ast.Subscript):
                        b_ = b_.value
                    if isinstance(b_, ast.Attribute) and isinstance(b_.value, ast.Name) and b_.value.id in ("self", "cls", cls.name) and b_.attr in mutable:
                        mutated.setdefault(b_.attr, n.lineno)
            if isinstance(n, ast.AugAssign) and isinstance(t, ast.Attribute) and isinstance(t.value, ast.Name) and t.value.id in ("self", "cls") and t.attr in mutable:
                mutated.setdefault(t.attr, n.lineno)
        if isinstance(n, ast.Call) and isinstance(n.func, ast.Attribute) and n.func.attr in MUTATORS:
            b_ = n.func.value
            while isinstance(b_, ast.Subscript):
                b_ = b_.value
            if isinstance(b_, ast.Attribute) and isinstance(b_.value, ast.Name) and b_.value.id in ("self", "cls", cls.name) and b_.attr in mutable:
                mutated.setdefault(b_.attr, n.lineno)
    return [f"{cls.name}.{a}@{ln}" for a, ln in sorted(mutated.items()) if a not in rebound]


def module_state_mutations(repo, relpath, fn_node):
    """names bound at module level that the function mutates (subscript store/delete, mutating method call, `global` rebinding):
    such a function keeps state between calls, so its result may depend on the call history"""
    import os

    tree = ast.parse(open(os.path.join(repo, relpath)).read())
    module_names = set()
    for n in tree.body:
        tg = n.targets if isinstance(n, ast.Assign) else ([n.target] if isinstance(n, (ast.AnnAssign, ast.AugAssign)) else [])
        for t in tg:
            for x in ast.walk(t):
                if isinstance(x, ast.Name):
                    module_names.add(x.id)
    local = {a.arg for a in fn_node.args.args + fn_node.args.kwonlyargs + fn_node.args.posonlyargs}
    globals_declared = set()
    for n in ast.walk(fn_node):
        if isinstance(n, ast.Global):
            globals_declared |= set(n.names)
    for n in ast.walk(fn_node):
        tg = n.targets if isinstance(n, ast.Assign) else ([n.target] if isinstance(n, (ast.AnnAssign, ast.AugAssign, ast.For)) else [])
        for t in tg:
            for x in ([t] if isinstance(t, ast.Name) else [e for e in ast.walk(t) if isinstance(e, ast.Name) and isinstance(e.ctx, ast.Store)]):
                if isinstance(x, ast.Name) and x.id not in globals_declared:
                    local.add(x.id)
    shared = (module_names - local) | globals_declared
    out = []
    for n in ast.walk(fn_node):
        if isinstance(n, (ast.Assign, ast.AugAssign, ast.AnnAssign, ast.Delete)):
            tg = n.targets if isinstance(n, (ast.Assign, ast.Delete)) else [n.target]
            for t in tg:
                if isinstance(t, ast.Subscript) and isinstance(t.value, ast.Name) and t.value.id in shared:
                    out.append(f"{t.value.id}[...] {'deleted' if isinstance(n, ast.Delete) else 'assigned'}@{n.lineno}")
                if isinstance(t, ast.Name) and t.id in globals_declared:
                    out.append(f"global {t.id} rebound@{n.lineno}")
                if isinstance(t, ast.Attribute) and isinstance(t.value, ast.Name) and t.value.id in shared and not t.value.id[:1].isupper():
                    out.append(f"{t.value.id}.{t.attr} assigned@{n.lineno}")
        if isinstance(n, ast.Call) and isinstance(n.func, ast.Attribute) and n.func.attr in MUTATORS and isinstance(n.func.value, ast.Name) and n.func.value.id in shared:
            out.append(f"{n.func.value.id}.{n.func.attr}(...)@{n.lineno}")
    return out


def run_contract(repo, c: FnContract) -> FnResult:
    """Symbolically execute the real function against its contract; returns the obligations (not yet discharged)."""
    try:
        node, _src = find_function(getattr(c, "repo_root", None) or repo, c.file, c.qual)
    except Unsupported as e:
        return FnResult(c, [], [], unsupported=str(e))
    m = c.model() if callable(c.model) else c.model
    allow = "*" if c.allow_any_exception else tuple(c.raises)
    eng = Engine(m, c.name, node, loops=c.loops, allow_exc=allow, on_yield=c.on_yield, on_append=c.on_append,
                 ghost_asserts=c.ghost_asserts)
    eng.contract = c
    pre = list(c.requires(m))
    st = State(env=dict(c.params(m)), hyps=list(pre), filepos={}, ghost=dict(c.ghost(m)) if c.ghost else {})
    if getattr(c, "init_attrs", None):
        st.attrs.update(c.init_attrs(m))
    st.ghost.setdefault("io", z3.IntVal(0))
    st.ghost.setdefault("io_calls", z3.IntVal(0))
    canaries = []
    try:
        # the contract is verified for the undecorated body: a caching decorator makes the result depend on the call history
        # (C08) and hands out shared stateful objects; any other wrapper is outside the contract language (undecided)
        allowed = {"property", "classmethod", "staticmethod"} | set(getattr(c, "allowed_decorators", ()))
        for d in getattr(node, "decorator_list", []):
            dname = ast.unparse(d).split("(")[0].split(".")[-1]
            if dname in allowed:
                continue
            if dname in ("lru_cache", "cache", "cached_property", "memoize", "memoized"):
                eng.ob("frame.no_caching_decorator", st, z3.BoolVal(False), node, tag=dname)
            else:
                raise Unsupported(f"decorator @{ast.unparse(d)[:40]} on {c.qual} is outside the contract language")
        for mut in module_state_mutations(getattr(c, "repo_root", None) or repo, c.file, node):
            eng.ob("frame.no_module_state_mutation", st, z3.BoolVal(False), node, tag=mut.split("@")[0])
        outs = eng.run(node.body, st)
        n_ret = 0
        for e, out in outs:
            if out is None or (isinstance(out, tuple) and out[0] == "return"):
                rv = out[1] if out else NoneV()
                n_ret += 1
                if c.post is not None:
                    if isinstance(rv, (BytesV,)) or type(rv).__name__ == "ListV":
                        e.ghost["$rv"] = rv
                    goals = c.post(eng, e, rv)
                    if not isinstance(goals, list):
                        goals = [("", goals)]
                    for tag, g in goals:
                        eng.ob("post", e, g, node, tag=tag)
                canaries.append(Obligation(f"{c.name}/canary.return", list(e.hyps), z3.BoolVal(False), node.lineno, path="".join(e.trace), kind="canary"))
            elif isinstance(out, tuple) and out[0] == "raise":
                exc = out[1]
                if c.allow_any_exception:
                    continue
                from .engine import EXC_BASES

                exc_key = exc if exc in c.raises else next((b_ for b_ in EXC_BASES.get(exc, ()) if b_ in c.raises), None)
                if exc_key is not None:
                    cond = c.raises[exc_key]
                    if cond is not None:
                        eng.ob(f"xpost.{exc}", e, cond(eng, e), node, tag="")
                else:
                    eng.ob(f"noraise.{exc}", e, z3.BoolVal(False), node, tag="explicit")
            else:
                raise Unsupported(f"outcome {out!r} escapes the function")
        if getattr(c, "expect_no_return", False) and n_ret == 0:
            # `no normal return` holds syntactically on every explored path: recorded as one (trivially discharged) obligation
            eng.ob("post", st, z3.BoolVal(True), node, tag="no_normal_return_on_any_path")
    except Unsupported as e:
        return FnResult(c, eng.obligations, canaries, unsupported=str(e), source_line=node.lineno)
    except (AttributeError, TypeError, KeyError, AssertionError, ValueError, IndexError) as e:  # engine limits, never a verdict
        import traceback

        return FnResult(c, eng.obligations, canaries, unsupported=f"engine error: {type(e).__name__}: {e} :: {traceback.format_exc().splitlines()[-3:]}", source_line=node.lineno)
    return FnResult(c, eng.obligations, canaries, source_line=node.lineno, n_paths=len(outs), pre_hyps=pre)
