"""Translation of a Python `re` pattern (the fragment used by the repository's grammars) into a z3 regular expression, for
language-inclusion obligations  L(spec) ⊆ L(impl)  (DESIGN.md 7/C10, A.3).

Supported: literals, `.`, character classes incl. \\s \\d \\S \\w and negation, alternation, (named / capturing / non-capturing)
groups, `? * + {m,n}` (greedy or lazy: same language), `^`/`$` at the ends.  Anything else raises Unsupported."""
from __future__ import annotations

import re

try:
    import re._parser as sre_parse  # py3.11+
    import re._constants as sre_c
except ImportError:  # pragma: no cover
    import sre_constants as sre_c
    import sre_parse

import z3

from .engine import Unsupported

WS = " \t\n\r\x0b\x0c"


def _ch(c):
    return z3.Re(z3.StringVal(chr(c) if isinstance(c, int) else c))


def _range(lo, hi):
    return z3.Range(z3.StringVal(chr(lo)), z3.StringVal(chr(hi)))


# the alphabet is bounded to the Basic Multilingual Plane below the surrogates + a few astral samples are covered by `.`-free classes only
ANYCHAR = z3.AllChar(z3.ReSort(z3.StringSort()))


def _category(cat):
    if cat == sre_c.CATEGORY_DIGIT:
        return _range(48, 57)
    if cat == sre_c.CATEGORY_SPACE:
        return z3.Union(*[_ch(c) for c in WS])
    if cat == sre_c.CATEGORY_WORD:
        return z3.Union(_range(48, 57), _range(65, 90), _range(97, 122), _ch("_"))
    if cat == sre_c.CATEGORY_NOT_SPACE:
        return z3.Intersect(ANYCHAR, z3.Complement(z3.Union(*[_ch(c) for c in WS])))
    if cat == sre_c.CATEGORY_NOT_DIGIT:
        return z3.Intersect(ANYCHAR, z3.Complement(_range(48, 57)))
    raise Unsupported(f"regex category {cat}")


def _items(seq):
    parts = []
    for op, av in seq:
        parts.append(_node(op, av))
    if not parts:
        return z3.Re(z3.StringVal(""))
    return parts[0] if len(parts) == 1 else z3.Concat(*parts)


def _node(op, av):
    if op == sre_c.LITERAL:
        return _ch(av)
    if op == sre_c.NOT_LITERAL:
        return z3.Intersect(ANYCHAR, z3.Complement(_ch(av)))
    if op == sre_c.ANY:
        return z3.Intersect(ANYCHAR, z3.Complement(_ch("\n")))
    if op == sre_c.IN:
        neg = False
        alts = []
        for o2, a2 in av:
            if o2 == sre_c.NEGATE:
                neg = True
            elif o2 == sre_c.LITERAL:
                alts.append(_ch(a2))
            elif o2 == sre_c.RANGE:
                alts.append(_range(a2[0], a2[1]))
            elif o2 == sre_c.CATEGORY:
                alts.append(_category(a2))
            else:
                raise Unsupported(f"regex class item {o2}")
        u = alts[0] if len(alts) == 1 else z3.Union(*alts)
        return z3.Intersect(ANYCHAR, z3.Complement(u)) if neg else u
    if op == sre_c.BRANCH:
        alts = [_items(b) for b in av[1]]
        return alts[0] if len(alts) == 1 else z3.Union(*alts)
    if op == sre_c.SUBPATTERN:
        return _items(av[3])
    if op in (sre_c.MAX_REPEAT, sre_c.MIN_REPEAT):
        lo, hi, sub = av
        r = _items(sub)
        if hi == sre_c.MAXREPEAT:
            if lo == 0:
                return z3.Star(r)
            if lo == 1:
                return z3.Plus(r)
            return z3.Concat(*([r] * lo), z3.Star(r))
        if lo == 0 and hi == 1:
            return z3.Option(r)
        return z3.Loop(r, lo, hi)
    if op == sre_c.AT:
        if av in (sre_c.AT_BEGINNING, sre_c.AT_END, sre_c.AT_BEGINNING_STRING, sre_c.AT_END_STRING):
            return z3.Re(z3.StringVal(""))
        raise Unsupported(f"regex anchor {av}")
    raise Unsupported(f"regex op {op}")


def lazy_quantifiers(pattern: str, flags: int = 0):
    """lazy (minimal) quantifiers of the pattern, as text positions are not kept by the parser: a list of their (lo, hi) bounds.  The
    language of a pattern does not depend on greedy vs lazy, what its groups capture does: with greedy quantifiers only, a group takes
    the longest text that still lets the rest match (the reading the extent grammar specifies for the quoted file name)."""
    out = []

    def walk(seq):
        for op, av in seq:
            if op == sre_c.MIN_REPEAT:
                out.append((av[0], "inf" if av[1] == sre_c.MAXREPEAT else av[1]))
                walk(av[2])
            elif op == sre_c.MAX_REPEAT:
                walk(av[2])
            elif op == sre_c.SUBPATTERN:
                walk(av[3])
            elif op == sre_c.BRANCH:
                for b_ in av[1]:
                    walk(b_)

    walk(sre_parse.parse(pattern, flags))
    return out


def to_z3(pattern: str, flags: int = 0):
    """z3 regex for the *full-match* language of an anchored pattern (^...$); raises Unsupported for an unanchored one"""
    tree = sre_parse.parse(pattern, flags)
    data = list(tree)
    if not data or data[0] != (sre_c.AT, sre_c.AT_BEGINNING) or data[-1] != (sre_c.AT, sre_c.AT_END):
        raise Unsupported("pattern is not anchored with ^ and $")
    return _items(data)


def inclusion(spec_re, impl_re, timeout_ms=20000):
    """L(spec) ⊆ L(impl)?  returns ('unsat', None) when included, ('sat', witness) with a word in L(spec) \\ L(impl)"""
    s = z3.Solver()
    s.set(timeout=timeout_ms)
    w = z3.String("w")
    s.add(z3.InRe(w, spec_re), z3.Not(z3.InRe(w, impl_re)))
    r = s.check()
    if r == z3.sat:
        return "sat", s.model()[w].as_string()
    return str(r), None
