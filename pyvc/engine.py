"""pyvc engine: forward symbolic execution of *real* repository functions (read from the repository's
source files with `ast` on every run) into verification conditions for z3/cvc5.

Nothing here knows about a particular format.  A *format model* (contracts/*.py) supplies
  - the symbolic fields of the objects a function touches (`attr`),
  - callee contracts (`call`) -- callee bodies are never inlined,
  - loop invariants / variants (`loops`), ghost-state hooks (`on_yield`, `on_append`).

Encoding of Python (see DESIGN.md 2.2): ints are mathematical integers; `//`, `%`, `divmod`, `>>`, `&` with a
constant are expressed through Euclid witnesses (never raw div/mod); bytes are (length, index -> value) views;
file handles have a ghost position and short reads at EOF; every operation that can raise emits an obligation.
A construct outside the subset raises Unsupported -> the function is reported *undecided*, never passed.
"""
from __future__ import annotations

import ast
import itertools
from dataclasses import dataclass, field

import z3

I = z3.IntSort()
B = z3.BoolSort()
BIT = z3.Function("bit", I, I, I)  # bit(v, j) = (v >> j) & 1 for v >= 0, j >= 0 (see Engine._bit_extract)
_ctr = itertools.count()


def fresh(name, sort=I):
    return z3.Const(f"{name}!{next(_ctr)}", sort)


EUCLID = []  # (x, d, q, r): every Euclid witness pair created in this run (engine side and spec side)


def reset_names():
    global _ctr
    _ctr = itertools.count()
    del EUCLID[:]
    _EDIV.clear()


_EDIV = {}


def ediv(x, d):
    """spec-side Euclid witnesses: (q, r, fact) with x == q*d + r, 0 <= r < d; valid for d > 0 (caller's context)"""
    x = z3.simplify(x) if not z3.is_int_value(x) else x
    key = (x.get_id(), d.get_id())
    if key not in _EDIV:
        for (x1, d1, q1, r1) in EUCLID:  # same dividend and divisor terms as a pair the code created: share the witnesses
            if x1.eq(x) and d1.eq(d):
                _EDIV[key] = (q1, r1, x1, d1)
                break
    if key not in _EDIV:
        q, r = fresh("sq"), fresh("sr")
        _EDIV[key] = (q, r, x, d)
        EUCLID.append((x, d, q, r))
    q, r, x0, d0 = _EDIV[key]
    return q, r, z3.And(x0 == q * d0 + r, 0 <= r, r < d0)


class Unsupported(Exception):
    pass


# ------------------------------------------------------------------------------------------------ values
class V:
    pass


@dataclass
class IntV(V):
    e: z3.ExprRef
    bits: tuple = None  # (lo, hi): value is a multiple of 2^lo and < 2^hi (tracked through constant masks/shifts; lets `a | b` of disjoint fields be a + b)
    bl: tuple = None  # bit list (LSB first) of 0/1-valued z3 integers with e == sum(bl[i] * 2^i): lets & | >> << between symbolic operands be exact


def bitlist_value(bl):
    """the non-negative integer denoted by a bit list, as a (simplified) linear term"""
    terms = [b_ * (1 << i) for i, b_ in enumerate(bl) if not (z3.is_int_value(b_) and b_.as_long() == 0)]
    return z3.simplify(z3.Sum(terms)) if terms else z3.IntVal(0)


def const_bitlist(v, width):
    return tuple(z3.IntVal((v >> i) & 1) for i in range(width))


def bitlist_int(name, width):
    """(IntV with a fresh bit list, range facts for the bits)"""
    bl = tuple(z3.Int(f"{name}.bit{i}") for i in range(width))
    return IntV(bitlist_value(bl), (0, width), bl), [z3.And(b_ >= 0, b_ <= 1) for b_ in bl]


@dataclass
class BoolV(V):
    e: z3.ExprRef


@dataclass
class NoneV(V):
    pass


@dataclass
class OptV(V):  # Optional[<shape>]
    is_none: z3.ExprRef
    val: V


@dataclass
class BytesV(V):
    n: z3.ExprRef  # length (>= 0)
    at: object  # callable: z3 int -> z3 int (byte value)
    bounds: tuple = ()  # offsets at which concatenated segments start (instantiation anchors: "segment lengths in play", R8)


@dataclass
class ListV(V):  # list used as byte accumulator (append + b"".join) -> the joined bytes
    joined: BytesV
    kind: str = "bytes"  # "bytes" | "events" (append is a ghost event, see on_append)


@dataclass
class TupleV(V):
    items: list


@dataclass
class ObjV(V):  # object with symbolic fields supplied by the model, addressed by path
    path: str


@dataclass
class FileV(V):
    name: str


@dataclass
class BoundMethod(V):
    recv: V
    name: str


@dataclass
class FuncRef(V):
    name: str


@dataclass
class SeqV(V):
    """Abstract finite sequence produced by a function under contract (generator / list of runs).
    elem(): fresh symbolic element; ok(elem, plen): per-element contract; size(elem): advance of the ghost
    position; total: ghost position after the last element."""
    elem: object
    ok: object
    size: object
    total: z3.ExprRef
    tag: str = "seq"


@dataclass
class StrV(V):  # only constants
    s: str


@dataclass
class SetListV(V):
    """list of integers used as a *visited set* (append, `in`, len): membership array + element count.
    (order is not tracked; a function that indexes or iterates such a list is Unsupported)"""
    mem: z3.ExprRef  # Array Int Bool
    n: z3.ExprRef


@dataclass
class OpaqueV(V):
    """a value whose content the contract does not care about (decoded strings, parsed XML ...): any attribute / call on it is
    again opaque.  Branching on it explores both outcomes; its truth value is one (memoised) unknown Boolean."""
    tag: str = "opaque"
    truth: object = None
    memo: dict = field(default_factory=dict)  # (relation, constant) -> Bool: the same question about the same value gets the same answer


@dataclass
class LambdaV(V):  # a lambda expression, only ever handed to an extern contract that inspects its source
    node: object


def _ite_chain(i, vals):
    """vals[i] for a short list of expressions (value of the last element beyond the end)"""
    e = vals[-1]
    for k in range(len(vals) - 2, -1, -1):
        e = z3.If(i == k, vals[k], e)
    return e


def describe(v):
    """short, deterministic description of a value for the tag of an unknown (opaque) call result"""
    if isinstance(v, StrV):
        return repr(v.s)
    if isinstance(v, OpaqueV):
        return v.tag
    if isinstance(v, IntV):
        e = z3.simplify(v.e)
        return str(e.as_long()) if z3.is_int_value(e) else "<int>"
    if isinstance(v, BoolV):
        e = z3.simplify(v.e)
        return "True" if z3.is_true(e) else ("False" if z3.is_false(e) else "<bool>")
    if isinstance(v, NoneV):
        return "None"
    if isinstance(v, ObjV):
        return v.path
    if isinstance(v, BytesV):
        n = z3.simplify(v.n)
        if z3.is_int_value(n) and n.as_long() <= 32:
            vals = [z3.simplify(v.at(z3.IntVal(i))) for i in range(n.as_long())]
            if all(z3.is_int_value(x) for x in vals):
                return repr(bytes(x.as_long() for x in vals))
        return "<bytes>"
    return f"<{type(v).__name__}>"


def _select_indices(e, out=None, seen=None):
    """index arguments of every array select inside e"""
    out = [] if out is None else out
    seen = set() if seen is None else seen
    if e.get_id() in seen:
        return out
    seen.add(e.get_id())
    if z3.is_select(e) and e.arg(1).sort() == I and not z3.is_int_value(e.arg(1)):
        out.append(e.arg(1))
    for c in e.children():
        _select_indices(c, out, seen)
    return out


def const_bytes(data: bytes) -> BytesV:
    def at(i, data=data):
        e = z3.IntVal(0)
        for idx in range(len(data) - 1, -1, -1):
            e = z3.If(i == idx, z3.IntVal(data[idx]), e)
        return e

    return BytesV(z3.IntVal(len(data)), at)


def zeros(n) -> BytesV:
    return BytesV(z3.If(n < 0, z3.IntVal(0), n), lambda i: z3.IntVal(0))


def concat(x: BytesV, y: BytesV) -> BytesV:
    bounds = tuple(x.bounds) + ((x.n,) if not (z3.is_int_value(x.n) and x.n.as_long() == 0) else ()) + tuple(x.n + b for b in y.bounds)
    return BytesV(x.n + y.n, lambda i, x=x, y=y: z3.If(i < x.n, x.at(i), y.at(i - x.n)), bounds[-6:])


EMPTY = BytesV(z3.IntVal(0), lambda i: z3.IntVal(0))


def fresh_bytes(name) -> BytesV:
    n = fresh(name + "_len")
    arr = fresh(name + "_arr", z3.ArraySort(I, I))
    return BytesV(n, lambda i, arr=arr: z3.Select(arr, i))


def zmin(a, b):
    return z3.If(a < b, a, b)


def zmax(a, b):
    return z3.If(a > b, a, b)


# ------------------------------------------------------------------------------------------------ state
@dataclass
class State:
    env: dict
    hyps: list
    filepos: dict
    ghost: dict = field(default_factory=dict)
    attrs: dict = field(default_factory=dict)  # attribute stores performed by the function: "self.x" -> V
    trace: list = field(default_factory=list)  # branch decisions (for path naming)
    anchors: list = field(default_factory=list)  # instantiation anchors (expressions) supplied by contract code
    anchor_owner: str = ""  # loop whose invariant supplied the anchors (anchors are scoped to the innermost loop)

    def fork(self):
        return State(dict(self.env), list(self.hyps), dict(self.filepos), dict(self.ghost), dict(self.attrs), list(self.trace), list(self.anchors), self.anchor_owner)

    def anchor(self, *exprs, cls="unit"):
        """instantiation anchors: unit (sector) positions by default, cls="byte" for byte positions"""
        for e in exprs:
            if not any(e.eq(a) and c == cls for a, c in self.anchors):
                self.anchors.append((e, cls))


@dataclass
class Obligation:
    name: str
    hyps: list
    goal: z3.ExprRef
    line: int
    path: str = ""
    kind: str = ""
    probes: dict = field(default_factory=dict)
    anchors: list = field(default_factory=list)


@dataclass
class LoopSpec:
    inv: object  # (eng, st) -> z3 bool
    variant: object = None  # (eng, st) -> z3 int ; None for for-loops over finite sequences
    shapes: dict = field(default_factory=dict)  # var -> 'optint' | 'int' | 'bytes' | 'bool'
    ghost_havoc: dict = field(default_factory=dict)  # ghost name -> 'int' | 'bytes'
    unroll: int = 0  # >0: unroll this many iterations instead of cutting (bounded by a constant in the code)
    ghost_step: object = None  # (eng, st) executed at the end of each iteration (ghost updates)


# ------------------------------------------------------------------------------------------------ engine
class Engine:
    def __init__(self, model, fn_name, fn_node, loops=None, allow_exc=(), on_yield=None, on_append=None,
                 ghost_asserts=None):
        self.model = model
        self.fn = fn_name
        self.fn_node = fn_node
        self.loops = loops or {}
        self.allow_exc = allow_exc  # iterable of exception names that may escape, or "*"
        self.on_yield = on_yield
        self.on_append = on_append
        self.ghost_asserts = ghost_asserts or {}  # statement ordinal -> callable(eng, st) -> z3 fact (proved, then assumed)
        self.obligations: list[Obligation] = []
        self.euclid_cache = {}
        self.raised = []  # (state, excname, node)
        self.opaque_calls = {}
        self._ord = {}
        self._number_nodes()

    # ---- stable ordinals: position among nodes of the same class in source order (not line numbers)
    def _number_nodes(self):
        counters = {}
        for n in ast.walk(self.fn_node):
            k = type(n).__name__
            if k in ("Call", "BinOp", "Subscript", "While", "For", "Raise", "Assert", "Yield", "Compare", "AugAssign", "Return"):
                i = counters.get(k, 0)
                counters[k] = i + 1
                self._ord[id(n)] = i
        self._stmt_ord = {}
        c = 0
        for n in ast.walk(self.fn_node):
            if isinstance(n, ast.stmt):
                self._stmt_ord[id(n)] = c
                c += 1

    def ordinal(self, node):
        return self._ord.get(id(node), 0)

    def allows(self, exc):
        return self.allow_exc == "*" or exc in self.allow_exc or any(b_ in self.allow_exc for b_ in EXC_BASES.get(exc, ()))

    # ---- obligations
    def ob(self, kind, st: State, goal, node=None, tag=None, probes=None):
        # segment boundaries of the byte values in scope are instantiation anchors (byte class)
        for v in list(st.env.values()) + list(st.ghost.values()) + ([st.ghost.get("$rv")] if "$rv" in st.ghost else []):
            b = v.joined if isinstance(v, ListV) else v
            if isinstance(b, BytesV) and b.bounds:
                st.anchor(*[z3.simplify(x) for x in b.bounds], cls="byte")
        nm = f"{self.fn}/{kind}"
        if node is not None and tag is None:
            nm += f"#{self.ordinal(node)}"
        if tag is not None:
            nm += f"[{tag}]"
        self.obligations.append(
            Obligation(nm, list(st.hyps), goal, getattr(node, "lineno", 0), path="".join(st.trace), kind=kind, probes=dict(probes or {}), anchors=list(st.anchors))
        )

    def pre(self, st: State, cond, node, tag=None):
        """callee precondition at a call site; in termination mode (no well-formedness) callee preconditions are not
        assumed to be establishable -- the callee may then raise, which that mode allows"""
        if getattr(getattr(self, "contract", None), "mode", "") == "termination":
            return
        self.ob("call.pre", st, cond, node, tag=tag)
        st.hyps.append(cond)

    def may_raise(self, exc, st: State, safe, node):
        """Operation raises `exc` unless `safe`.  If the function contract lets `exc` escape, the raising path is
        recorded (and checked against the exceptional postcondition by the caller); otherwise `safe` is an obligation.
        Afterwards execution continues under `safe`."""
        if self.allows(exc):
            r = st.fork()
            r.hyps.append(z3.Not(safe))
            self.raised.append((r, exc, node))
        else:
            self.ob(f"noraise.{exc}", st, safe, node)
        st.hyps.append(safe)

    def euclid(self, st: State, x, d):
        """q, r with x == q*d + r, 0 <= r < d (d > 0 must be known/obliged by the caller). Memoised per term pair."""
        x = z3.simplify(x) if not z3.is_int_value(x) else x
        key = (x.get_id(), d.get_id())
        if key not in self.euclid_cache:
            for (x1, d1, q1, r1) in EUCLID:  # the specification side already introduced witnesses for the same dividend and divisor: share them
                if x1.eq(x) and d1.eq(d):
                    self.euclid_cache[key] = (q1, r1, x1, d1)
                    break
        if key not in self.euclid_cache:
            self.euclid_cache[key] = (fresh("q"), fresh("r"), x, d)
            EUCLID.append((x, d, self.euclid_cache[key][0], self.euclid_cache[key][1]))
        q, r, x0, d0 = self.euclid_cache[key]
        fact = z3.And(x0 == q * d0 + r, 0 <= r, r < d0)
        if not any(h.eq(fact) for h in st.hyps):
            st.hyps.insert(0, fact)
        return q, r

    def divmod_(self, st, a, b, node):
        if z3.is_int_value(b) and b.as_long() > 0:
            pass
        else:
            self.may_raise("ZeroDivisionError", st, b != 0, node)
            # negative divisors are outside the encoding: refuted by obligation
            self.ob("encoding.divisor_positive", st, b > 0, node)
            st.hyps.append(b > 0)
        if z3.is_int_value(a) and z3.is_int_value(b):
            return z3.IntVal(a.as_long() // b.as_long()), z3.IntVal(a.as_long() % b.as_long())
        return self.euclid(st, a, b)

    # ---- int helpers for constant-operand bit operations (exact for x >= 0)
    def shr_const(self, st, x, c, node):
        if c == 0:
            return x
        q, _ = self.divmod_(st, x, z3.IntVal(1 << c), node)
        return q  # floor division by 2^c == arithmetic shift, also for negative x

    def and_const(self, st, x, m, node):
        """x & m for constant m >= 0, x >= 0 (obligation): sum over maximal runs of set bits."""
        if m == 0:
            return z3.IntVal(0)
        self.ob("encoding.bitop_nonneg", st, x >= 0, node)
        runs = []
        b = 0
        while (m >> b) != 0:
            if (m >> b) & 1:
                lo = b
                while (m >> b) & 1:
                    b += 1
                runs.append((lo, b))
            else:
                b += 1
        total = None
        for lo, hi in runs:
            hiq, low = self.divmod_(st, x, z3.IntVal(1 << hi), node)  # low = x mod 2^hi
            if lo == 0:
                part = low
            else:
                q2, r2 = self.divmod_(st, low, z3.IntVal(1 << lo), node)  # q2 = bits [lo,hi) shifted down
                part = q2 * (1 << lo)
            total = part if total is None else total + part
        return total

    def truthy(self, v: V):
        if isinstance(v, BoolV):
            return v.e
        if isinstance(v, IntV):
            return v.e != 0
        if isinstance(v, OptV):
            return z3.And(z3.Not(v.is_none), self.truthy(v.val))
        if isinstance(v, NoneV):
            return z3.BoolVal(False)
        if isinstance(v, BytesV):
            return v.n > 0
        if isinstance(v, ObjV):
            return self.model.obj_truthy(v.path)
        if isinstance(v, FileV):
            return self.model.obj_truthy(v.name)
        if isinstance(v, ListV):
            return v.joined.n > 0
        if isinstance(v, StrV):
            return z3.BoolVal(bool(v.s))
        if isinstance(v, TupleV):
            return z3.BoolVal(len(v.items) > 0)
        if isinstance(v, OpaqueV):
            if v.truth is None:
                v.truth = fresh("opaque_truth", B)  # unknown value: both outcomes are explored, consistently for this value
            return v.truth
        if isinstance(v, BoundMethod) and isinstance(v.recv, OpaqueV):
            return fresh("opaque_truth", B)
        if isinstance(v, SetListV):
            return v.n > 0
        raise Unsupported(f"truthiness of {type(v).__name__}")

    def as_int(self, v, st, node):
        if isinstance(v, OptV):
            self.may_raise("TypeError", st, z3.Not(v.is_none), node)
            v = v.val
        if isinstance(v, BoolV):
            return z3.If(v.e, z3.IntVal(1), z3.IntVal(0))
        if isinstance(v, IntV):
            return v.e
        if isinstance(v, OpaqueV) or (getattr(self.model, "gate_mode", False) and isinstance(v, (BoundMethod, FuncRef, ObjV, BytesV, StrV, NoneV, TupleV))):
            return fresh("opaque_int")
        raise Unsupported(f"int operand expected, got {type(v).__name__}@{getattr(node, 'lineno', 0)}")

    # ---------------------------------------------------------------- expressions
    def ev(self, node, st: State) -> V:
        m = getattr(self, "ev_" + type(node).__name__, None)
        if m is None:
            if getattr(self.model, "gate_mode", False):
                # gate mode: an expression outside the subset is an unknown value; its sub-expressions are still evaluated for calls
                # that matter (parses) where that is cheap
                for ch in ast.iter_child_nodes(node):
                    if isinstance(ch, ast.expr) and not isinstance(ch, (ast.Lambda, ast.comprehension)):
                        try:
                            self.ev(ch, st)
                        except Unsupported:
                            pass
                return OpaqueV(type(node).__name__)
            raise Unsupported(f"expr {type(node).__name__}@{node.lineno}")
        return m(node, st)

    def ev_Constant(self, n, st):
        v = n.value
        if isinstance(v, bool):
            return BoolV(z3.BoolVal(v))
        if isinstance(v, int):
            return IntV(z3.IntVal(v))
        if v is None:
            return NoneV()
        if isinstance(v, bytes):
            return const_bytes(v)
        if isinstance(v, str):
            return StrV(v)
        raise Unsupported(f"const {v!r}")

    def ev_Name(self, n, st):
        if n.id in st.env:
            return st.env[n.id]
        g = self.model.global_(n.id)
        if g is not None:
            return g
        if n.id in self.model.global_calls:
            return FuncRef(n.id)
        if n.id in ("min", "max", "divmod", "len", "range", "int", "bool", "abs", "isinstance", "hasattr", "getattr", "bytes", "bytearray", "memoryview", "str"):
            return FuncRef(n.id)
        if getattr(self.model, "gate_mode", False):
            return OpaqueV(f"name:{n.id}")
        raise Unsupported(f"name {n.id}@{n.lineno}")

    def ev_Attribute(self, n, st):
        base = self.ev(n.value, st)
        if isinstance(base, ObjV):
            key = f"{base.path}.{n.attr}"
            if key in st.attrs:
                return st.attrs[key]
            if self.model.is_method(base.path, n.attr):
                return BoundMethod(base, n.attr)
            return self.model.attr(self, st, base.path, n.attr, n)
        if isinstance(base, (FileV, ListV, BytesV, SeqV, SetListV)) or (isinstance(base, StrV) and n.attr in ("encode", "format")):
            return BoundMethod(base, n.attr)
        if isinstance(base, FuncRef) and base.name == "int":
            return BoundMethod(base, n.attr)
        if isinstance(base, OpaqueV):
            # data attribute or method of an unknown value: a memoised unknown child (calling it yields an unknown value)
            key = ("attr", n.attr)
            if key not in base.memo:
                base.memo[key] = OpaqueV(f"{base.tag}.{n.attr}")
            return base.memo[key]
        if getattr(self.model, "gate_mode", False):
            return OpaqueV(f"attr:{n.attr}")
        if isinstance(base, OptV) and isinstance(base.val, ObjV):
            self.may_raise("AttributeError", st, z3.Not(base.is_none), n)
            return self.ev_attr_on(base.val, n, st)
        raise Unsupported(f"attr .{n.attr} on {type(base).__name__}@{n.lineno}")

    def ev_attr_on(self, base, n, st):
        if self.model.is_method(base.path, n.attr):
            return BoundMethod(base, n.attr)
        return self.model.attr(self, st, base.path, n.attr, n)

    def _bit_extract(self, n, st):
        """(X & (1 << J)) >> J with a symbolic shift J (a plain name): on Python integers with X >= 0 and J >= 0 this is exactly
        bit J of X.  It is rendered as bit(X, J), an uninterpreted function: the specification side of the contract uses the same
        function, and the contract supplies the (true, table-checked) facts about it that the proof needs."""
        if not (isinstance(n.op, ast.RShift) and isinstance(n.right, ast.Name) and isinstance(n.left, ast.BinOp) and isinstance(n.left.op, ast.BitAnd)):
            return None
        for x_node, m_node in ((n.left.left, n.left.right), (n.left.right, n.left.left)):
            if (isinstance(m_node, ast.BinOp) and isinstance(m_node.op, ast.LShift) and isinstance(m_node.left, ast.Constant) and type(m_node.left.value) is int
                    and m_node.left.value == 1 and isinstance(m_node.right, ast.Name) and m_node.right.id == n.right.id):
                xv, jv = self.ev(x_node, st), self.ev(n.right, st)
                if not (isinstance(xv, IntV) and isinstance(jv, IntV)) or z3.is_int_value(z3.simplify(jv.e)):
                    return None
                self.ob("encoding.bitop_nonneg", st, z3.And(xv.e >= 0, jv.e >= 0), n)
                return IntV(BIT(xv.e, jv.e), (0, 1))
        return None

    def ev_BinOp(self, n, st):
        bx = self._bit_extract(n, st)
        if bx is not None:
            return bx
        l, r = self.ev(n.left, st), self.ev(n.right, st)
        op = type(n.op).__name__
        if isinstance(l, OpaqueV) or isinstance(r, OpaqueV):
            return OpaqueV("binop")
        # bytes operations
        if op == "Mult":
            for a, b in ((l, r), (r, l)):
                if isinstance(a, BytesV) and isinstance(b, (IntV, OptV, BoolV)):
                    cnt = self.as_int(b, st, n)
                    if z3.is_int_value(a.n) and a.n.as_long() == 1:
                        byte = a.at(z3.IntVal(0))
                        return BytesV(z3.If(cnt < 0, z3.IntVal(0), cnt), lambda i, byte=byte: byte)
                    if z3.is_int_value(a.n):
                        # constant pattern repeated: only the all-equal pattern is supported
                        ln = a.n.as_long()
                        vals = [z3.simplify(a.at(z3.IntVal(k))) for k in range(ln)]
                        if all(v.eq(vals[0]) for v in vals):
                            return BytesV(z3.If(cnt < 0, z3.IntVal(0), cnt * ln), lambda i, byte=vals[0]: byte)
                    # (b"\x00" * k) * m  : byte-constant view
                    probe = z3.simplify(a.at(fresh("pi")))
                    if z3.is_int_value(probe):
                        return BytesV(z3.If(cnt < 0, z3.IntVal(0), a.n * cnt), lambda i, byte=probe: byte)
                    raise Unsupported(f"bytes*int of non-constant pattern@{n.lineno}")
        if op == "Add" and isinstance(l, BytesV) and isinstance(r, BytesV):
            return concat(l, r)
        if isinstance(l, (BytesV, ListV, TupleV, StrV, NoneV)) or isinstance(r, (BytesV, ListV, TupleV, StrV, NoneV)):
            raise Unsupported(f"binop {op} on {type(l).__name__},{type(r).__name__}@{n.lineno}")
        a, b = self.as_int(l, st, n), self.as_int(r, st, n)
        lb = l.bits if isinstance(l, IntV) else None
        rb = r.bits if isinstance(r, IntV) else None
        bs_, as_ = z3.simplify(b), z3.simplify(a)
        # bit-list operands: & | >> << are computed bit by bit (exact, no div/mod)
        lbl = l.bl if isinstance(l, IntV) else None
        rbl = r.bl if isinstance(r, IntV) else None
        if op in ("BitAnd", "BitOr", "RShift", "LShift") and (lbl is not None or rbl is not None):
            def as_bl(v_, bl_, other):
                if bl_ is not None:
                    return bl_
                if z3.is_int_value(v_) and v_.as_long() >= 0:
                    return const_bitlist(v_.as_long(), max(len(other), v_.as_long().bit_length()))
                return None
            if op in ("RShift", "LShift"):
                if lbl is not None and z3.is_int_value(bs_) and 0 <= bs_.as_long() <= 128:
                    c_ = bs_.as_long()
                    nb = lbl[c_:] if op == "RShift" else tuple(z3.IntVal(0) for _ in range(c_)) + lbl
                    nb = nb or (z3.IntVal(0),)
                    return IntV(bitlist_value(nb), None, nb)
            else:
                x_, y_ = as_bl(as_, lbl, rbl or ()), as_bl(bs_, rbl, lbl or ())
                if x_ is not None and y_ is not None:
                    w_ = max(len(x_), len(y_))
                    x_ = x_ + tuple(z3.IntVal(0) for _ in range(w_ - len(x_)))
                    y_ = y_ + tuple(z3.IntVal(0) for _ in range(w_ - len(y_)))
                    if op == "BitAnd":
                        nb = tuple(z3.simplify(z3.If(z3.And(p_ == 1, q_ == 1), z3.IntVal(1), z3.IntVal(0))) for p_, q_ in zip(x_, y_))
                    else:
                        nb = tuple(z3.simplify(z3.If(z3.Or(p_ == 1, q_ == 1), z3.IntVal(1), z3.IntVal(0))) for p_, q_ in zip(x_, y_))
                    return IntV(bitlist_value(nb), None, nb)
        if op == "BitOr" and not z3.is_int_value(bs_) and not z3.is_int_value(as_):
            # symbolic | symbolic: exact when the operands occupy disjoint bit ranges (known from constant masks and shifts)
            if lb and rb and (lb[1] <= rb[0] or rb[1] <= lb[0]):
                return IntV(a + b, (min(lb[0], rb[0]), max(lb[1], rb[1])))
            raise Unsupported(f"| with two symbolic operands whose bit ranges are not known to be disjoint@{n.lineno}")
        try:
            res = self.int_binop(op, a, b, st, n)
        except Unsupported:
            if getattr(self.model, "gate_mode", False):
                return OpaqueV("binop")
            raise
        bits = None
        if op == "BitAnd":
            mv = bs_ if z3.is_int_value(bs_) else (as_ if z3.is_int_value(as_) else None)
            if mv is not None and mv.as_long() > 0:
                m_ = mv.as_long()
                bits = ((m_ & -m_).bit_length() - 1, m_.bit_length())
        elif op == "RShift" and lb and z3.is_int_value(bs_):
            c_ = bs_.as_long()
            bits = (max(0, lb[0] - c_), max(0, lb[1] - c_))
        elif op == "LShift" and lb and z3.is_int_value(bs_):
            c_ = bs_.as_long()
            bits = (lb[0] + c_, lb[1] + c_)
        return IntV(res, bits)

    def int_binop(self, op, a, b, st, n):
        if op == "Add":
            return a + b
        if op == "Sub":
            return a - b
        if op == "Mult":
            return a * b
        if op == "FloorDiv":
            return self.divmod_(st, a, b, n)[0]
        if op == "Mod":
            return self.divmod_(st, a, b, n)[1]
        if op == "Pow":
            a_, b_ = z3.simplify(a), z3.simplify(b)
            if z3.is_int_value(a_) and z3.is_int_value(b_) and b_.as_long() >= 0:
                return z3.IntVal(a_.as_long() ** b_.as_long())
            raise Unsupported(f"pow with symbolic operand@{n.lineno}")
        bs = z3.simplify(b)
        as_ = z3.simplify(a)
        if op == "RShift":
            if z3.is_int_value(bs) and bs.as_long() >= 0:
                return self.shr_const(st, a, bs.as_long(), n)
            raise Unsupported(f">> with symbolic shift@{n.lineno}")
        if op == "LShift":
            if z3.is_int_value(bs) and bs.as_long() >= 0:
                return a * (1 << bs.as_long())
            if z3.is_int_value(as_) and as_.as_long() >= 0:
                # constant << symbolic amount: exact for 0 <= amount < 64, an unknown value otherwise
                e = fresh("shl_out_of_range")
                for k in range(63, -1, -1):
                    e = z3.If(b == k, z3.IntVal(as_.as_long() << k), e)
                return e
            raise Unsupported(f"<< with symbolic shift@{n.lineno}")
        if op in ("BitAnd", "BitOr") and z3.is_int_value(as_) and z3.is_int_value(bs):
            return z3.IntVal(as_.as_long() & bs.as_long() if op == "BitAnd" else as_.as_long() | bs.as_long())  # constants (also negative ones: Python integers)
        if op == "BitAnd":
            if z3.is_int_value(bs) and bs.as_long() >= 0:
                return self.and_const(st, a, bs.as_long(), n)
            if z3.is_int_value(as_) and as_.as_long() >= 0:
                return self.and_const(st, b, as_.as_long(), n)
            for x_, m_ in ((a, bs), (b, as_)):
                # x & -2^k (i.e. x & ~(2^k - 1)) for x >= 0: x rounded down to a multiple of 2^k
                if z3.is_int_value(m_) and m_.as_long() < 0 and ((-m_.as_long()) & (-m_.as_long() - 1)) == 0:
                    self.ob("encoding.bitop_nonneg", st, x_ >= 0, n)
                    q_, r_ = self.divmod_(st, x_, z3.IntVal(-m_.as_long()), n)
                    return x_ - r_
            raise Unsupported(f"& with two symbolic operands@{n.lineno}")
        if op == "BitOr":
            # x | m == x + m - (x & m)
            if z3.is_int_value(bs) and bs.as_long() >= 0:
                return a + bs - self.and_const(st, a, bs.as_long(), n)
            if z3.is_int_value(as_) and as_.as_long() >= 0:
                return b + as_ - self.and_const(st, b, as_.as_long(), n)
            raise Unsupported(f"| with two symbolic operands@{n.lineno}")
        raise Unsupported(f"int binop {op}@{n.lineno}")

    def opt_parts(self, v):
        if isinstance(v, NoneV):
            return z3.BoolVal(True), None
        if isinstance(v, OptV):
            return v.is_none, v.val
        return z3.BoolVal(False), v

    def eq_values(self, l, r, st, n):
        """Python == between two values (no exceptions)."""
        ln, lv = self.opt_parts(l)
        rn, rv = self.opt_parts(r)
        if lv is None and rv is None:
            return z3.BoolVal(True)
        if lv is None:
            return rn
        if rv is None:
            return ln
        if isinstance(lv, TupleV) and isinstance(rv, TupleV):
            if len(lv.items) != len(rv.items):
                inner = z3.BoolVal(False)
            else:
                inner = z3.And(*[self.eq_values(a, b, st, n) for a, b in zip(lv.items, rv.items)]) if lv.items else z3.BoolVal(True)
        elif isinstance(lv, (IntV, BoolV)) and isinstance(rv, (IntV, BoolV)):
            inner = self.as_int(lv, st, n) == self.as_int(rv, st, n)
        elif isinstance(lv, BytesV) and isinstance(rv, BytesV):
            rn_, ln_ = z3.simplify(rv.n), z3.simplify(lv.n)
            if z3.is_int_value(rn_) or z3.is_int_value(ln_):
                k = rn_.as_long() if z3.is_int_value(rn_) else ln_.as_long()
                inner = z3.And(lv.n == k, rv.n == k, *[lv.at(z3.IntVal(i)) == rv.at(z3.IntVal(i)) for i in range(k)])
            else:
                # both lengths symbolic: a fresh Boolean defined by the quantified equality, with a Skolem witness for the negative case
                inner = fresh("beq", B)
                w = fresh("beq_w")
                kq = z3.Int("k")
                st.hyps.append(z3.Implies(inner, lv.n == rv.n))
                st.hyps.append(z3.ForAll([kq], z3.Implies(z3.And(inner, 0 <= kq, kq < lv.n), lv.at(kq) == rv.at(kq))))  # quantifier kept at top level for the instantiation stages
                st.hyps.append(z3.Implies(z3.Not(inner), z3.Or(lv.n != rv.n, z3.And(0 <= w, w < lv.n, lv.at(w) != rv.at(w)))))
                st.anchor(w, cls="byte")
                for side in (lv.at(w), rv.at(w)):  # the array positions the witness touches are instantiation anchors too
                    st.anchor(*[z3.simplify(ix) for ix in _select_indices(side)][:8], cls="byte")
        elif isinstance(lv, StrV) and isinstance(rv, StrV):
            inner = z3.BoolVal(lv.s == rv.s)
        elif isinstance(lv, ObjV) and isinstance(rv, ObjV):
            inner = self.model.obj_eq(lv.path, rv.path)
        elif getattr(self.model, "gate_mode", False):
            inner = fresh("opaque_eq", B)
        else:
            raise Unsupported(f"== between {type(lv).__name__} and {type(rv).__name__}@{n.lineno}")
        return z3.And(z3.Not(ln), z3.Not(rn), inner) if not (z3.is_false(ln) and z3.is_false(rn)) else inner

    def ev_Compare(self, n, st):
        left = self.ev(n.left, st)
        parts = []
        for op_, comp in zip(n.ops, n.comparators):
            right = self.ev(comp, st)
            parts.append(self.compare1(type(op_).__name__, left, right, st, n))
            left = right
        return BoolV(parts[0] if len(parts) == 1 else z3.And(*parts))

    def compare1(self, op, l, r, st, n):
        if isinstance(l, OpaqueV) or isinstance(r, OpaqueV):
            o, other, side = (l, r, "l") if isinstance(l, OpaqueV) else (r, l, "r")
            const = other.s if isinstance(other, StrV) else ("None" if isinstance(other, NoneV) else (z3.simplify(other.e).as_long() if isinstance(other, IntV) and z3.is_int_value(z3.simplify(other.e)) else None))
            if const is None and isinstance(other, BytesV) and z3.is_int_value(z3.simplify(other.n)) and z3.simplify(other.n).as_long() <= 64:
                vals = [z3.simplify(other.at(z3.IntVal(i))) for i in range(z3.simplify(other.n).as_long())]
                if all(z3.is_int_value(v) for v in vals):
                    const = bytes(v.as_long() for v in vals)
            if const is not None:
                pos = {"Eq": ("eq", True), "NotEq": ("eq", False), "In": ("in" + side, True), "NotIn": ("in" + side, False), "Is": ("eq", True), "IsNot": ("eq", False)}.get(op)
                if pos:
                    key = (pos[0], const)
                    if key not in o.memo:
                        o.memo[key] = fresh("opaque_rel", B)
                    return o.memo[key] if pos[1] else z3.Not(o.memo[key])
            return fresh("opaque_cmp", B)
        if op in ("Is", "IsNot"):
            if isinstance(r, NoneV):
                if isinstance(l, ObjV):
                    isn = z3.Not(self.model.obj_not_none(l.path))
                else:
                    isn = self.opt_parts(l)[0]
                return isn if op == "Is" else z3.Not(isn)
            raise Unsupported(f"`is` with non-None@{n.lineno}")
        if op in ("Eq", "NotEq"):
            e = self.eq_values(l, r, st, n)
            return e if op == "Eq" else z3.Not(e)
        if op in ("In", "NotIn"):
            if isinstance(r, SetListV):
                e = z3.Select(r.mem, self.as_int(l, st, n))
                return e if op == "In" else z3.Not(e)
            if isinstance(r, TupleV):
                e = z3.Or(*[self.eq_values(l, x, st, n) for x in r.items]) if r.items else z3.BoolVal(False)
                return e if op == "In" else z3.Not(e)
            raise Unsupported(f"`in` on {type(r).__name__}@{n.lineno}")
        a, b = self.as_int(l, st, n), self.as_int(r, st, n)
        return {"Lt": a < b, "LtE": a <= b, "Gt": a > b, "GtE": a >= b}[op]

    def ev_UnaryOp(self, n, st):
        v = self.ev(n.operand, st)
        if isinstance(n.op, ast.USub):
            return IntV(-self.as_int(v, st, n))
        if isinstance(n.op, ast.Not):
            return BoolV(z3.Not(self.truthy(v)))
        if isinstance(n.op, ast.Invert) and isinstance(v, IntV):
            return IntV(-v.e - 1)  # ~x == -x - 1 on Python integers
        raise Unsupported(f"unaryop {type(n.op).__name__}@{n.lineno}")

    def ev_guarded(self, node, st, guard):
        """Evaluate `node` under `guard` (short-circuit operand / conditional-expression arm): facts learned there
        are kept only as `guard => fact`."""
        if guard is None:
            return self.ev(node, st)
        f = st.fork()
        f.hyps.append(guard)
        known = {id(h) for h in st.hyps}
        v = self.ev(node, f)
        if f.filepos.keys() != st.filepos.keys() or any(not f.filepos[k].eq(st.filepos[k]) for k in f.filepos):
            raise Unsupported(f"file operation inside a conditional operand@{node.lineno}")
        for h in f.hyps:
            if id(h) not in known and h is not guard:
                st.hyps.append(z3.Implies(guard, h))
        st.ghost.update(f.ghost)
        return v

    def ev_BoolOp(self, n, st):
        # short circuit: operand i is evaluated under the truthiness (And) / falsiness (Or) of operands < i
        vals = []
        guards = []
        for v in n.values:
            x = self.ev_guarded(v, st, z3.And(*guards) if guards else None)
            vals.append(x)
            if v is not n.values[-1]:
                t = self.truthy(x)
                guards.append(t if isinstance(n.op, ast.And) else z3.Not(t))
        if isinstance(n.op, ast.Or) and len(vals) == 2 and isinstance(vals[1], NoneV) and isinstance(vals[0], (IntV, OptV)):
            a = vals[0]  # `x or None`
            if isinstance(a, IntV):
                return OptV(a.e == 0, a)
            return OptV(z3.Or(a.is_none, z3.Not(self.truthy(a.val))), a.val)
        if isinstance(n.op, ast.Or) and len(vals) == 2 and all(isinstance(v, IntV) for v in vals):
            a, b = vals  # `x or y` with ints: value-returning
            return IntV(z3.If(a.e != 0, a.e, b.e))
        if len(vals) == 2 and not all(isinstance(v, BoolV) for v in vals):
            # value-returning `a or b` / `a and b`
            try:
                c = self.truthy(vals[0])
                return self.merge(c, vals[0], vals[1], n) if isinstance(n.op, ast.Or) else self.merge(c, vals[1], vals[0], n)
            except (Unsupported, AttributeError, TypeError):
                pass  # operands of different shapes: only the truth value is meaningful (boolean context)
        ts = [self.truthy(v) for v in vals]
        return BoolV(z3.And(*ts) if isinstance(n.op, ast.And) else z3.Or(*ts))

    def merge(self, c, a, b, n):
        if isinstance(a, (IntV, BoolV)) and isinstance(b, (IntV, BoolV)) and type(a) is type(b):
            return type(a)(z3.If(c, a.e, b.e))
        if isinstance(a, IntV) and isinstance(b, BoolV) or isinstance(a, BoolV) and isinstance(b, IntV):
            ai = a.e if isinstance(a, IntV) else z3.If(a.e, 1, 0)
            bi = b.e if isinstance(b, IntV) else z3.If(b.e, 1, 0)
            return IntV(z3.If(c, ai, bi))
        if isinstance(a, BytesV) and isinstance(b, BytesV):
            return BytesV(z3.If(c, a.n, b.n), lambda i, a=a, b=b, c=c: z3.If(c, a.at(i), b.at(i)))
        if isinstance(a, ObjV) and isinstance(b, ObjV) and hasattr(self.model, "merge_obj"):
            return self.model.merge_obj(self, c, a, b)
        if isinstance(a, OpaqueV) or isinstance(b, OpaqueV):
            o = OpaqueV("merge")
            try:
                o.truth = z3.If(c, self.truthy(a), self.truthy(b))  # the merged value is a or b: so is its truth value
            except Unsupported:
                pass
            return o
        an, av = self.opt_parts(a)
        bn, bv = self.opt_parts(b)
        if av is None and bv is None:
            return NoneV()
        if not isinstance(a, (OptV, NoneV)) and not isinstance(b, (OptV, NoneV)):
            raise Unsupported(f"cannot merge {type(a).__name__} with {type(b).__name__}@{getattr(n, 'lineno', 0)}")
        inner = self.merge(c, av if av is not None else bv, bv if bv is not None else av, n)
        return OptV(z3.If(c, an, bn), inner)

    def ev_IfExp(self, n, st):
        c = self.truthy(self.ev(n.test, st))
        cs_ = z3.simplify(c)
        if z3.is_true(cs_):
            return self.ev(n.body, st)
        if z3.is_false(cs_):
            return self.ev(n.orelse, st)
        a = self.ev_guarded(n.body, st, c)
        b = self.ev_guarded(n.orelse, st, z3.Not(c))
        return self.merge(c, a, b, n)

    def ev_NamedExpr(self, n, st):
        v = self.ev(n.value, st)
        self.assign(n.target, v, st, n)
        return v

    def ev_JoinedStr(self, n, st):
        parts = []
        for p_ in n.values:
            if isinstance(p_, ast.Constant):
                parts.append(str(p_.value))
            else:
                v = self.ev(p_.value, st)
                if isinstance(v, StrV) and p_.format_spec is None and p_.conversion == -1:
                    parts.append(v.s)
                else:
                    return OpaqueV("f" + repr("".join(parts)) + "...")
        return StrV("".join(parts))

    def ev_Dict(self, n, st):
        if not n.keys:
            return OpaqueV("dict")  # a fresh empty dict: stores into it are outside what the contracts read unless the model hooks them
        raise Unsupported(f"dict literal@{n.lineno}")

    def ev_Lambda(self, n, st):
        return LambdaV(n)

    def ev_Tuple(self, n, st):
        return TupleV([self.ev(e, st) for e in n.elts])

    def ev_List(self, n, st):
        if n.elts:
            vals = [self.ev(e, st) for e in n.elts]
            if all(isinstance(v, IntV) for v in vals) and getattr(self.model, "int_lists_are_sets", False):
                mem = z3.K(I, z3.BoolVal(False))
                for v in vals:
                    mem = z3.Store(mem, v.e, z3.BoolVal(True))
                return SetListV(mem, z3.IntVal(len(vals)))
            return TupleV(vals)
        return ListV(EMPTY)

    def slice_bytes(self, b: BytesV, lo, hi):
        """Python slicing b[lo:hi] with clamping; lo/hi are z3 ints or None."""
        n = b.n

        def norm(x, default):
            if x is None:
                return default
            return z3.If(x < 0, zmax(n + x, z3.IntVal(0)), zmin(x, n))

        lo_ = norm(lo, z3.IntVal(0))
        hi_ = norm(hi, n)
        ln = z3.If(hi_ > lo_, hi_ - lo_, z3.IntVal(0))
        return BytesV(ln, lambda i, b=b, lo_=lo_: b.at(lo_ + i))

    def ev_Subscript(self, n, st):
        base = self.ev(n.value, st)
        if isinstance(base, OpaqueV) or (getattr(self.model, "gate_mode", False) and isinstance(base, (BoundMethod, FuncRef))):
            idx = None
            if not isinstance(n.slice, ast.Slice):
                idx = self.ev(n.slice, st)
            if isinstance(base, OpaqueV) and isinstance(idx, StrV):
                key = ("item", idx.s)
                if key not in base.memo:
                    base.memo[key] = OpaqueV(f"{base.tag}[{idx.s!r}]")
                return base.memo[key]
            if isinstance(base, OpaqueV) and idx is not None:
                return OpaqueV(f"{base.tag}[{describe(idx)}]")
            return OpaqueV("item")
        if isinstance(base, OptV) and isinstance(base.val, BytesV):
            self.may_raise("TypeError", st, z3.Not(base.is_none), n)
            base = base.val
        if isinstance(base, BytesV):
            if isinstance(n.slice, ast.Slice):
                if n.slice.step is not None:
                    raise Unsupported("slice step")
                lo = self.as_int(self.ev(n.slice.lower, st), st, n) if n.slice.lower else None
                hi = self.as_int(self.ev(n.slice.upper, st), st, n) if n.slice.upper else None
                return self.slice_bytes(base, lo, hi)
            idx = self.as_int(self.ev(n.slice, st), st, n)
            self.may_raise("IndexError", st, z3.And(idx >= -base.n, idx < base.n), n)
            return IntV(base.at(z3.If(idx < 0, base.n + idx, idx)))
        if isinstance(base, TupleV):
            idx = z3.simplify(self.as_int(self.ev(n.slice, st), st, n))
            if z3.is_int_value(idx):
                return base.items[idx.as_long()]
            raise Unsupported("tuple index symbolic")
        if isinstance(base, ObjV):
            idx = self.ev(n.slice, st)
            return self.model.getitem(self, st, base.path, idx, n)
        raise Unsupported(f"subscript on {type(base).__name__}@{n.lineno}")

    def ev_Call(self, n, st):
        f = self.ev(n.func, st)
        if any(isinstance(a, ast.Starred) for a in n.args) or sum(1 for k in n.keywords if k.arg is None) > 1:
            raise Unsupported(f"*args call@{n.lineno}")
        if any(k.arg is None for k in n.keywords) and (isinstance(f, OpaqueV) or (isinstance(f, BoundMethod) and isinstance(f.recv, (OpaqueV, StrV)))):
            kw = next(k for k in n.keywords if k.arg is None)
            ftag = f.tag if isinstance(f, OpaqueV) else f"{describe(f.recv)}.{f.name}"
            return OpaqueV(f"{ftag}(**{describe(self.ev(kw.value, st))})")
        if any(k.arg is None for k in n.keywords) and not (isinstance(f, BoundMethod) and isinstance(f.recv, ObjV)) and not isinstance(f, FuncRef):
            raise Unsupported(f"**kwargs call on something that is not a contracted method@{n.lineno}")
        args = [self.ev(a, st) for a in n.args]
        kwargs = {(k.arg if k.arg is not None else "__starstar__"): self.ev(k.value, st) for k in n.keywords}  # f(**d) reaches the callee contract as __starstar__=d
        if isinstance(f, FuncRef):
            if f.name == "str" and args and isinstance(args[0], BytesV) and 2 <= len(args) + len(kwargs) <= 3 and set(kwargs) <= {"encoding", "errors"}:
                # str(b, codec[, errors]) is b.decode(codec[, errors])
                cod = args[1] if len(args) > 1 else kwargs.get("encoding")
                err = args[2] if len(args) > 2 else kwargs.get("errors")
                return self._decode(args[0], [cod] if cod is not None else [], st, n, errors=err)
            r = self.call_builtin(f.name, args, st, n) if not kwargs else None
            if r is not None:
                return r
            return self.model.call_global(self, st, f.name, args, n, **kwargs)
        if isinstance(f, BoundMethod) and isinstance(f.recv, FuncRef) and f.recv.name == "int" and f.name == "from_bytes":
            b, order = args[0], (args[1] if len(args) > 1 else kwargs.get("byteorder"))
            ln = z3.simplify(b.n) if isinstance(b, BytesV) else None
            if isinstance(b, BytesV) and isinstance(order, StrV) and z3.is_int_value(ln) and ln.as_long() <= 16 and not kwargs.get("signed"):
                k = ln.as_long()
                idx = range(k) if order.s == "big" else range(k - 1, -1, -1)
                e = z3.IntVal(0)
                for i in idx:
                    e = e * 256 + b.at(z3.IntVal(i))
                return IntV(e)
            raise Unsupported(f"int.from_bytes on a value of symbolic length@{n.lineno}")
        if isinstance(f, BoundMethod):
            recv = f.recv
            if isinstance(recv, ObjV):
                return self.model.call(self, st, recv.path, f.name, args, n, **kwargs)
            if isinstance(recv, FileV):
                return self.file_op(recv.name, f.name, args, st, n)
            if isinstance(recv, SetListV) and f.name == "append":
                tgt = n.func.value
                if not isinstance(tgt, ast.Name):
                    raise Unsupported("append on non-name")
                x = self.as_int(args[0], st, n)
                st.env[tgt.id] = SetListV(z3.Store(recv.mem, x, z3.BoolVal(True)), recv.n + 1)
                if hasattr(self.model, "on_set_append"):
                    self.model.on_set_append(self, st, recv, x, n)
                return NoneV()
            if isinstance(recv, OpaqueV):
                return OpaqueV(recv.tag + "()")
            if isinstance(recv, BytesV) and f.name == "tobytes" and not args and not kwargs:
                return recv
            if isinstance(recv, BytesV) and f.name == "ljust" and len(args) == 2 and isinstance(args[1], BytesV) and not kwargs:
                w = self.as_int(args[0], st, n)
                fill = args[1].at(z3.IntVal(0))
                return BytesV(zmax(recv.n, w), lambda i, recv=recv, fill=fill: z3.If(i < recv.n, recv.at(i), fill), tuple(recv.bounds) + (recv.n,))
            if isinstance(recv, StrV) and f.name == "encode" and not args and not kwargs:
                return const_bytes(recv.s.encode())
            if isinstance(recv, BytesV) and f.name == "decode" and set(kwargs) <= {"encoding", "errors"}:
                cod = args[0] if args else kwargs.get("encoding")
                return self._decode(recv, [cod] if cod is not None else [], st, n, errors=args[1] if len(args) > 1 else kwargs.get("errors"))
            if isinstance(recv, ListV) and f.name == "append":
                tgt = n.func.value
                if not isinstance(tgt, ast.Name):
                    if getattr(self.model, "gate_mode", False):
                        return NoneV()
                    raise Unsupported("append on non-name")
                x = args[0]
                if hasattr(self.model, "on_list_append"):
                    self.model.on_list_append(self, st, tgt.id, x, n)
                    return NoneV()
                if isinstance(x, TupleV):
                    if self.on_append is None:
                        raise Unsupported("append of tuple without on_append hook")
                    self.on_append(self, st, x, n)
                    return NoneV()
                if not isinstance(x, BytesV):
                    raise Unsupported(f"append of {type(x).__name__}@{n.lineno}")
                st.env[tgt.id] = ListV(concat(recv.joined, x))
                return NoneV()
            if isinstance(recv, BytesV) and f.name == "join":
                rn = z3.simplify(recv.n)
                if z3.is_int_value(rn) and rn.as_long() == 0:
                    (lst,) = args
                    if isinstance(lst, ListV):
                        return lst.joined
                raise Unsupported(f"join@{n.lineno}")
        if isinstance(f, ObjV) and self.model.is_method(f.path, "__call__"):
            return self.model.call(self, st, f.path, "__call__", args, n, **kwargs)
        if isinstance(f, OpaqueV) and not n.args and not n.keywords:
            if ("call0",) not in f.memo:  # a zero-argument call on an unknown value: one (memoised) unknown result
                f.memo[("call0",)] = OpaqueV(f.tag + "()")
                self.opaque_calls[f.tag + "()"] = f.memo[("call0",)]
            return f.memo[("call0",)]
        if isinstance(f, OpaqueV) or (isinstance(f, BoundMethod) and isinstance(f.recv, OpaqueV)):
            ftag = f.tag if isinstance(f, OpaqueV) else f"{f.recv.tag}.{f.name}"
            o = OpaqueV(f"{ftag}({', '.join([describe(a_) for a_ in args] + [f'{k_}={describe(v_)}' for k_, v_ in kwargs.items()])})")
            self.opaque_calls[o.tag] = o  # ghost registry: the unknown result of this call expression (last evaluation)
            return o
        if getattr(self.model, "gate_mode", False):
            return self.model.unknown_call(self, st, f, args, kwargs, n)
        raise Unsupported(f"call {ast.unparse(n)[:60]}@{n.lineno}")

    def _decode(self, recv, args, st, n, errors=None):
        """bytes -> text: an uninterpreted string tagged with the bytes it was decoded from and the codec (error handler appended when
        one is given: 'utf-8/ignore' is not the codec 'utf-8')"""
        if self.allow_exc != "*" and self.allows("UnicodeDecodeError"):
            dec_ok = fresh("decodable", B)
            st.ghost["oks"] = st.ghost.get("oks", ()) + (dec_ok,)  # ghost: the "nothing raised" conditions of this path
            self.may_raise("UnicodeDecodeError", st, dec_ok, n)
        o = OpaqueV("str")
        o.memo[("decoded_from",)] = recv  # ghost: which bytes this text was decoded from
        cod = args[0].s if args and isinstance(args[0], StrV) else ("utf-8" if not args else "?")
        if errors is not None:
            cod += "/" + (errors.s if isinstance(errors, StrV) else "?")
        o.memo[("codec",)] = cod
        return o

    def call_builtin(self, name, args, st, n):
        if name in ("min", "max"):
            if len(args) < 2:
                raise Unsupported("min/max of iterable")
            xs = [self.as_int(a, st, n) for a in args]
            r = xs[0]
            for x in xs[1:]:
                r = zmin(r, x) if name == "min" else zmax(r, x)
            return IntV(r)
        if name == "divmod":
            a, b = (self.as_int(x, st, n) for x in args)
            q, r = self.divmod_(st, a, b, n)
            return TupleV([IntV(q), IntV(r)])
        if name == "len":
            (a,) = args
            if isinstance(a, BytesV):
                return IntV(a.n)
            if isinstance(a, TupleV):
                return IntV(z3.IntVal(len(a.items)))
            if isinstance(a, ObjV):
                return self.model.len_(self, st, a.path, n)
            if isinstance(a, BoundMethod) and isinstance(a.recv, ObjV) and f"{a.recv.path}.{a.name}" in self.model.lens:
                return self.model.len_(self, st, f"{a.recv.path}.{a.name}", n)  # len(<struct type>) of a type that is also callable
            if getattr(self.model, "gate_mode", False):
                if isinstance(a, BoundMethod) and isinstance(a.recv, ObjV):
                    stt = self.model.struct_type(a.recv.path, a.name)
                    if stt is not None:
                        return IntV(z3.IntVal(len(stt[1])))
                return OpaqueV("len")
            raise Unsupported(f"len of {type(a).__name__}@{n.lineno}")
        if name == "abs":
            x = self.as_int(args[0], st, n)
            return IntV(z3.If(x < 0, -x, x))
        if name == "bool":
            return BoolV(self.truthy(args[0]))
        if name == "int" and len(args) == 1 and isinstance(args[0], (IntV, BoolV)):
            return IntV(self.as_int(args[0], st, n))
        if name in ("bytes", "bytearray", "memoryview") and len(args) == 1 and isinstance(args[0], BytesV):
            return args[0]  # copy of an immutable model value
        if name == "bytearray" and len(args) == 1 and isinstance(args[0], (IntV, OptV)):
            cnt = self.as_int(args[0], st, n)
            self.may_raise("ValueError", st, cnt >= 0, n)
            return zeros(cnt)
        if name == "bytes" and len(args) == 1 and isinstance(args[0], TupleV) and all(isinstance(v, IntV) for v in args[0].items):
            # bytes([a, b, ..]): ValueError unless every element is in range(256)
            vals = [v.e for v in args[0].items]
            self.may_raise("ValueError", st, z3.And(*[z3.And(v >= 0, v <= 255) for v in vals]), n)
            return BytesV(z3.IntVal(len(vals)), lambda i, vals=vals: _ite_chain(i, vals))
        return None

    # ---- file handles: ghost position, short reads at EOF
    def file_pos(self, st, name):
        if name not in st.filepos:
            st.filepos[name] = fresh(f"pos0_{name}")
            st.hyps.append(st.filepos[name] >= 0)
        return st.filepos[name]

    def file_op(self, name, op, args, st, n):
        fsize, fat = self.model.file(name)
        if op == "seek":
            off = self.as_int(args[0], st, n)
            whence = 0
            if len(args) > 1:
                w = z3.simplify(self.as_int(args[1], st, n))
                if not z3.is_int_value(w):
                    if getattr(self.model, "gate_mode", False):
                        st.filepos[name] = fresh(f"pos_{name}")
                        return IntV(st.filepos[name])
                    raise Unsupported("symbolic whence")
                whence = w.as_long()
            if whence == 0:
                new = off
            elif whence == 1:
                new = self.file_pos(st, name) + off
            elif whence == 2:
                new = fsize + off
            else:
                raise Unsupported("whence")
            self.may_raise("OSError", st, new >= 0, n)
            st.filepos[name] = new
            return IntV(new)
        if op == "tell":
            return IntV(self.file_pos(st, name))
        if op == "read":
            pos = self.file_pos(st, name)
            avail = z3.If(fsize - pos > 0, fsize - pos, z3.IntVal(0))
            if args and not isinstance(args[0], NoneV):
                cnt = self.as_int(args[0], st, n)
                ln = z3.If(cnt < 0, avail, zmin(cnt, avail))
            else:
                ln = avail
            st.filepos[name] = pos + ln
            st.ghost["io"] = st.ghost.get("io", z3.IntVal(0)) + ln
            st.ghost["io_calls"] = st.ghost.get("io_calls", z3.IntVal(0)) + 1
            return BytesV(ln, lambda i, pos=pos, fat=fat: fat(pos + i))
        if getattr(self.model, "gate_mode", False):
            return OpaqueV(f"file.{op}")
        raise Unsupported(f"file op {op}@{n.lineno}")

    # ---------------------------------------------------------------- statements
    # returns list of (state, outcome); outcome in None | 'break' | 'continue' | ('return', v) | ('raise', name)
    def run(self, stmts, st: State):
        states = [(st, None)]
        for s in stmts:
            nxt = []
            for cur, out in states:
                if out is not None:
                    nxt.append((cur, out))
                    continue
                gb = self.ghost_asserts.get(("before", self._stmt_ord.get(id(s))))
                if gb is not None:
                    fact = gb(self, cur)
                    self.ob("ghost_assert", cur, fact, s, tag="before" + str(self._stmt_ord.get(id(s))))
                    cur.hyps.append(fact)
                res = self.stmt(s, cur)
                ga = self.ghost_asserts.get(self._stmt_ord.get(id(s)))
                if ga is not None:
                    for e, o in res:
                        if o is None:
                            fact = ga(self, e)
                            self.ob("ghost_assert", e, fact, s, tag=str(self._stmt_ord.get(id(s))))
                            e.hyps.append(fact)
                nxt.extend(res)
            states = nxt
        return states

    def stmt(self, s, st: State):
        m = getattr(self, "st_" + type(s).__name__, None)
        if m is None:
            raise Unsupported(f"stmt {type(s).__name__}@{s.lineno}")
        n_raised = len(self.raised)
        res = m(s, st)
        # implicit exceptions recorded by may_raise become outcomes of this statement
        extra = [(r, ("raise", exc)) for (r, exc, node) in self.raised[n_raised:]]
        del self.raised[n_raised:]
        return res + extra

    def st_Pass(self, s, st):
        return [(st, None)]

    def st_Expr(self, s, st):
        if isinstance(s.value, ast.Constant):
            return [(st, None)]  # docstring
        if isinstance(s.value, ast.Call) and ast.unparse(s.value.func).startswith(("log.", "logger.", "logging.", "_log.", "LOG.", "warnings.warn")):
            return [(st, None)]  # dropped: logging (listed in extraction_drops)
        if isinstance(s.value, ast.Yield):
            v = self.ev(s.value.value, st)
            if self.on_yield is None:
                raise Unsupported("yield without on_yield hook")
            self.on_yield(self, st, v, s)
            return [(st, None)]
        self.ev(s.value, st)
        return [(st, None)]

    def assign(self, tgt, v, st, node):
        if isinstance(tgt, ast.Name):
            st.env[tgt.id] = v
        elif isinstance(tgt, (ast.Tuple, ast.List)):
            if isinstance(v, OpaqueV):
                for i, t in enumerate(tgt.elts):
                    key = ("unpack", i)
                    if key not in v.memo:
                        v.memo[key] = OpaqueV(f"{v.tag}#{i}")
                    self.assign(t, v.memo[key], st, node)
                return
            if not isinstance(v, TupleV) or len(v.items) != len(tgt.elts):
                raise Unsupported(f"unpack {type(v).__name__}@{node.lineno}")
            for t, x in zip(tgt.elts, v.items):
                self.assign(t, x, st, node)
        elif isinstance(tgt, ast.Attribute):
            base = self.ev(tgt.value, st)
            if not isinstance(base, ObjV):
                raise Unsupported(f"attribute store on {type(base).__name__}@{node.lineno}")
            if self.model.on_attr_store(self, st, base.path, tgt.attr, v, node) != "skip":
                st.attrs[f"{base.path}.{tgt.attr}"] = v
        elif isinstance(tgt, ast.Subscript) and isinstance(tgt.value, ast.Name) and isinstance(st.env.get(tgt.value.id), BytesV) and isinstance(tgt.slice, ast.Slice):
            # bytearray slice store  b[lo:hi] = v  : modelled when it keeps the length (len(v) == hi - lo, 0 <= lo <= hi <= len(b)) --
            # anything else would resize the bytearray and is refused by an obligation
            old = st.env[tgt.value.id]
            if tgt.slice.step is not None or tgt.slice.lower is None or tgt.slice.upper is None or not isinstance(v, BytesV):
                raise Unsupported(f"slice store shape@{node.lineno}")
            lo = self.as_int(self.ev(tgt.slice.lower, st), st, node)
            hi = self.as_int(self.ev(tgt.slice.upper, st), st, node)
            self.ob("encoding.slice_store_keeps_length", st, z3.And(0 <= lo, lo <= hi, hi <= old.n, v.n == hi - lo), node)
            st.hyps.append(z3.And(0 <= lo, lo <= hi, hi <= old.n, v.n == hi - lo))
            st.env[tgt.value.id] = BytesV(old.n, lambda i, old=old, v=v, lo=lo, hi=hi: z3.If(z3.And(lo <= i, i < hi), v.at(i - lo), old.at(i)), (tuple(old.bounds) + (lo, hi))[-6:])
        elif isinstance(tgt, ast.Subscript):
            base = self.ev(tgt.value, st)
            if isinstance(base, OpaqueV) or (getattr(self.model, "gate_mode", False) and not isinstance(base, ObjV)):
                if isinstance(base, OpaqueV) and hasattr(self.model, "on_opaque_store"):
                    self.model.on_opaque_store(self, st, base, self.ev(tgt.slice, st), v, node)  # ghost event for fragment contracts
                return  # store into an unknown container: no effect on anything the contracts read
            if not isinstance(base, ObjV):
                raise Unsupported(f"subscript store on {type(base).__name__}@{node.lineno}")
            self.model.setitem(self, st, base.path, self.ev(tgt.slice, st), v, node)
        else:
            raise Unsupported(f"assign target {ast.unparse(tgt)}@{node.lineno}")

    def st_Assign(self, s, st):
        v = self.ev(s.value, st)
        for t in s.targets:
            self.assign(t, v, st, s)
        return [(st, None)]

    def st_AnnAssign(self, s, st):
        if s.value is None:
            return [(st, None)]
        self.assign(s.target, self.ev(s.value, st), st, s)
        return [(st, None)]

    def st_AugAssign(self, s, st):
        if isinstance(s.target, ast.Name):
            load = ast.copy_location(ast.Name(id=s.target.id, ctx=ast.Load()), s)
        elif isinstance(s.target, ast.Attribute):
            load = ast.copy_location(ast.Attribute(value=s.target.value, attr=s.target.attr, ctx=ast.Load()), s)
        else:
            raise Unsupported("augassign target")
        bo = ast.copy_location(ast.BinOp(left=load, op=s.op, right=s.value), s)
        self._ord[id(bo)] = 1000 + self.ordinal(s)
        v = self.ev(bo, st)
        self.assign(s.target, v, st, s)
        return [(st, None)]

    def st_Assert(self, s, st):
        c = self.truthy(self.ev(s.test, st))
        self.may_raise("AssertionError", st, c, s)
        return [(st, None)]

    def st_Return(self, s, st):
        return [(st, ("return", self.ev(s.value, st) if s.value else NoneV()))]

    def st_Raise(self, s, st):
        name = "Exception"
        if s.exc is not None:
            e = s.exc.func if isinstance(s.exc, ast.Call) else s.exc
            name = ast.unparse(e).split(".")[-1]
        return [(st, ("raise", name))]

    def st_Break(self, s, st):
        return [(st, "break")]

    def st_Continue(self, s, st):
        return [(st, "continue")]

    def st_If(self, s, st):
        c = z3.simplify(self.truthy(self.ev(s.test, st)))
        if z3.is_true(c):
            return self.run(s.body, st)
        if z3.is_false(c):
            return self.run(s.orelse, st)
        a, b = st.fork(), st.fork()
        a.hyps.append(c)
        b.hyps.append(z3.Not(c))
        o = self._stmt_ord.get(id(s), 0)
        a.trace.append(f"T{o}.")
        b.trace.append(f"F{o}.")
        return self.run(s.body, a) + self.run(s.orelse, b)

    # ---- loops
    def _modified_names(self, s):
        names = set()
        for n in ast.walk(s):
            tgts = []
            if isinstance(n, ast.AugAssign):
                tgts = [n.target]
            elif isinstance(n, ast.Assign):
                tgts = n.targets
            elif isinstance(n, ast.For):
                tgts = [n.target]
            elif isinstance(n, ast.Call) and isinstance(n.func, ast.Attribute) and n.func.attr == "append" and isinstance(n.func.value, ast.Name):
                names.add(n.func.value.id)
            for t in tgts:
                stack = [t]
                while stack:  # only names that are themselves (re)bound: `a`, `(a, b)`; not the objects in `obj.attr = ...` / `x[i] = ...`
                    e = stack.pop()
                    if isinstance(e, ast.Name):
                        names.add(e.id)
                    elif isinstance(e, ast.Subscript) and isinstance(e.value, ast.Name) and isinstance(e.slice, ast.Slice):
                        names.add(e.value.id)  # b[lo:hi] = ... on a local bytearray rebinds the model value of b
                    elif isinstance(e, (ast.Tuple, ast.List)):
                        stack.extend(e.elts)
                    elif isinstance(e, ast.Starred):
                        stack.append(e.value)
        return sorted(names)

    def _snapshot_entry(self, st: State, s):
        """loop-entry values of the variables the loop modifies, available to invariants as ghost '@name'"""
        for m in self._modified_names(s):
            v = st.env.get(m)
            if isinstance(v, (IntV, BoolV)):
                st.ghost["@" + m] = v.e
            elif isinstance(v, ListV):
                st.ghost["@" + m] = v.joined
            elif isinstance(v, SetListV):
                st.ghost["@" + m] = v
        st.ghost["@io"] = st.ghost.get("io", z3.IntVal(0))

    def _havoc(self, st: State, s, spec: LoopSpec):
        for m in self._modified_names(s):
            shape = spec.shapes.get(m)
            old = st.env.get(m)
            if callable(shape):
                st.env[m] = shape(self, st)
            elif shape == "optint" or (shape is None and isinstance(old, (OptV, NoneV))):
                st.env[m] = OptV(fresh(m + "_isnone", B), IntV(fresh(m)))
            elif shape == "int" or (shape is None and isinstance(old, IntV)):
                st.env[m] = IntV(fresh(m))
            elif shape == "bool" or (shape is None and isinstance(old, BoolV)):
                st.env[m] = BoolV(fresh(m, B))
            elif shape == "bytes" or (shape is None and isinstance(old, ListV)):
                kind = old.kind if isinstance(old, ListV) else "bytes"
                st.env[m] = ListV(fresh_bytes(m), kind)
                st.hyps.append(st.env[m].joined.n >= 0)
            elif isinstance(old, SetListV):
                st.env[m] = SetListV(fresh(m + "_mem", z3.ArraySort(I, B)), fresh(m + "_n"))
            elif shape == "local" or old is None:
                st.env.pop(m, None)  # loop-local: assigned before use in every iteration
            else:
                raise Unsupported(f"havoc {m}:{type(old).__name__}")
        # attributes of `self` assigned in the loop body
        for n in ast.walk(s):
            tg = n.targets if isinstance(n, ast.Assign) else ([n.target] if isinstance(n, ast.AugAssign) else [])
            for t in tg:
                if isinstance(t, ast.Attribute) and isinstance(t.value, ast.Name) and t.value.id == "self":
                    key = f"self.{t.attr}"
                    cur = st.attrs.get(key)
                    if cur is None:
                        try:
                            cur = self.model.attr(self, st, "self", t.attr, n)
                        except Unsupported:
                            cur = None
                    if isinstance(cur, IntV) or cur is None:
                        st.attrs[key] = IntV(fresh(key))
                    else:
                        raise Unsupported(f"havoc of attribute {key}:{type(cur).__name__}")
        st.ghost["io"] = fresh("io")
        st.ghost["io_calls"] = fresh("io_calls")
        for g, shape in spec.ghost_havoc.items():
            if shape == "bytes":
                st.ghost[g] = fresh_bytes(g)
                st.hyps.append(st.ghost[g].n >= 0)
            elif shape == "array":
                st.ghost[g] = fresh(g, z3.ArraySort(I, I))
            else:
                st.ghost[g] = fresh(g)
        for name in list(st.filepos):
            st.filepos.pop(name)

    def _inv(self, spec, st, lname):
        if st.anchor_owner != lname:
            st.anchors = []
            st.anchor_owner = lname
        return spec.inv(self, st)

    def _loop_spec(self, s, kind):
        o = self.ordinal(s)
        spec = self.loops.get((kind, o))
        if spec is None:
            raise Unsupported(f"loop {kind}#{o}@{s.lineno} has no invariant in the sidecar")
        return spec, f"loop.{kind}{o}"

    def _havoc_loop(self, s, st):
        """gate mode: a loop without invariant is over-approximated: every variable / self attribute it assigns becomes unknown;
        the body is executed once from that state only to find the ways control can leave the function from inside the loop"""
        def hav(state):
            for m_ in self._modified_names(s):
                state.env[m_] = OpaqueV("loopvar")
            for n_ in ast.walk(s):
                tg = n_.targets if isinstance(n_, ast.Assign) else ([n_.target] if isinstance(n_, (ast.AugAssign, ast.AnnAssign)) else [])
                for t in tg:
                    if isinstance(t, ast.Attribute) and isinstance(t.value, ast.Name) and t.value.id == "self":
                        state.attrs[f"self.{t.attr}"] = OpaqueV("loopattr")
            for k in list(state.filepos):
                state.filepos.pop(k)

        skip = st.fork()
        hav(skip)
        body = st.fork()
        hav(body)
        if isinstance(s, ast.For):
            self.assign(s.target, OpaqueV("elem"), body, s)
        outs = [(skip, None)]
        for e, out in self.run(s.body, body):
            if out in (None, "continue", "break"):
                hav(e)
                outs.append((e, None))
            else:
                outs.append((e, out))
        return outs

    def st_While(self, s, st):
        if getattr(self.model, "gate_mode", False) and ("While", self.ordinal(s)) not in self.loops:
            return self._havoc_loop(s, st)
        spec, lname = self._loop_spec(s, "While")
        if s.orelse:
            raise Unsupported("while-else")
        self._snapshot_entry(st, s)
        self.ob(f"{lname}.init", st, self._inv(spec, st, lname), s, tag="")
        head = st.fork()
        self._havoc(head, s, spec)
        head.hyps.append(self._inv(spec, head, lname))
        var0 = spec.variant(self, head)
        c = self.truthy(self.ev(s.test, head))
        body, exit_ = head.fork(), head.fork()
        body.hyps.append(c)
        exit_.hyps.append(z3.Not(c))
        body.trace.append(f"L{self.ordinal(s)}.")
        outs = []
        for e, out in self.run(s.body, body):
            if out in (None, "continue"):
                if spec.ghost_step:
                    spec.ghost_step(self, e)
                self.ob(f"{lname}.preserved", e, self._inv(spec, e, lname), s, tag="")
                self.ob(f"{lname}.decreases", e, z3.And(var0 >= 0, spec.variant(self, e) < var0), s, tag="")
            elif out == "break":
                outs.append((e, None))
            else:
                outs.append((e, out))
        outs.append((exit_, None))
        return outs

    def st_For(self, s, st):
        if getattr(self.model, "gate_mode", False) and ("For", self.ordinal(s)) not in self.loops:
            pre = self.ev(s.iter, st)
            if not (isinstance(pre, TupleV) and len(pre.items) <= 16):
                return self._havoc_loop(s, st)
        if s.orelse:
            raise Unsupported("for-else")
        it = s.iter
        # for x in range(...)
        if isinstance(it, ast.Call) and isinstance(it.func, ast.Name) and it.func.id == "range" and "range" not in st.env:
            args = [self.as_int(self.ev(a, st), st, s) for a in it.args]
            if len(args) == 1:
                lo, hi = z3.IntVal(0), args[0]
            elif len(args) == 2:
                lo, hi = args
            else:
                raise Unsupported("range step")
            return self._for_index(s, st, lo, hi, lambda e, i: IntV(i))
        src = self.ev(it, st)
        if isinstance(src, TupleV) and len(src.items) <= 16:
            # loop over a literal tuple/list: unrolled exactly
            states = [(st, None)]
            done = []
            for el in src.items:
                nxt = []
                for cur, out in states:
                    self.assign(s.target, el, cur, s)
                    for e, o2 in self.run(s.body, cur):
                        if o2 in (None, "continue"):
                            nxt.append((e, None))
                        elif o2 == "break":
                            done.append((e, None))
                        else:
                            done.append((e, o2))
                states = nxt
            return done + states
        if isinstance(src, BytesV):
            return self._for_index(s, st, z3.IntVal(0), src.n, lambda e, i, src=src: IntV(src.at(i)))
        if isinstance(src, SeqV):
            return self._for_seq(s, st, src)
        if isinstance(src, ObjV):
            src2 = self.model.iter_(self, st, src.path, s)
            if isinstance(src2, SeqV):
                return self._for_seq(s, st, src2)
            if isinstance(src2, tuple) and src2[0] == "indexed":  # ("indexed", length, element_of(state, index))
                return self._for_index(s, st, z3.IntVal(0), src2[1], src2[2])
        raise Unsupported(f"for over {type(src).__name__}@{s.lineno}")

    def _for_index(self, s, st, lo, hi, elem_of):
        """for-loop over an index range [lo, hi): hidden index `$i<ordinal>`; invariant from the sidecar may use it."""
        o = self.ordinal(s)
        spec, lname = self._loop_spec(s, "For")
        iname = f"$i{o}"
        lo_s, hi_s = z3.simplify(lo), z3.simplify(hi)
        if spec.unroll:
            # loop bounded by a constant in the code: unroll `unroll` iterations, oblige that this suffices
            self.ob(f"{lname}.unroll_bound", st, hi - lo <= spec.unroll, s, tag="")
            states = [(st, None)]
            done = []
            for k in range(spec.unroll):
                nxt = []
                for cur, out in states:
                    idx = lo + k
                    ex, bd = cur.fork(), cur.fork()
                    ex.hyps.append(z3.Not(idx < hi))
                    done.append((ex, None))
                    bd.hyps.append(idx < hi)
                    bd.env[iname] = IntV(idx)
                    self.assign(s.target, elem_of(bd, idx), bd, s)
                    for e, o2 in self.run(s.body, bd):
                        if o2 in (None, "continue"):
                            nxt.append((e, None))
                        elif o2 == "break":
                            done.append((e, None))
                        else:
                            done.append((e, o2))
                states = nxt
            for cur, out in states:
                cur.hyps.append(z3.Not(lo + spec.unroll < hi))
                done.append((cur, None))
            return done
        st.env[iname] = IntV(lo)
        self._snapshot_entry(st, s)
        self.ob(f"{lname}.init", st, self._inv(spec, st, lname), s, tag="")
        head = st.fork()
        self._havoc(head, s, spec)
        i = fresh("i")
        head.env[iname] = IntV(i)
        head.hyps.append(z3.And(lo <= i, z3.Or(i <= hi, i == lo)))
        head.hyps.append(self._inv(spec, head, lname))
        body, exit_ = head.fork(), head.fork()
        body.hyps.append(i < hi)
        exit_.hyps.append(z3.Not(i < hi))
        body.trace.append(f"L{o}.")
        self.assign(s.target, elem_of(body, i), body, s)
        outs = []
        for e, out in self.run(s.body, body):
            if out in (None, "continue"):
                e.env[iname] = IntV(i + 1)
                if spec.ghost_step:
                    spec.ghost_step(self, e)
                self.ob(f"{lname}.preserved", e, self._inv(spec, e, lname), s, tag="")
            elif out == "break":
                outs.append((e, None))
            else:
                outs.append((e, out))
        outs.append((exit_, None))
        return outs

    def _for_seq(self, s, st, seq: SeqV):
        """for-loop over the element sequence of a function under contract (see SeqV)."""
        o = self.ordinal(s)
        spec, lname = self._loop_spec(s, "For")
        g = f"plen{o}"
        st.ghost[g] = z3.IntVal(0)
        self._snapshot_entry(st, s)
        self.ob(f"{lname}.init", st, self._inv(spec, st, lname), s, tag="")
        head = st.fork()
        spec2 = LoopSpec(spec.inv, spec.variant, spec.shapes, {**spec.ghost_havoc, g: "int"}, 0, spec.ghost_step)
        self._havoc(head, s, spec2)
        plen = head.ghost[g]
        head.hyps.append(z3.And(plen >= 0, plen <= seq.total))
        head.hyps.append(self._inv(spec, head, lname))
        body, exit_ = head.fork(), head.fork()
        body.hyps.append(plen < seq.total)
        exit_.hyps.append(plen == seq.total)
        body.trace.append(f"L{o}.")
        el = seq.elem()
        body.hyps.append(seq.ok(el, plen))
        self.assign(s.target, el, body, s)
        adv = seq.size(el)
        outs = []
        for e, out in self.run(s.body, body):
            if out in (None, "continue"):
                e.ghost[g] = plen + adv
                if spec.ghost_step:
                    spec.ghost_step(self, e)
                self.ob(f"{lname}.preserved", e, self._inv(spec, e, lname), s, tag="")
            elif out == "break":
                outs.append((e, None))
            else:
                outs.append((e, out))
        outs.append((exit_, None))
        return outs

    def st_With(self, s, st):
        # context managers are ignored (locks: A1 single-threaded; the managed object is evaluated for its obligations)
        for it in s.items:
            v = self.ev(it.context_expr, st)
            if it.optional_vars is not None:
                self.assign(it.optional_vars, v, st, s)
        return self.run(s.body, st)

    def st_Try(self, s, st):
        # try/except: exceptions raised in the body that match a handler continue in the handler
        if s.finalbody or s.orelse:
            raise Unsupported("try-finally/else")
        handlers = {}
        for h in s.handlers:
            if h.type is None:
                names = ["*"]
            elif isinstance(h.type, ast.Tuple):
                names = [ast.unparse(e).split(".")[-1] for e in h.type.elts]
            else:
                names = [ast.unparse(h.type).split(".")[-1]]
            for nm in names:
                handlers[nm] = h
        saved = self.allow_exc
        self.allow_exc = "*" if ("*" in handlers or "Exception" in handlers) else tuple(set(saved if saved != "*" else ()) | set(handlers)) if saved != "*" else "*"
        try:
            res = self.run(s.body, st)
        finally:
            self.allow_exc = saved
        outs = []
        for e, out in res:
            if isinstance(out, tuple) and out[0] == "raise":
                h = handlers.get(out[1]) or next((handlers[b_] for b_ in EXC_BASES.get(out[1], ()) if b_ in handlers), None) or handlers.get("Exception") or handlers.get("*")
                if h is not None:
                    outs.extend(self.run(h.body, e))
                    continue
                if not self.allows(out[1]):
                    self.ob(f"noraise.{out[1]}", e, z3.BoolVal(False), s)
                    continue
            outs.append((e, out))
        return outs


# builtin exception hierarchy (proper bases, nearest first) for `except` matching
EXC_BASES = {"UnicodeDecodeError": ("UnicodeError", "ValueError"), "UnicodeEncodeError": ("UnicodeError", "ValueError"), "UnicodeError": ("ValueError",), "KeyError": ("LookupError",),
             "IndexError": ("LookupError",), "ZeroDivisionError": ("ArithmeticError",), "OverflowError": ("ArithmeticError",), "FileNotFoundError": ("OSError",),
             "NotImplementedError": ("RuntimeError",), "binascii.Error": ("ValueError",), "JSONDecodeError": ("ValueError",)}


# ------------------------------------------------------------------------------------------------ source access
def find_function(repo, relpath, qualname):
    """Locate a function in the repository's *current* source file.  Returns (FunctionDef, source text)."""
    import os

    src = open(os.path.join(repo, relpath)).read()
    tree = ast.parse(src)
    from . import alpha as _alpha

    renamed_fns = _alpha.restore_module(tree, relpath)  # renamed helpers back to the names the contracts use (pyvc/alpha.py)
    parts = qualname.split(".")
    body = tree.body
    node = None
    for p in parts:
        node = None
        for n in body:
            if isinstance(n, (ast.FunctionDef, ast.ClassDef, ast.AsyncFunctionDef)) and n.name == p:
                node = n
                break
        if node is None:
            raise Unsupported(f"{relpath}:{qualname} not found")
        body = node.body
    seg = ast.get_source_segment(src, node) if not renamed_fns else ast.unparse(node)
    if isinstance(node, (ast.FunctionDef, ast.AsyncFunctionDef)):
        from . import alpha

        if alpha.restore(node, relpath, qualname):  # locals renamed back to the names the contracts use (alpha-conversion)
            seg = ast.unparse(node)
    return node, seg


def stmt_ordinal(fn_node, pred):
    """ordinal (as used for ghost_asserts) of the first statement of fn_node satisfying pred"""
    c = 0
    for n in ast.walk(fn_node):
        if isinstance(n, ast.stmt):
            if pred(n):
                return c
            c += 1
    return None


def find_module_constant(repo, relpath, name):
    import os

    tree = ast.parse(open(os.path.join(repo, relpath)).read())
    for n in tree.body:
        if isinstance(n, ast.Assign) and any(isinstance(t, ast.Name) and t.id == name for t in n.targets):
            return n.value
    return None
