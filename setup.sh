#!/bin/sh
# Offline set-up of the verification interpreter: a 3.12 venv (same interpreter as /venv, which has the
# repository's dependencies) + z3-solver / cvc5 / jsonschema / crosshair-tool / deal from the local wheelhouse.
# Idempotent; ~15 s.  Nothing is fetched from a network.
set -e
cd "$(dirname "$0")"
V=.venv
if [ ! -x "$V/bin/python" ] || ! "$V/bin/python" -c "import z3, jsonschema, dissect.cstruct" >/dev/null 2>&1; then
    rm -rf "$V"
    /venv/bin/python -m venv "$V"
    PIP_NO_INDEX=1 "$V/bin/pip" install -q --no-index --find-links /opt/veriftools/wheels \
        z3-solver cvc5 jsonschema crosshair-tool deal icontract hypothesis >/dev/null
    SP=$("$V/bin/python" -c "import sysconfig; print(sysconfig.get_paths()['purelib'])")
    # the repository's third-party dependencies (dissect.cstruct, dissect.util, defusedxml, pycryptodome ...) come from /venv
    echo "import site; site.addsitedir('/venv/lib/python3.12/site-packages')" > "$SP/zz_repo_deps.pth"
fi
"$V/bin/python" -c "import z3, jsonschema, dissect.cstruct, dissect.util; print('verif venv ok: z3', z3.get_version_string())"
