"""VHDX builder + executable specification ([MS-VHDX]).
spec: {"ss", "bs", "nblocks", "size", "states": [0|1|2|3|6|7,...], "slots": [MiB offset per block,...], "bitmaps": {"blk": [0/1 per sector]},
       "sb_slots": {"chunk": MiB offset}, "parent": spec|None, "seq": [s1, s2], "on_disk": bool}"""
from __future__ import annotations

import os
import random
import struct
import tempfile
import uuid

from .sparsefile import SparseFile

MB = 1 << 20
G_BAT = uuid.UUID("2DC27766-F623-4200-9D64-115E9BFD4A08")
G_META = uuid.UUID("8B7CA206-4790-4B9A-B8FE-575F050F886E")
G_FILE_PARAMS = uuid.UUID("CAA16737-FA36-4D43-B3B6-33F0AA44E76B")
G_SIZE = uuid.UUID("2FA54224-CD1B-4876-B211-5DBED83BF4B8")
G_LSS = uuid.UUID("8141BF1D-A96F-4709-BA47-F233A8FAAB5F")
G_PSS = uuid.UUID("CDA348C7-445D-4471-9CC9-E9885251C556")
G_ID = uuid.UUID("BECA12AB-B2E6-4523-93EF-C309E000C746")
G_PLOC = uuid.UUID("A8D35F2D-B30B-454D-ABF7-D3D84834AB0C")
G_VHDX_PLOC = uuid.UUID("B04AEFB7-D19E-4A81-B789-25B8E9445913")


def pattern_bytes(layer, blk, start, n):
    base = 23 * (layer + 1) + 11 * (blk + 1)
    return bytes(((base + j + 7 * (j >> 9) + 3 * (j >> 16)) & 0xFF) or 1 for j in range(start, start + n))


def chunk_ratio(spec):
    return ((1 << 23) * spec["ss"]) // spec["bs"]


def bat_index_pb(spec, b):
    return b + b // chunk_ratio(spec)


def bat_index_sb(spec, chunk):
    cr = chunk_ratio(spec)
    return (chunk + 1) * cr + chunk


def _norm(spec):
    if isinstance(spec.get("states"), dict):
        spec = dict(spec, states=_Sparse(spec["states"], 0, spec["nblocks"]), slots=_Sparse(spec["slots"], 0, spec["nblocks"]))
    return spec


def layout(spec, layer=0):
    """list of (offset, bytes | (length, fn))"""
    spec = _norm(spec)
    ss, bs, n = spec["ss"], spec["bs"], spec["nblocks"]
    cr = chunk_ratio(spec)
    has_parent = bool(spec.get("parent"))
    out = []
    out.append((0, b"vhdxfile" + b"\x00" * 8))
    s1, s2 = spec.get("seq", [1, 2])
    for off, seq in ((64 * 1024, s1), (128 * 1024, s2)):
        out.append((off, b"head" + struct.pack("<IQ", 0, seq) + b"\x00" * 48 + struct.pack("<HHIQ", 0, 1, 0, 0)))
    nchunks = (n + cr - 1) // cr
    entries = (nchunks * (cr + 1)) if has_parent else (n + (n - 1) // cr if n else 0)
    bat_off = 2 * MB
    bat_len = max(MB, (entries * 8 + MB - 1) // MB * MB)
    meta_off = 1 * MB
    base = (bat_off + bat_len) // MB  # slot numbers in the spec are relative to the first MiB after the BAT region
    # region table (both copies)
    rt = b"regi" + struct.pack("<II", 0, 2) + b"\x00" * 4
    rt += G_BAT.bytes_le + struct.pack("<QII", bat_off, bat_len, 1)
    rt += G_META.bytes_le + struct.pack("<QII", meta_off, MB, 1)
    out.append((192 * 1024, rt))
    out.append((256 * 1024, rt))
    # metadata region
    items = [(G_FILE_PARAMS, struct.pack("<II", bs, 2 if has_parent else 0)), (G_SIZE, struct.pack("<Q", spec["size"])), (G_LSS, struct.pack("<I", ss)),
             (G_PSS, struct.pack("<I", 4096)), (G_ID, uuid.UUID(int=0x1234 + layer).bytes_le)]
    if has_parent:
        kv = [("relative_path", spec["parent_name"]), ("parent_linkage", "{00000000-0000-0000-0000-000000000000}")]
        hdr = G_VHDX_PLOC.bytes_le + struct.pack("<HH", 0, len(kv))
        body = b""
        ents = b""
        base = len(hdr) + 12 * len(kv)
        for k_, v_ in kv:
            kb, vb = k_.encode("utf-16-le"), v_.encode("utf-16-le")
            ents += struct.pack("<IIHH", base + len(body), base + len(body) + len(kb), len(kb), len(vb))
            body += kb + vb
        items.append((G_PLOC, hdr + ents + body))
    mh = b"metadata" + b"\x00" * 2 + struct.pack("<H", len(items)) + b"\x00" * 20
    data_off = 64 * 1024
    table = b""
    blob = b""
    for g, d in items:
        table += g.bytes_le + struct.pack("<III", data_off + len(blob), len(d), 0b110 if g != G_PLOC else 0b100) + b"\x00" * 4
        blob += d
    out.append((meta_off, mh + table))
    out.append((meta_off + data_off, blob))
    # BAT
    sparse = isinstance(spec["states"], (_Sparse, dict))
    blocks = sorted(int(k) for k in (spec["states"].d if isinstance(spec["states"], _Sparse) else spec["states"])) if sparse else range(n)
    bat = {} if sparse else bytearray(entries * 8)
    for b in blocks:
        st = spec["states"][b]
        off = base + spec["slots"][b] if st >= 6 else 0
        if sparse:
            bat[bat_index_pb(spec, b) * 8] = struct.pack("<Q", (off << 20) | st)
        else:
            struct.pack_into("<Q", bat, bat_index_pb(spec, b) * 8, (off << 20) | st)
    for ch_s, mboff in spec.get("sb_slots", {}).items():
        idx = bat_index_sb(spec, int(ch_s))
        if idx * 8 + 8 <= len(bat):
            struct.pack_into("<Q", bat, idx * 8, ((base + mboff) << 20) | 6)
    if sparse:
        for i, v in bat.items():
            out.append((bat_off + i, v))
    else:
        nz = [i for i in range(0, len(bat), 8) if bat[i:i + 8] != b"\x00" * 8]
        for i in nz:  # only the non-zero entries (differencing files with tiny blocks have a chunk ratio of millions)
            out.append((bat_off + i, bytes(bat[i:i + 8])))
    spb = bs // ss
    for b in blocks:
        st = spec["states"][b]
        if st >= 6:
            out.append(((base + spec["slots"][b]) * MB, (bs, (lambda start, cnt, b=b: pattern_bytes(layer, b, start, cnt)))))
    # sector bitmaps
    for ch_s, mboff in spec.get("sb_slots", {}).items():
        ch = int(ch_s)
        buf = bytearray((cr * spb + 7) // 8) if cr * spb <= (1 << 23) else bytearray(MB)
        for b_s, (per, ph) in spec.get("bitmap_rules", {}).items():  # compact bitmaps of huge blocks: bit i = ((i + ph) // per) % 2
            b = int(b_s)
            if b // cr != ch:
                continue
            import math

            L = math.lcm(2 * per, 8)
            chunk = bytearray(L // 8)
            for i in range(L):
                if ((i + ph) // per) % 2:
                    chunk[i // 8] |= 1 << (i % 8)
            start = ((b % cr) * spb) // 8
            nbytes = spb // 8
            buf[start:start + nbytes] = (bytes(chunk) * (nbytes // len(chunk) + 1))[:nbytes]
        for b_s, bits in spec.get("bitmaps", {}).items():
            b = int(b_s)
            if b // cr != ch:
                continue
            for i, bit in enumerate(bits):
                sic = (b % cr) * spb + i
                if bit:
                    buf[sic // 8] |= 1 << (sic % 8)
        out.append(((base + mboff) * MB, bytes(buf)))
    return out


def build(spec, layer=0):
    f = SparseFile()
    top = 0
    for off, d in layout(spec, layer):
        if isinstance(d, tuple):
            f.put_fn(off, d[0], d[1])
            top = max(top, off + d[0])
        else:
            f.put(off, d)
            top = max(top, off + len(d))
    f.set_size((top + MB - 1) // MB * MB + MB)
    return f


def write_disk(spec, path, layer=0):
    with open(path, "wb") as fh:
        top = 0
        for off, d in layout(spec, layer):
            fh.seek(off)
            if isinstance(d, tuple):
                if d[0] > (8 << 20):
                    # huge block in a real (sparse) file: only the windows the request grid of large-block disks touches are written
                    # (first MiB, the MiB around the middle, last MiB); everything else stays a hole
                    for w0 in (0, d[0] // 2 - (MB // 2), d[0] - MB):
                        fh.seek(off + w0)
                        fh.write(d[1](w0, MB))
                else:
                    fh.write(d[1](0, d[0]))
                top = max(top, off + d[0])
            else:
                fh.write(d)
                top = max(top, off + len(d))
        fh.truncate((top + MB - 1) // MB * MB + MB)


def guest_bytes(spec, off, n, layer=0):
    """guest bytes [off, off+n) (off+n <= size)"""
    spec = _norm(spec)
    ss, bs = spec["ss"], spec["bs"]
    spb = bs // ss
    out = bytearray()
    x = off
    end = off + n
    while x < end:
        b = x // bs
        sib = (x % bs) // ss
        take = min(end - x, ss - x % ss)
        st = spec["states"][b]
        if st == 6:
            out += pattern_bytes(layer, b, x % bs, take)
        elif st == 7:
            rule = spec.get("bitmap_rules", {}).get(str(b))
            bit = (((sib + rule[1]) // rule[0]) % 2) if rule else spec["bitmaps"][str(b)][sib]
            out += pattern_bytes(layer, b, x % bs, take) if bit else guest_bytes(spec["parent"], x, take, layer + 1)
        elif st == 0 and spec.get("parent"):
            out += guest_bytes(spec["parent"], x, take, layer + 1)
        else:
            out += b"\x00" * take
        x += take
    return bytes(out)


def oracle(spec, off, length):
    end = min(off + length, spec["size"])
    return guest_bytes(spec, off, end - off) if off < end else b""


_TMP = []


def open_real(fh, spec):
    from dissect.hypervisor.disk.vhdx import VHDX

    if not spec.get("parent"):
        return VHDX(fh)
    from pathlib import Path

    d = tempfile.mkdtemp(prefix="vhdx_replay_")
    _TMP.append(d)
    cur, layer, name = spec, 0, "child.vhdx"
    while cur is not None:
        write_disk(cur, os.path.join(d, name), layer)
        name = cur.get("parent_name")
        cur = cur.get("parent")
        layer += 1
    import atexit
    import shutil

    atexit.register(shutil.rmtree, d, True)
    return VHDX(Path(d) / "child.vhdx")


def sector_api(stream, spec):
    return stream.read_sectors, spec["ss"]


def _mk(rng, ss, bs, n, size, differencing, depth=0):
    spb = bs // ss
    states = []
    for _ in range(n):
        r = rng.random()
        if differencing:
            states.append(6 if r < 0.3 else 7 if r < 0.6 else 0 if r < 0.85 else rng.choice([1, 2, 3]))
        else:
            states.append(6 if r < 0.6 else rng.choice([0, 1, 2, 3]))
    cr = ((1 << 23) * ss) // bs
    mbs_per_block = (bs + MB - 1) // MB
    order = list(range(n))
    rng.shuffle(order)
    slots = [4 + order[b] * mbs_per_block for b in range(n)]
    sp = {"ss": ss, "bs": bs, "nblocks": n, "size": size, "states": states, "slots": slots, "seq": rng.choice([[1, 2], [5, 3], [7, 7]])}
    if differencing:
        nch = (n + cr - 1) // cr
        sp["sb_slots"] = {str(c): 4 + n * mbs_per_block + c for c in range(nch)}
        sp["bitmaps"] = {}
        for b in range(n):
            if states[b] == 7:
                mode = rng.random()
                sp["bitmaps"][str(b)] = [1 if (mode < 0.2) else 0 if mode < 0.3 else rng.choice([0, 1]) if mode < 0.7 else (1 if (i // rng.choice([3, 8, 9])) % 2 else 0) for i in range(spb)]
    return sp


def gen_specs(rng: random.Random, n, hints=None):
    out = []
    for i in range(n):
        ss = rng.choice([512, 512, 4096])
        kind = rng.random()
        if kind < 0.12:
            # large blocks: chunk interleaving of sector-bitmap entries in the BAT (chunk ratio 16 or 128), multi-GiB offsets
            bs = 1 << 28
            nb = rng.choice([17, 18, 33]) if ss == 512 else 3
            size = nb * bs - rng.choice([0, ss * 5])
            out.append(_mk(rng, ss, bs, nb, size, False))
            continue
        spb = rng.choice([1, 2, 3, 4, 8, 16, 20])
        bs = spb * ss
        nb = rng.randint(1, 5)
        size = nb * bs - (ss * rng.randint(0, spb - 1) if rng.random() < 0.3 else 0)
        diff = kind > 0.6
        sp = _mk(rng, ss, bs, nb, max(ss, size), diff)
        if diff:
            sp["parent_name"] = "parent1.vhdx"
            par = _mk(rng, ss, bs, nb, sp["size"], rng.random() < 0.4)
            sp["parent"] = par
            if "bitmaps" in par:
                par["parent_name"] = "parent2.vhdx"
                par["parent"] = _mk(rng, ss, bs, nb, sp["size"], False)
        out.append(sp)
    # always: one disk with more payload blocks than the chunk ratio whose block states change exactly at the chunk boundaries (a run of
    # empty blocks up to the boundary, a present block right after the interleaved sector-bitmap entry)
    bs = 1 << 28
    cr = ((1 << 23) * 512) // bs
    nb = rng.choice([cr + 2, 2 * cr + 1])
    sp = _mk(rng, 512, bs, nb, nb * bs - rng.choice([0, 512 * 5]), False)
    for c in range(1, (nb + cr - 1) // cr):
        if c * cr < nb:
            sp["states"][c * cr - 2] = rng.choice([0, 2, 3])
            sp["states"][c * cr - 1] = 0 if c == 1 else rng.choice([0, 1, 2, 3])  # state 0 is also what the interleaved entry of a non-differencing disk holds
            sp["states"][c * cr] = 6
    out.append(sp)
    # always: a differencing disk with more payload blocks than the chunk ratio and partially present blocks in the first AND in a later
    # chunk (the sector-bitmap entry of chunk c sits at BAT index (c + 1) * chunk_ratio + c, after that chunk's payload entries)
    nb = cr + 2
    sp = _mk(rng, 512, bs, nb, nb * bs, True)
    spb = bs // 512
    for b in range(nb):
        if sp["states"][b] == 7 and b not in (1, cr + 1):
            sp["states"][b] = rng.choice([0, 6])
            sp["bitmaps"].pop(str(b), None)
    for b in (1, cr + 1):
        sp["states"][b] = 7
        per = rng.choice([3, 8, 9, 64])
        ph = rng.randrange(per)
        sp.setdefault("bitmap_rules", {})[str(b)] = [per, ph]
        sp["bitmaps"].pop(str(b), None)
    sp["parent_name"] = "parent1.vhdx"
    sp["parent"] = _mk(rng, 512, bs, nb, sp["size"], False)
    out.append(sp)
    return out


def big_specs():
    """C13: payload blocks at file offsets beyond 2^32 bytes, beyond 1 TiB (FileOffsetMB >= 2^20) and at 40 TiB; 64 TiB virtual size"""
    bs = 1 << 25
    n = 1 << 21
    states = {0: 6, 3: 6, 7: 6, 1000: 6, n - 1: 6}
    slots = {0: 4, 3: 96, 7: (1 << 20) + 96, 1000: (2 << 20) + 4096, n - 1: 40 << 20}
    sp = {"ss": 512, "bs": bs, "nblocks": n, "size": n * bs, "states": {str(k): v for k, v in states.items()}, "slots": {str(k): v for k, v in slots.items()}, "seq": [3, 9]}
    sp["requests"] = [[b * bs + o, ln] for b in (0, 3, 7, 1000, n - 1) for o, ln in ((0, 4096), (bs - 1000, 900), (12345, 70000))] + [[5 * bs, 8192]]
    return [sp]


class _Sparse:
    """list-like with a default (keeps a 2^21-entry table out of memory and out of the JSON job)"""

    def __init__(self, d, default, n):
        self.d, self.default, self.n = {int(k): v for k, v in d.items()}, default, n

    def __getitem__(self, i):
        return self.d.get(int(i), self.default)

    def __len__(self):
        return self.n


def requests(spec, rng, limit=40):
    size, ss, bs = spec["size"], spec["ss"], spec["bs"]
    if bs >= (1 << 20):
        # requests around block boundaries only (blocks are huge)
        reqs = []
        for b in rng.sample(range(spec["nblocks"]), min(6, spec["nblocks"])):
            base = b * bs
            for o, l in ((base, 3 * ss), (base + bs - 2 * ss, 4 * ss), (base + 5 * ss + 17, 700)):
                if o < size:
                    reqs.append((o, l))
        reqs.append((size - 3 * ss, 10 * ss))
        for b_s in list(spec.get("bitmaps", {})) + list(spec.get("bitmap_rules", {})):  # partially present blocks: sector runs at the start, somewhere inside and at the end of the block
            base = int(b_s) * bs
            for o in (0, 5 * ss, 70 * ss + 3, bs // 2 - 9 * ss, bs - 20 * ss):
                reqs += [(base + o, 21 * ss), (base + o + 100, 1500)]
        cr = ((1 << 23) * ss) // bs
        for c in range(1, spec["nblocks"] // cr + 1):  # every crossing of a chunk boundary (the BAT has an interleaved entry there)
            if c * cr < spec["nblocks"]:
                reqs += [(c * cr * bs - 2 * ss, 4 * ss), (c * cr * bs - 700, 1500), (c * cr * bs - 16384, 32768)]
        return reqs
    reqs = [(0, size), (0, size + 100), (size, 10)]
    ns = size // ss
    pairs = [(a, b) for a in range(ns + 1) for b in range(a, ns + 1)]
    rng.shuffle(pairs)
    reqs += [(a * ss, (b - a) * ss) for a, b in pairs[:limit]]
    for _ in range(10):
        o = rng.randint(0, size)
        reqs.append((o, rng.randint(0, size - o + 5)))
    return reqs


def sector_requests(spec, rng, limit=25):
    size, ss, bs = spec["size"], spec["ss"], spec["bs"]
    if bs >= (1 << 20):
        cr = ((1 << 23) * ss) // bs
        return [(b * (bs // ss) - 2, 5) for b in list(range(1, min(spec["nblocks"], 4))) + [c * cr for c in range(1, spec["nblocks"] // cr + 1) if c * cr < spec["nblocks"]]]
    ns = (size + ss - 1) // ss
    pairs = [(a, b) for a in range(ns + 1) for b in range(a + 1, ns + 1)]
    rng.shuffle(pairs)
    return [(a, b - a) for a, b in pairs[:limit]]
