"""VHD builder + executable specification (oracle) for replay and the bounded stand-in.
Spec of an abstract image: {"kind": "dynamic"|"fixed", "spb", "nblocks", "size", "bat": [slot|None,...], "footer511": bool}"""
from __future__ import annotations

import random

from .sparsefile import SparseFile


def pattern(slot, j):
    return (17 * (slot + 1) + j + 7 * (j >> 8) + 3 * (j >> 16)) & 0xFF


def bm_sectors(spb):  # SPEC: ceil(ceil(spb/8)/512)
    return ((spb + 7) // 8 + 511) // 512


def build(spec):
    from dissect.hypervisor.disk.c_vhd import c_vhd

    f = SparseFile()
    if spec["kind"] == "fixed":
        size = spec["size"]
        f.put(0, bytes(pattern(0, j) for j in range(size)))
        footer = c_vhd.footer(cookie=b"conectix", features=2, version=0x10000, data_offset=0xFFFFFFFFFFFFFFFF, current_size=size,
                              original_size=size, disk_type=2)
        raw = footer.dumps()
        raw = raw + b"\x00" * (512 - len(raw)) if not spec.get("footer511") else raw
        if spec.get("footer511"):
            raw = bytearray(raw)
            raw[8:12] = (0).to_bytes(4, "big")  # features bit 1 clear: legacy 511-byte footer
            raw = bytes(raw)
        f.put(size, raw)
        return f
    spb, n = spec["spb"], spec["nblocks"]
    bs = spb * 512
    bm = bm_sectors(spb)
    table_off = spec.get("table_offset", 1536)
    bat_bytes = b""
    if isinstance(spec["bat"], dict):  # sparse description of a huge table: {block index: slot}
        spec = dict(spec, bat=[spec["bat"].get(str(i)) for i in range(n)])
    slots = [s for s in spec["bat"] if s is not None]
    data_start = (table_off + 4 * n + 511) // 512
    data_start += spec.get("data_gap", 0)
    bat_bytes = b"".join((0xFFFFFFFF if b is None else data_start + b * (bm + spb)).to_bytes(4, "big") for b in spec["bat"])
    f.put(table_off, bat_bytes)
    for s in slots:
        base = (data_start + s * (bm + spb)) * 512
        f.put(base, b"\xff" * (bm * 512))
        f.put_fn(base + bm * 512, bs, lambda start, n, s=s: bytes(pattern(s, j) for j in range(start, start + n)))
    nslots = (max(slots) + 1) if slots else 0
    end = (data_start + nslots * (bm + spb)) * 512
    footer = c_vhd.footer(cookie=b"conectix", features=0 if spec.get("footer511") else 2, version=0x10000, data_offset=512,
                          current_size=spec["size"], original_size=spec["size"], disk_type=3)
    hdr = c_vhd.dynamic_header(cookie=b"cxsparse", data_offset=0xFFFFFFFFFFFFFFFF, table_offset=table_off, header_version=0x10000,
                               max_table_entries=n, block_size=bs)
    fraw = footer.dumps()
    f.put(0, fraw + b"\x00")
    f.put(512, hdr.dumps())
    f.put(end, fraw if spec.get("footer511") else fraw + b"\x00")
    return f


def oracle(spec, off, length):
    size = spec["size"]
    end = min(off + length, size)
    if off >= end:
        return b""
    out = bytearray()
    if spec["kind"] == "fixed":
        return bytes(pattern(0, j) for j in range(off, end))
    bs = spec["spb"] * 512
    bat = spec["bat"]
    for x in range(off, end):
        slot = bat.get(str(x // bs)) if isinstance(bat, dict) else bat[x // bs]
        out.append(0 if slot is None else pattern(slot, x % bs))
    return bytes(out)


def big_specs():
    """C13: 2 TiB virtual disk, 2 MiB blocks, allocated blocks placed close to the 2^32-sector limit of the BAT entries"""
    n = 1 << 20
    return [{"kind": "dynamic", "spb": 4096, "nblocks": n, "size": n * 4096 * 512, "bat": {"0": 3, "7": 1040000, str(n - 1): 1047000, "524288": 2}, "footer511": False, "data_gap": 0,
             "requests": [[0, 4096], [7 * 2097152 + 2097000, 1000], [(n - 1) * 2097152 + 100, 70000], [524288 * 2097152 - 512, 2048], [5 * 2097152, 1 << 20]]}]


def open_real(fh, spec):
    from dissect.hypervisor.disk.vhd import VHD

    return VHD(fh)


def sector_api(stream, spec):
    """(callable(sector, count) -> bytes, sector size) for the sector-addressed interface"""
    return stream.disk.read_sectors, 512


def gen_specs(rng: random.Random, n, hints=None):
    hints = hints or {}
    out = []
    for i in range(n):
        if rng.random() < 0.15:
            out.append({"kind": "fixed", "size": 512 * rng.randint(1, 12), "footer511": rng.random() < 0.4})
            continue
        spb = hints.get("spb") if (hints.get("spb") and rng.random() < 0.5) else rng.choice([1, 2, 3, 4, 8, 8, 16, 24])
        nb = rng.randint(1, 6)
        slots = list(range(nb))
        rng.shuffle(slots)
        bat = [s if rng.random() < 0.7 else None for s in slots]
        size = nb * spb * 512 - (512 * rng.randint(0, max(0, spb - 1)) if rng.random() < 0.4 else 0)
        out.append({"kind": "dynamic", "spb": spb, "nblocks": nb, "size": max(512, size), "bat": bat, "footer511": rng.random() < 0.3,
                    "data_gap": rng.choice([0, 0, 1, 5])})
    # always: a disk with several thousand BAT entries (one-sector blocks keep it small), allocated blocks on both sides of entry 4096 and
    # at the very end: table entries far from the start of the BAT must be looked up at offset + 4 * index like the first ones
    nb = rng.choice([4100, 4200, 5000])
    key = sorted({0, 1, 1000, 3071, 3072, 4094, 4095, 4096, 4097, nb - 2, nb - 1} | {rng.randrange(nb) for _ in range(6)})
    slots = list(range(len(key)))
    rng.shuffle(slots)
    bat = [None] * nb
    for b, s_ in zip(key, slots):
        bat[b] = s_
    out.append({"kind": "dynamic", "spb": 1, "nblocks": nb, "size": nb * 512, "bat": bat, "footer511": False, "data_gap": 0, "many": key})
    return out


def requests(spec, rng, limit=60):
    size = spec["size"]
    unit = 512
    if spec.get("many"):
        reqs = [(0, size)]
        for b in spec["many"]:
            reqs += [(b * 512, 512), (max(0, b - 1) * 512 + 100, 1000), (max(0, b - 2) * 512, 5 * 512)]
        return reqs
    ns = size // unit
    reqs = [(0, size), (0, size + 100)]
    pairs = [(a, b) for a in range(ns + 1) for b in range(a, ns + 1)]
    rng.shuffle(pairs)
    for a, b in pairs[:limit]:
        reqs.append((a * unit, (b - a) * unit))
    for _ in range(10):
        o = rng.randint(0, size)
        reqs.append((o, rng.randint(0, size - o + 5)))
    return reqs
