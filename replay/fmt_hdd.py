"""Parallels .hdd directory builder (DiskDescriptor.xml + plain / expanding images) + oracle.
spec: {"storages": [{"start", "end", "kind": "plain"|"hds", "hds": <fmt_hds spec>}...] in LISTED order, "size"}"""
from __future__ import annotations

import os
import random
import tempfile

from . import fmt_hds

GUID = "{5fbaabe3-6958-40ff-92a7-860e329aab41}"


def pattern(idx, j):
    return ((41 * (idx + 1) + j + 3 * (j >> 9)) & 0xFF) or 1


def build(spec):
    return None


def open_real(fh, spec):
    from pathlib import Path

    from dissect.hypervisor.disk.hdd import HDD

    d = tempfile.mkdtemp(prefix="hdd_replay_")
    import atexit
    import shutil

    atexit.register(shutil.rmtree, d, True)
    root = os.path.join(d, "disk.hdd")
    os.mkdir(root)
    xml = ['<?xml version="1.0" encoding="UTF-8"?>', "<Parallels_disk_image><Disk_Parameters><Disk_size>%d</Disk_size></Disk_Parameters><StorageData>" % (spec["size"] // 512)]
    for i, s in enumerate(spec["storages"]):
        name = f"disk.hdd.{i}.{GUID}.hds"
        n = (s["end"] - s["start"]) * 512
        if s["kind"] == "plain":
            with open(os.path.join(root, name), "wb") as f:
                f.write(bytes(pattern(i, j) for j in range(n)))
        else:
            sf = fmt_hds.build(s["hds"])
            with open(os.path.join(root, name), "wb") as f:
                sf.seek(0)
                f.write(sf.read())
        xml.append(f"<Storage><Start>{s['start']}</Start><End>{s['end']}</End><Blocksize>8</Blocksize><Image><GUID>{GUID}</GUID><Type>{'Plain' if s['kind'] == 'plain' else 'Compressed'}</Type><File>{name}</File></Image></Storage>")
    xml.append(f"</StorageData><Snapshots><Shot><GUID>{GUID}</GUID><ParentGUID>{{00000000-0000-0000-0000-000000000000}}</ParentGUID></Shot></Snapshots></Parallels_disk_image>")
    with open(os.path.join(root, "DiskDescriptor.xml"), "w") as f:
        f.write("".join(xml))
    return HDD(Path(root)).open()


def oracle(spec, off, length):
    end = min(off + length, spec["size"])
    out = bytearray()
    x = off
    while x < end:
        for i, s in enumerate(spec["storages"]):
            if s["start"] * 512 <= x < s["end"] * 512:
                rel = x - s["start"] * 512
                take = min(end, s["end"] * 512) - x
                if s["kind"] == "plain":
                    out += bytes(pattern(i, j) for j in range(rel, rel + take))
                else:
                    out += fmt_hds.oracle(s["hds"], rel, take)
                x += take
                break
        else:
            raise AssertionError("offset outside every storage")
    return bytes(out)


def gen_specs(rng: random.Random, n, hints=None):
    out = []
    for _ in range(n):
        k = rng.randint(1, 4)
        cur = 0
        sts = []
        for i in range(k):
            if rng.random() < 0.6:
                ln = rng.randint(1, 12)
                sts.append({"start": cur, "end": cur + ln, "kind": "plain"})
            else:
                h = fmt_hds.gen_specs(rng, 1)[0]
                h.pop("parent", None)
                ln = h["size_sectors"]
                sts.append({"start": cur, "end": cur + ln, "kind": "hds", "hds": h})
            cur += ln
        rng.shuffle(sts)  # storages may be listed in any order in DiskDescriptor.xml
        out.append({"storages": sts, "size": cur * 512})
    return out


def requests(spec, rng, limit=40):
    size = spec["size"]
    reqs = [(0, size), (0, size + 100), (size, 10)]
    ns = size // 512
    pairs = [(a, b) for a in range(ns + 1) for b in range(a, ns + 1)]
    rng.shuffle(pairs)
    reqs += [(a * 512, (b - a) * 512) for a, b in pairs[:limit]]
    for _ in range(8):
        o = rng.randint(0, size)
        reqs.append((o, rng.randint(0, size - o + 5)))
    return reqs
