"""Parallels .hdd directory builder (DiskDescriptor.xml + plain / expanding images) + oracle.
spec: {"storages": [{"start", "end", "kind": "plain"|"hds", "hds": <fmt_hds spec with an optional parent chain>}...] in LISTED order, "size",
"depth": number of snapshots in the chain (layer 0 = the snapshot that is opened, layer depth-1 = the root), "opens": how many times
HDD.open() is called on the one HDD object before the stream under test is taken (every open must give the same disk)}"""
from __future__ import annotations

import os
import random
import tempfile

from . import fmt_hds

GUID = "{5fbaabe3-6958-40ff-92a7-860e329aab41}"


def pattern(idx, j):
    return ((41 * (idx + 1) + j + 3 * (j >> 9)) & 0xFF) or 1


def build(spec):
    return None


def open_real(fh, spec):
    from pathlib import Path

    from dissect.hypervisor.disk.hdd import HDD

    d = tempfile.mkdtemp(prefix="hdd_replay_")
    import atexit
    import shutil

    atexit.register(shutil.rmtree, d, True)
    root = os.path.join(d, "disk.hdd")
    os.mkdir(root)
    depth = spec.get("depth", 1)
    guids = [GUID] + ["{%08x-6958-40ff-92a7-860e329aab41}" % (0x10 + L) for L in range(1, depth)]  # layer 0 (top) .. root
    xml = ['<?xml version="1.0" encoding="UTF-8"?>', "<Parallels_disk_image><Disk_Parameters><Disk_size>%d</Disk_size></Disk_Parameters><StorageData>" % (spec["size"] // 512)]
    for i, s in enumerate(spec["storages"]):
        n = (s["end"] - s["start"]) * 512
        images = []
        layers = list(range(depth))
        if i % 2:
            layers.reverse()  # the order of the Image elements inside a Storage carries no meaning
        for L in layers:
            name = f"disk.hdd.{i}.{guids[L]}.hds"
            if s["kind"] == "plain":
                with open(os.path.join(root, name), "wb") as f:
                    f.write(bytes(pattern(i + 7 * L, j) for j in range(n)))  # only the top layer of a plain storage is ever visible
                kind = "Plain"
            else:
                h = s["hds"]
                for _ in range(L):
                    h = h.get("parent") if h else None
                if h is None:  # this storage's chain is shorter: the remaining (older) layers hold no cluster
                    h = dict(s["hds"], bat=[None] * s["hds"]["nclusters"])
                    h.pop("parent", None)
                sf = fmt_hds.build({k_: v_ for k_, v_ in h.items() if k_ != "parent"}, L)
                with open(os.path.join(root, name), "wb") as f:
                    sf.seek(0)
                    f.write(sf.read())
                kind = "Compressed"
            images.append(f"<Image><GUID>{guids[L]}</GUID><Type>{kind}</Type><File>{name}</File></Image>")
        xml.append(f"<Storage><Start>{s['start']}</Start><End>{s['end']}</End><Blocksize>8</Blocksize>{''.join(images)}</Storage>")
    shots = [f"<Shot><GUID>{guids[L]}</GUID><ParentGUID>{guids[L + 1] if L + 1 < depth else '{00000000-0000-0000-0000-000000000000}'}</ParentGUID></Shot>" for L in range(depth)]
    if spec.get("shots_reversed"):
        shots.reverse()
    xml.append(f"</StorageData><Snapshots>{''.join(shots)}</Snapshots></Parallels_disk_image>")
    with open(os.path.join(root, "DiskDescriptor.xml"), "w") as f:
        f.write("".join(xml))
    hdd = HDD(Path(root))
    for _ in range(spec.get("opens", 1) - 1):
        hdd.open()  # earlier opens of the same object (and of an ancestor snapshot) must not change what a later open returns
        if depth > 1:
            hdd.open(guids[1])
    return hdd.open()


def oracle(spec, off, length):
    end = min(off + length, spec["size"])
    out = bytearray()
    x = off
    while x < end:
        for i, s in enumerate(spec["storages"]):
            if s["start"] * 512 <= x < s["end"] * 512:
                rel = x - s["start"] * 512
                take = min(end, s["end"] * 512) - x
                if s["kind"] == "plain":
                    out += bytes(pattern(i, j) for j in range(rel, rel + take))
                else:
                    out += fmt_hds.oracle(s["hds"], rel, take)
                x += take
                break
        else:
            raise AssertionError("offset outside every storage")
    return bytes(out)


def gen_specs(rng: random.Random, n, hints=None):
    out = []
    for _ in range(n):
        k = rng.randint(1, 4)
        cur = 0
        sts = []
        for i in range(k):
            if rng.random() < 0.6:
                ln = rng.randint(1, 12)
                sts.append({"start": cur, "end": cur + ln, "kind": "plain"})
            else:
                h = fmt_hds.gen_specs(rng, 1)[0]
                ln = h["size_sectors"]
                sts.append({"start": cur, "end": cur + ln, "kind": "hds", "hds": h})
            cur += ln
        rng.shuffle(sts)  # storages may be listed in any order in DiskDescriptor.xml
        depth = 1
        for s_ in sts:
            h, d_ = s_.get("hds"), 0
            while h:
                d_, h = d_ + 1, h.get("parent")
            depth = max(depth, d_)
        out.append({"storages": sts, "size": cur * 512, "depth": depth, "opens": rng.choice([1, 1, 2, 3]), "shots_reversed": rng.random() < 0.5})
    return out


def requests(spec, rng, limit=40):
    size = spec["size"]
    reqs = [(0, size), (0, size + 100), (size, 10)]
    ns = size // 512
    pairs = [(a, b) for a in range(ns + 1) for b in range(a, ns + 1)]
    rng.shuffle(pairs)
    reqs += [(a * 512, (b - a) * 512) for a, b in pairs[:limit]]
    for _ in range(8):
        o = rng.randint(0, size)
        reqs.append((o, rng.randint(0, size - o + 5)))
    return reqs
