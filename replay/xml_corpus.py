"""Bounded cross-check for C19: every XML-consuming entry point of the real library on documents that declare entities
(internal at nesting depth 1..9, external general / parameter entities with file: and http: system ids, external DTD subset).
Expected: an exception; never expansion, never a file/socket access.  Plain documents must still parse."""
from __future__ import annotations

import io
import json
import os
import sys
import tempfile
import time
from pathlib import Path

EVENTS = []
ACTIVE = False
SECRET = None


def hook(event, args):
    if not ACTIVE:
        return
    if event == "open" and SECRET and str(args[0]) == SECRET:
        EVENTS.append({"event": "open", "path": str(args[0])})
    if event in ("socket.connect", "socket.getaddrinfo", "urllib.Request"):
        EVENTS.append({"event": event, "args": str(args)[:100]})


def bomb(depth):
    ents = ['<!ENTITY e0 "AAAAAAAAAA">']
    for i in range(1, depth + 1):
        ents.append(f'<!ENTITY e{i} "{("&e%d;" % (i - 1)) * 10}">')
    return "<!DOCTYPE r [" + "".join(ents) + "]>", f"&e{depth};"


def docs(secret):
    out = {}
    for d in range(1, 10):
        dt, ref = bomb(d)
        out[f"internal_depth{d}"] = (dt, ref)
    out["external_general_file"] = (f'<!DOCTYPE r [<!ENTITY x SYSTEM "file://{secret}">]>', "&x;")
    out["external_general_http"] = ('<!DOCTYPE r [<!ENTITY x SYSTEM "http://127.0.0.1:9/x">]>', "&x;")
    out["external_parameter"] = (f'<!DOCTYPE r [<!ENTITY % p SYSTEM "file://{secret}"> %p;]>', "")
    out["external_dtd"] = (f'<!DOCTYPE r SYSTEM "file://{secret}">', "")
    out["declared_unused"] = ('<!DOCTYPE r [<!ENTITY unused "u">]>', "")
    return out


def wrap(kind, doctype, ref):
    if kind == "ovf":
        return f'<?xml version="1.0"?>{doctype}<Envelope xmlns="http://schemas.dmtf.org/ovf/envelope/1" xmlns:ovf="http://schemas.dmtf.org/ovf/envelope/1"><References><File ovf:id="f1" ovf:href="a.vmdk{ref}"/></References></Envelope>'
    if kind == "vbox":
        return f'<?xml version="1.0"?>{doctype}<VirtualBox xmlns="http://www.virtualbox.org/"><Machine><MediaRegistry><HardDisks><HardDisk location="a.vdi{ref}" format="VDI" type="Normal"/></HardDisks></MediaRegistry></Machine></VirtualBox>'
    if kind == "pvs":
        return f'<?xml version="1.0"?>{doctype}<ParallelsVirtualMachine><Hardware><Hdd><SystemName>a.hdd{ref}</SystemName></Hdd></Hardware></ParallelsVirtualMachine>'
    if kind == "hdd":
        return (f'<?xml version="1.0"?>{doctype}<Parallels_disk_image><StorageData><Storage><Start>0</Start><End>8</End><Blocksize>8</Blocksize>'
                f'<Image><GUID>{{5fbaabe3-6958-40ff-92a7-860e329aab41}}</GUID><Type>Plain</Type><File>a.hds{ref}</File></Image></Storage></StorageData>'
                f'<Snapshots><Shot><GUID>{{5fbaabe3-6958-40ff-92a7-860e329aab41}}</GUID><ParentGUID>{{00000000-0000-0000-0000-000000000000}}</ParentGUID></Shot></Snapshots></Parallels_disk_image>')
    raise ValueError(kind)


def main():
    global ACTIVE, SECRET
    sys.addaudithook(hook)
    from dissect.hypervisor.descriptor.ovf import OVF
    from dissect.hypervisor.descriptor.pvs import PVS
    from dissect.hypervisor.descriptor.vbox import VBox
    from dissect.hypervisor.disk.hdd import HDD

    tmp = tempfile.mkdtemp(prefix="c19_")
    SECRET = os.path.join(tmp, "secret.txt")
    Path(SECRET).write_text("TOPSECRET")
    failures = []
    evaluations = 0
    distinct = 0

    def run(kind, text):
        if kind == "ovf":
            o = OVF(io.StringIO(text))
            return repr(o.references) + repr(list(o.disks()))
        if kind == "vbox":
            return repr(list(VBox(io.StringIO(text)).disks()))
        if kind == "pvs":
            return repr(list(PVS(io.StringIO(text)).disks()))
        d = Path(tmp) / f"d{evaluations}.hdd"
        d.mkdir()
        (d / "DiskDescriptor.xml").write_text(text)
        h = HDD(d)
        return repr([i.file for s in h.descriptor.storage_data.storages for i in s.images])

    ACTIVE = True
    for kind in ("ovf", "vbox", "pvs", "hdd"):
        # plain document parses
        evaluations += 1
        try:
            out = run(kind, wrap(kind, "", ""))
            if "a." not in out:
                failures.append({"entry": kind, "doc": "plain", "what": f"plain document did not yield its disk: {out[:80]}"})
        except Exception as e:  # noqa: BLE001
            failures.append({"entry": kind, "doc": "plain", "what": f"plain document refused: {type(e).__name__}: {e}"})
        for name, (dt, ref) in docs(SECRET).items():
            evaluations += 1
            distinct += 1
            n0 = len(EVENTS)
            t0 = time.time()
            try:
                out = run(kind, wrap(kind, dt, ref))
                if "ENTITY" in dt:  # a DOCTYPE that declares no entity may be accepted, provided nothing external is touched (checked below)
                    failures.append({"entry": kind, "doc": name, "what": f"document declaring entities was accepted ({len(out)} chars of output, {time.time() - t0:.2f}s)"})
                elif "TOPSECRET" in out:
                    failures.append({"entry": kind, "doc": name, "what": "external DTD content was read"})
            except Exception as e:  # noqa: BLE001
                if "TOPSECRET" in str(e):
                    failures.append({"entry": kind, "doc": name, "what": "local file content leaked into the error"})
            if len(EVENTS) > n0:
                failures.append({"entry": kind, "doc": name, "what": f"external access attempted: {EVENTS[n0]}"})
            if time.time() - t0 > 5:
                failures.append({"entry": kind, "doc": name, "what": f"took {time.time() - t0:.1f}s"})
    ACTIVE = False
    import shutil

    shutil.rmtree(tmp, ignore_errors=True)
    json.dump({"evaluations": evaluations, "distinct": distinct, "failures": failures,
               "rule": "4 entry points (OVF, VBox, PVS, Parallels DiskDescriptor via HDD) x {plain, internal entities nested 1..9, external general file:/http:, external parameter entity, external DTD, declared-but-unused}; non-trivial = document with a DOCTYPE"}, sys.stdout)


if __name__ == "__main__":
    main()
