"""C18 bounded stand-in: generated VM configurations (VMware VMX, OVF, VirtualBox, Parallels PVS) through the real descriptor classes;
the reported disk list must equal the list computed from the generated device model (executable specification below).

usage: python -m replay.config_corpus <seed> <n_per_format> -> JSON on stdout"""
from __future__ import annotations

import io
import json
import random
import sys
from xml.sax.saxutils import escape, quoteattr

NAMES = ["disk.vmdk", "Virtual Disk-000003.vmdk", "dïsk ü.vmdk", "a=b.vmdk", "x#y.vmdk", "sub/dir/d.vmdk", "C:\\vm\\d.vmdk", "d.VDI", "cd.iso", "noext", "disk&amp.vmdk", "<odd>.vmdk"]


def rcase(rng, s):
    return "".join(c.upper() if rng.random() < 0.3 else c for c in s)


# ------------------------------------------------------------------------------------------------ VMX
def gen_vmx(rng):
    """-> (text, expected sorted list)"""
    lines = ['.encoding = "UTF-8"', 'config.version = "8"', 'displayName = "vm = test"', 'guestOS = "other"']
    unrelated = ['memsize = "1024"', 'ethernet0.present = "TRUE"', 'floppy0.fileName = "floppy.flp"', 'floppy0.present = "TRUE"', 'scsi0.virtualDev = "lsilogic"', 'sata0.pciSlotNumber = "33"',
                 'ideas.enabled = "TRUE"', 'nvmexpress.fileName.note = "x"', 'usb.present = "TRUE"', 'serial0.fileName = "serial.log"', 'nvram = "vm.nvram"', 'extendedConfigFile = "vm.vmxf"',
                 'scsi0:0.redo = ""', 'annotation = "scsi0:0.fileName = fake.vmdk"', 'identity = "x"', 'ideal = "TRUE"', 'scsicontroller = "1"', 'SATAmode = "ahci"', 'nvme = "1"']
    devices = {}
    n = rng.randrange(0, 7)
    for _ in range(n):
        cls = rng.choice(["scsi", "sata", "ide", "nvme"])
        bus, unit = rng.choice([0, 1, 2, 3, 10, 12]), rng.choice([0, 1, 6, 8, 15])
        kind = rng.choice(["plain", "plain", "disk", "scsi-hardDisk", "cdrom-image", "cdrom-raw", "atapi-cdrom", "nofile", "emptyfile", "DISK-upper"])
        fname = rng.choice(NAMES)
        devices[(cls, bus, unit)] = (kind, fname)
    expected = []
    dev_lines = []
    for (cls, bus, unit), (kind, fname) in devices.items():
        base = f"{cls}{bus}:{unit}"
        props = [("present", "TRUE")]
        dtype = {"plain": None, "nofile": None, "emptyfile": None, "disk": "disk", "scsi-hardDisk": "scsi-hardDisk", "cdrom-image": "cdrom-image", "cdrom-raw": "cdrom-raw", "atapi-cdrom": "atapi-cdrom",
                 "DISK-upper": "SCSI-HardDISK"}[kind]
        if dtype is not None:
            props.append(("deviceType", dtype))
        if kind == "emptyfile":
            props.append(("fileName", ""))
        elif kind != "nofile":
            if rng.random() < 0.25:
                props.append(("fileName", "old-" + fname))  # reassigned below: the last assignment wins
            props.append(("fileName", fname))
            if dtype is None or "disk" in dtype.lower():
                expected.append(fname)
        rng.shuffle(props)
        # keep the order of duplicate fileName assignments (old first)
        fl = [p for p in props if p[0] == "fileName"]
        if len(fl) == 2 and fl[0][1] == fname:
            i, j = [k for k, p in enumerate(props) if p[0] == "fileName"]
            props[i], props[j] = props[j], props[i]
        for k, v in props:
            dev_lines.append((f"{base}.{k}", v))
        if rng.random() < 0.5:
            dev_lines.append((f"{cls}{bus}.present", "TRUE"))
    body = [("kv", k, v) for k, v in dev_lines] + [("raw", u) for u in rng.sample(unrelated, rng.randrange(0, len(unrelated)))]
    # duplicates of a fileName line must keep their relative order: shuffle blocks only when no duplicate keys exist
    keys = [b[1].lower() for b in body if b[0] == "kv"]
    if len(set(keys)) == len(keys):
        rng.shuffle(body)
    for b in body:
        if b[0] == "raw":
            lines.append(b[1])
            continue
        _, k, v = b
        k = rcase(rng, k) if rng.random() < 0.4 else k
        style = rng.randrange(6)
        if style == 0:
            lines.append(f'{k}="{v}"')
        elif style == 1:
            lines.append(f'  {k}   =   "{v}"  ')
        elif style == 2 and v and " " not in v and '"' not in v:
            lines.append(f"{k} = {v}")
        elif style == 3:
            lines.append(f'{k} = "{v}"\r')
        else:
            lines.append(f'{k} = "{v}"')
        if rng.random() < 0.15:
            lines.append(rng.choice(["", "   ", "# a comment", '#scsi9:9.fileName = "commented.vmdk"', "\t"]))
    return "\n".join(lines) + rng.choice(["", "\n", "\n\n"]), sorted(expected)


def run_vmx(text):
    from dissect.hypervisor.descriptor.vmx import VMX

    return VMX.parse(text).disks()


# ------------------------------------------------------------------------------------------------ OVF
OVF_NS = "http://schemas.dmtf.org/ovf/envelope/1"
RASD_NS = "http://schemas.dmtf.org/wbem/wscim/1/cim-schema/2/CIM_ResourceAllocationSettingData"
VSSD_NS = "http://schemas.dmtf.org/wbem/wscim/1/cim-schema/2/CIM_VirtualSystemSettingData"


def gen_ovf(rng):
    style = rng.choice(["default", "prefixed", "odd-prefix"])
    if style == "default":
        op, decl = "", f'xmlns="{OVF_NS}" xmlns:ovf="{OVF_NS}"'
        ap = "ovf:"
    elif style == "prefixed":
        op, decl = "ovf:", f'xmlns:ovf="{OVF_NS}"'
        ap = "ovf:"
    else:
        op, decl = "e:", f'xmlns:e="{OVF_NS}"'
        ap = "e:"
    rp = rng.choice(["rasd", "r"])
    decl += f' xmlns:{rp}="{RASD_NS}" xmlns:vssd="{VSSD_NS}"'
    n_files = rng.randrange(0, 5)
    files = {f"file{i}": rng.choice(NAMES) + str(i) for i in range(n_files)}
    disks = {}
    shared_ids = rng.random() < 0.3  # disk ids and file ids are separate name spaces: the same identifier may denote a disk and a different file
    for i in range(rng.randrange(0, n_files + 1)):
        disks[f"file{(i + 1) % n_files}" if shared_ids else f"vmdisk{i}"] = rng.choice(list(files))
    items = []
    expected = []
    iid = 1
    for _ in range(rng.randrange(0, 6)):
        kind = rng.choice(["disk17", "disk17", "cdrom15", "floppy14", "scsi6", "ide5", "net10"])
        host = None
        if kind == "disk17" and (disks or files):
            if disks and (not files or rng.random() < 0.7):
                d = rng.choice(list(disks))
                host = f"ovf:/disk/{d}"
                expected.append(files[disks[d]])
            else:
                f = rng.choice(list(files))
                host = f"ovf:/file/{f}"
                expected.append(files[f])
        elif kind == "disk17":
            continue
        elif kind in ("cdrom15", "floppy14") and files and rng.random() < 0.6:
            host = f"ovf:/file/{rng.choice(list(files))}"
        rt = {"disk17": 17, "cdrom15": 15, "floppy14": 14, "scsi6": 6, "ide5": 5, "net10": 10}[kind]
        parts = [f"<{rp}:ElementName>dev{iid}</{rp}:ElementName>", f"<{rp}:InstanceID>{iid}</{rp}:InstanceID>", f"<{rp}:ResourceType>{rt}</{rp}:ResourceType>"]
        if host:
            parts.append(f"<{rp}:HostResource>{escape(host)}</{rp}:HostResource>")
        if rng.random() < 0.5:
            parts.append(f"<{rp}:Parent>3</{rp}:Parent><{rp}:AddressOnParent>{iid}</{rp}:AddressOnParent>")
        rng.shuffle(parts)
        items.append(f"<{op}Item>" + "".join(parts) + f"</{op}Item>")
        iid += 1
    refs = "".join(f"<{op}File {ap}id={quoteattr(i)} {ap}href={quoteattr(h)} {ap}size=\"1\"/>" for i, h in files.items())
    dsk = "".join(f"<{op}Disk {ap}capacity=\"1\" {ap}diskId={quoteattr(d)} {ap}fileRef={quoteattr(f)} {ap}format=\"vmdk\"/>" for d, f in disks.items())
    text = (f'<?xml version="1.0" encoding="UTF-8"?>\n<{op}Envelope {decl}>\n<{op}References>{refs}</{op}References>\n<{op}DiskSection><{op}Info>disks</{op}Info>{dsk}</{op}DiskSection>\n'
            f'<{op}NetworkSection><{op}Info>n</{op}Info></{op}NetworkSection>\n<{op}VirtualSystem {ap}id="vm"><{op}Info>vm</{op}Info><{op}VirtualHardwareSection><{op}Info>hw</{op}Info>'
            f'<{op}System><vssd:ElementName>hw</vssd:ElementName></{op}System>{"".join(items)}</{op}VirtualHardwareSection></{op}VirtualSystem>\n</{op}Envelope>\n')
    return text, expected


def run_ovf(text):
    from dissect.hypervisor.descriptor.ovf import OVF

    return list(OVF(io.StringIO(text)).disks())


# ------------------------------------------------------------------------------------------------ VirtualBox
def gen_vbox(rng):
    expected = []

    def hd(depth):
        loc = rng.choice(NAMES)
        fmt = rng.choice(["VDI", "vdi", "Vdi", "VMDK", "VHD", None])
        typ = rng.choice(["Normal", "Normal", "Immutable", "Writethrough", "normal", None])
        has_loc = rng.random() < 0.9
        attrs = ['uuid="{11111111-2222-3333-4444-555555555555}"']
        if has_loc:
            attrs.append(f"location={quoteattr(loc)}")
        if fmt is not None:
            attrs.append(f'format="{fmt}"')
        if typ is not None:
            attrs.append(f'type="{typ}"')
        rng.shuffle(attrs)
        if has_loc and typ == "Normal" and fmt is not None and fmt.lower() == "vdi":
            expected.append(loc)
        kids = "".join(hd(depth - 1) for _ in range(rng.randrange(0, 3))) if depth > 0 else ""
        return f"<HardDisk {' '.join(attrs)}>{kids}</HardDisk>" if kids or rng.random() < 0.5 else f"<HardDisk {' '.join(attrs)}/>"

    hds = "".join(hd(rng.choice([0, 1, 2, 3])) for _ in range(rng.randrange(0, 4)))
    dvd = "".join(f'<Image uuid="{{x}}" location={quoteattr(rng.choice(NAMES))}/>' for _ in range(rng.randrange(0, 2)))
    text = (f'<?xml version="1.0"?>\n<VirtualBox xmlns="http://www.virtualbox.org/" version="1.16-linux">\n<Machine uuid="{{m}}" name="vm" OSType="Other">\n<MediaRegistry><HardDisks>{hds}</HardDisks>'
            f'<DVDImages>{dvd}</DVDImages><FloppyImages/></MediaRegistry>\n<Hardware><StorageControllers><StorageController name="SATA" type="AHCI"><AttachedDevice type="HardDisk" port="0" device="0">'
            f'<Image uuid="{{x}}"/></AttachedDevice></StorageController></StorageControllers></Hardware>\n</Machine>\n</VirtualBox>\n')
    return text, expected


def run_vbox(text):
    from dissect.hypervisor.descriptor.vbox import VBox

    return list(VBox(io.StringIO(text)).disks())


# ------------------------------------------------------------------------------------------------ Parallels PVS
def gen_pvs(rng):
    expected = []
    devs = []
    for _ in range(rng.randrange(0, 6)):
        kind = rng.choice(["Hdd", "Hdd", "CdRom", "Fdd", "NetworkAdapter", "HddNoName"])
        name = rng.choice(NAMES)
        if kind == "Hdd":
            expected.append(name)
            inner = [f"<Index>{len(devs)}</Index>", f"<SystemName>{escape(name)}</SystemName>", f"<UserFriendlyName>{escape(name)}</UserFriendlyName>", "<Enabled>1</Enabled>"]
            rng.shuffle(inner)
            devs.append(f"<Hdd id=\"0\" dyn_lists=\"Partition 0\">{''.join(inner)}</Hdd>")
        elif kind == "HddNoName":
            devs.append("<Hdd><Index>9</Index></Hdd>")
        elif kind in ("CdRom", "Fdd"):
            devs.append(f"<{kind}><SystemName>{escape(name)}</SystemName></{kind}>")
        else:
            devs.append("<NetworkAdapter><SystemName>eth0</SystemName></NetworkAdapter>")
    wrap = rng.choice([("", ""), ("<Group>", "</Group>")])
    text = (f'<?xml version="1.0" encoding="UTF-8"?>\n<ParallelsVirtualMachine schemaVersion="1.0" dyn_lists="VirtualAppliance 0">\n<Identification><VmName>vm</VmName></Identification>\n'
            f'<Hardware>{wrap[0]}{"".join(devs)}{wrap[1]}</Hardware>\n</ParallelsVirtualMachine>\n')
    return text, expected


def run_pvs(text):
    from dissect.hypervisor.descriptor.pvs import PVS

    return list(PVS(io.StringIO(text)).disks())


import html  # noqa: E402


def unesc(names):
    return [html.unescape(n) if False else n for n in names]


FORMATS = {"vmx": (gen_vmx, run_vmx, False), "ovf": (gen_ovf, run_ovf, True), "vbox": (gen_vbox, run_vbox, True), "pvs": (gen_pvs, run_pvs, True)}


def main(seed, n):
    rng = random.Random(seed)
    failures, evals, nontrivial = [], 0, 0
    groups = {}
    for fmt, (gen, run, ordered) in FORMATS.items():
        for ci in range(n):
            text, expected = gen(rng)
            evals += 1
            nontrivial += 1 if expected else 0
            try:
                got = run(text)
                ok = got == expected
                problem = f"reported {got!r}, expected {expected!r}"
            except Exception as e:  # noqa: BLE001
                ok, problem = False, f"raise {type(e).__name__}: {e}"
            if not ok:
                key = f"{fmt}:{problem.split(':')[0][:30] if problem.startswith('raise') else 'mismatch'}"
                groups[key] = groups.get(key, 0) + 1
                if groups[key] <= 2:
                    failures.append({"format": fmt, "case": ci, "seed": seed, "problem": problem[:400], "text": text})
    # history on one VMX object: disks() before and after the dictionary grows the way unlock_with_phrase() grows it
    # (attr.update(<decrypted dictionary>)): the second answer must be the expected list of the merged configuration
    from dissect.hypervisor.descriptor.vmx import VMX

    for ci in range(max(10, n // 8)):
        text1, exp1 = gen_vmx(rng)
        text2, exp2 = gen_vmx(rng)
        evals += 1
        try:
            v = VMX.parse(text1 if ci % 2 else 'encryption.data = "x"\n')  # an encrypted file exposes no devices before it is unlocked
            first = v.disks()
            v.attr.update(**VMX.parse(text2).attr)
            second = v.disks()
            fresh = VMX.parse("")
            fresh.attr = dict(v.attr)
            want = fresh.disks()
            ok = second == want and (ci % 2 == 1 or (first == [] and second == sorted(exp2)))
            problem = f"disks() after the dictionary was extended returned {second!r}; a fresh object with the same dictionary reports {want!r} (first call returned {first!r})"
        except Exception as e:  # noqa: BLE001
            ok, problem = False, f"raise {type(e).__name__}: {e}"
        if not ok:
            groups["vmx:history"] = groups.get("vmx:history", 0) + 1
            if groups["vmx:history"] <= 2:
                failures.append({"format": "vmx", "case": ci, "seed": seed, "problem": problem[:400], "text": text2})
    print(json.dumps({"evaluations": evals, "distinct": nontrivial, "n_failures": sum(groups.values()), "groups": groups, "failures": failures,
                      "rule": "generated configurations: VMX (0..6 devices on scsi/sata/ide/nvme with 1-2 digit bus:unit numbers x device types {absent, disk, scsi-hardDisk, upper-case, cdrom-image, cdrom-raw, "
                              "atapi-cdrom} x key casing x quoting/spacing/CR x comments x unrelated keys incl. ones starting with a bus class name x reassigned file names); OVF (reference/disk/item graphs, "
                              "both host-resource forms, CD/floppy/controller items, three namespace-prefix styles); VirtualBox media registries (nesting depth 0..3, mixed formats/types); PVS hardware lists"}))


if __name__ == "__main__":
    main(int(sys.argv[1]) if len(sys.argv) > 1 else 1, int(sys.argv[2]) if len(sys.argv) > 2 else 150)
