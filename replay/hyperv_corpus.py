"""C17 bounded stand-in: Hyper-V VMCX/VMRS containers built from generated key/value trees by an independent encoder, decoded by the
real HyperVFile; the decoded tree must equal the generated one.

Layout (hyperv.py / c_hyperv.py, observed in tests/data/test.vmcx): headers (46 bytes) at 0x0000 and 0x1000, active = highest
sequence number; object table at 0x2000 {sig u32, n u32, entries of 18 bytes {type u8, checksum u32, offset u64, size u32,
allocated u8}}; key tables {sig u16 = 2, index u16, sequence u16, checksum u32} followed by entries {type u16 (low byte type, bit 8 =
file object pointer), size u32, parent_table_idx u16, parent_offset u32, checksum u32, insertion_sequence u32, data_offset u8}, key
UTF-8 NUL-terminated, value: Int i64 / UInt u64 / Double f64 / String {u32 byte length, UTF-16-LE} / Array {u32 length, bytes} /
Bool u32 / Node {8 bytes, u32}; values of 0x800 bytes or more live in file objects referenced by {u32 size, u64 offset}; a zero-size
entry (or the end of the table) ends the walk; among key tables sharing an index the highest sequence number is active.

usage: python -m replay.hyperv_corpus <seed> <n_files> -> JSON on stdout"""
from __future__ import annotations

import io
import json
import math
import random
import struct
import sys

ALIGN = 0x1000
T_FREE, T_INT, T_UINT, T_DOUBLE, T_STRING, T_ARRAY, T_BOOL, T_NODE = 1, 3, 4, 5, 6, 7, 8, 9


class U:  # unsigned marker so that the expected tree distinguishes the stored type
    pass


def gen_tree(rng, depth, fan, big_ok=True):
    """dict: key -> dict | ("int", v) | ("uint", v) | ("double", v) | ("string", s) | ("array", b) | ("bool", b)"""
    out = {}
    n = rng.randrange(0 if depth < 3 else 1, fan + 1)
    for i in range(n):
        key = rng.choice(["k", "key", "ключ", "a b", "Ünï", "x" * 40, "_guid_", "0", "\ufeffbom"]) + str(i)
        if i == 0 and rng.random() < 0.1:
            key = ""
        if depth > 0 and rng.random() < 0.4:
            out[key] = gen_tree(rng, depth - 1, fan, big_ok)
            continue
        t = rng.choice(["int", "uint", "double", "string", "array", "bool"])
        if t == "int":
            v = rng.choice([0, -1, 1, -(1 << 63), (1 << 63) - 1, rng.randrange(-(1 << 40), 1 << 40)])
        elif t == "uint":
            v = rng.choice([0, 1, (1 << 64) - 1, 1 << 63, rng.randrange(0, 1 << 64)])
        elif t == "double":
            v = rng.choice([0.0, -0.0, 1.5, -2.25e300, 5e-324, float("inf"), float("-inf"), float("nan"), struct.unpack("<d", bytes.fromhex("010000000000f07f"))[0], rng.random()])
        elif t == "string":
            v = rng.choice(["", "x", "hello world", "späce ünï", "\U0001F600 astral", "A" * 100, "4E1D459F;0\\0\\L", "\ufeffbyte order mark first", "\ufffereversed mark", "in\ufeffside", "\x00nul first"])
            if big_ok and rng.random() < 0.15:
                v = "".join(rng.choice("abcdefé ") for _ in range(rng.choice([0x400, 0x401, 0x7FF, 0x1000])))  # 0x800+ bytes in UTF-16
        elif t == "array":
            v = rng.randbytes(rng.choice([0, 1, 8, 100]))
            if big_ok and rng.random() < 0.15:
                v = rng.randbytes(rng.choice([0x800, 0x801, 0x1000, 0x2345]))
        else:
            v = rng.random() < 0.5
        out[key] = (t, v)
    return out


def flatten(tree, parent, acc):
    for k, v in tree.items():
        e = {"key": k, "parent": parent, "val": v}
        acc.append(e)
        if isinstance(v, dict):
            flatten(v, e, acc)


def entry_bytes(e, rng, file_objects, big_threshold=0x800):
    if rng.random() < 0.08:
        big_threshold = rng.choice([0, 1, 16])  # small (even empty) values may live in file objects too
    """(type word, payload after the 21-byte header, data_offset)"""
    key = e["key"].encode() + b"\0"
    v = e["val"]
    tw = None
    if isinstance(v, dict):
        tw, val = T_NODE, rng.randbytes(8) + struct.pack("<I", rng.randrange(1 << 32))
    else:
        t, x = v
        if t == "int":
            tw, val = T_INT, struct.pack("<q", x)
        elif t == "uint":
            tw, val = T_UINT, struct.pack("<Q", x)
        elif t == "double":
            tw, val = T_DOUBLE, struct.pack("<d", x)
        elif t == "bool":
            tw, val = T_BOOL, struct.pack("<I", rng.choice([1, 0xFFFFFFFF, 0x100]) if x else 0)
        else:
            raw = x.encode("utf-16-le") if t == "string" else x
            tw = T_STRING if t == "string" else T_ARRAY
            if len(raw) >= big_threshold:
                fo = {"data": raw}
                file_objects.append(fo)
                e["fo"] = fo
                tw |= 0x0100
                val = None  # pointer filled once the file object has an offset
            else:
                val = struct.pack("<I", len(raw)) + raw
    return tw, key, val


def build(rng, tree, n_tables, opts):
    entries = []
    flatten(tree, None, entries)
    file_objects = []
    for e in entries:
        e["tw"], e["keyb"], e["valb"] = entry_bytes(e, rng, file_objects)
        e["slack"] = rng.choice([0, 0, 3, 12])
        e["size"] = 21 + len(e["keyb"]) + (12 if e["valb"] is None else len(e["valb"])) + e["slack"]
        e["table"] = rng.randrange(1, n_tables + 1)
    # tables: list of items (entry | free filler) with offsets; a table grows in units of ALIGN
    tables = {i: [] for i in range(1, n_tables + 1)}
    for e in entries:
        t = tables[e["table"]]
        if rng.random() < opts["free_rate"]:
            t.append({"free": True, "size": 21 + rng.randrange(0, 40)})
        t.append(e)
    layout = {}
    for i, items in tables.items():
        off = 10
        for it in items:
            it["offset"] = off
            off += it["size"]
        size_ = max(ALIGN, -(-(off + rng.choice([0, 0, 1, 30])) // ALIGN) * ALIGN)
        fill = rng.random()
        if fill < 0.2 and size_ - off >= 21:
            items.append({"free": True, "size": size_ - off, "offset": off})  # trailing free entry up to the exact end of the table (as in real files)
            off = size_
        elif 0.3 <= fill < 0.4 and items and not items[-1].get("free") and size_ - off > 21:
            short = rng.randrange(1, 21)  # fewer bytes than an entry header remain after the last entry: nothing more can be stored there
            items[-1]["slack"] += size_ - off - short
            items[-1]["size"] += size_ - off - short
            off = size_ - short
        elif fill < 0.3 and items and not items[-1].get("free"):
            items[-1]["slack"] += size_ - off  # last entry's slack reaches the exact end: the table is full, no terminator
            items[-1]["size"] += size_ - off
            off = size_
        layout[i] = {"used": off, "size": size_}
    # file placement
    pos = 0x3000
    placed = []  # (offset, bytes)
    obj_entries = []  # (type, offset, size, allocated)
    seqs = {}
    order = list(tables)
    rng.shuffle(order)
    stale = []
    for i in order:
        seqs[i] = rng.randrange(1, 0xFFFF)
        layout[i]["offset"] = pos
        pos += layout[i]["size"]
        if rng.random() < opts["stale_rate"]:
            # stale generations of this table index (lower sequence numbers, different content); the object table lists all generations in any order
            for st_seq in rng.sample(range(0, seqs[i]), min(seqs[i], rng.choice([1, 1, 2, 3]))):
                st_off = pos
                pos += ALIGN
                stale.append((i, st_off, st_seq))
    for fo in file_objects:
        fo["offset"] = pos
        fo["alloc"] = -(-max(len(fo["data"]), 1) // ALIGN) * ALIGN
        pos += fo["alloc"]
    replay_off = pos
    pos += ALIGN
    second_ot = pos if opts["second_object_table"] else None
    if second_ot:
        pos += ALIGN
    # serialise key tables
    for i, items in tables.items():
        buf = bytearray(layout[i]["size"])
        struct.pack_into("<HHHI", buf, 0, 2, i, seqs[i], rng.randrange(1 << 32))
        for it in items:
            o = it["offset"]
            if it.get("free"):
                struct.pack_into("<HIHIIIB", buf, o, T_FREE, it["size"], 0, 0, 0, 0, 0)
                buf[o + 21:o + it["size"]] = b"\xfd" * (it["size"] - 21)
                continue
            p = it["parent"]
            val = it["valb"] if it["valb"] is not None else struct.pack("<IQ", len(it["fo"]["data"]), it["fo"]["offset"])
            struct.pack_into("<HIHIIIB", buf, o, it["tw"], it["size"], p["table"] if p else 0, p["offset"] if p else rng.choice([0, 0, 77]), rng.randrange(1 << 32), rng.randrange(1 << 32), len(it["keyb"]))
            body = it["keyb"] + val + (rng.randbytes(it["slack"]) if it["slack"] < 64 else bytes(it["slack"]))
            buf[o + 21:o + 21 + len(body)] = body
        used = layout[i]["used"]
        # after the last entry: zero size marker (zeros) unless the table is exactly full; garbage after the marker must be ignored
        if used + 21 + 8 < len(buf) and rng.random() < 0.5:
            buf[used + 21:used + 29] = b"\xee" * 8  # bytes after a zero-size header
        placed.append((layout[i]["offset"], bytes(buf)))
        obj_entries.append((2, layout[i]["offset"], layout[i]["size"], 1))
    for i, st_off, st_seq in stale:
        buf = bytearray(ALIGN)
        struct.pack_into("<HHHI", buf, 0, 2, i, st_seq, 0)
        kb = b"stale\0"
        struct.pack_into("<HIHIIIB", buf, 10, T_INT, 21 + len(kb) + 8, 0, 0, 0, 0, len(kb))
        buf[31:31 + len(kb) + 8] = kb + struct.pack("<q", 666)
        placed.append((st_off, bytes(buf)))
        obj_entries.append((2, st_off, ALIGN, 1))
    for fo in file_objects:
        placed.append((fo["offset"], fo["data"] + rng.randbytes(fo["alloc"] - len(fo["data"]))))
        obj_entries.append((3, fo["offset"], fo["alloc"], 1))
    # distractors in the object table: unallocated key table entry pointing at garbage, free entries, a change tracking buffer
    for _ in range(opts["distractors"]):
        obj_entries.append(rng.choice([(2, 0x2000, ALIGN, 0), (4, 0, 0, 1), (7, replay_off, 16, 1), (0, 0, 0, 0), (3, 0x1000, ALIGN, 0)]))
    rng.shuffle(obj_entries)

    def object_table(ents):
        b = struct.pack("<II", 0x01110001, len(ents))
        for t, o, s, a in ents:
            b += struct.pack("<BIQIB", t, rng.randrange(1 << 32), o, s, a)
        return b

    if second_ot:
        half = len(obj_entries) // 2
        first, second = obj_entries[:half] + [(1, second_ot, ALIGN, 1)], obj_entries[half:]
        if opts.get("back_reference"):
            second = second + [(1, 0x2000, ALIGN, 1)]  # the chained table lists the first table again: it is already loaded and must not be loaded twice
        placed.append((0x2000, object_table(first)))
        placed.append((second_ot, object_table(second)))
    else:
        placed.append((0x2000, object_table(obj_entries)))
    placed.append((replay_off, struct.pack("<IIIBIIIIIB", 0x01110003, 0, 0, 0, 16, 0, 0, 0, 0, 0)))

    def header(seq, sig=0x01282014, version=0x400, rlo=replay_off):
        return struct.pack("<IIHIQIQQI", sig, rng.randrange(1 << 32), seq, version, 0, ALIGN, rlo, ALIGN, ALIGN)

    active_seq = rng.randrange(1, 0xFFFF)
    other = opts["other_header"]
    good = header(active_seq)
    if other == "older":
        bad = header(rng.randrange(0, active_seq), rlo=0x1000)  # valid but older: its (wrong) replay log offset must not be used
    elif other == "garbage":
        bad = struct.pack("<IIH", rng.randrange(1 << 32), 0, 0) + rng.randbytes(36)  # sequence 0: never newer
    else:
        bad = header(active_seq - 1, sig=0xDEADBEEF)
    slot = opts["active_slot"]
    placed.append((0x0000 if slot == 0 else 0x1000, good))
    placed.append((0x1000 if slot == 0 else 0x0000, bad))
    size = max(o + len(b) for o, b in placed)
    img = bytearray(size)
    for o, b in placed:
        img[o:o + len(b)] = b
    return bytes(img)


def expected(tree):
    out = {}
    for k, v in tree.items():
        out[k] = expected(v) if isinstance(v, dict) else v
    return out


def decode_real(img, opened=None):
    from dissect.hypervisor.descriptor.c_hyperv import KeyDataType
    from dissect.hypervisor.descriptor.hyperv import HyperVFile

    hf = opened if opened is not None else HyperVFile(io.BytesIO(img))
    names = {KeyDataType.Int: "int", KeyDataType.UInt: "uint", KeyDataType.Double: "double", KeyDataType.String: "string", KeyDataType.Array: "array", KeyDataType.Bool: "bool"}

    def walk(children):
        out = {}
        for k, e in children.items():
            if e.type == KeyDataType.Node:
                out[k] = walk(e.children)
            else:
                out[k] = (names.get(e.type, str(e.type)), e.value)
        return out

    typed = walk(hf.root)
    # as_dict() must agree with the typed walk (values only)
    def strip(t):
        return {k: (strip(v) if isinstance(v, dict) else v[1]) for k, v in t.items()}

    return typed, hf.as_dict(), strip(typed)


def same(a, b):
    if isinstance(a, dict) or isinstance(b, dict):
        return isinstance(a, dict) and isinstance(b, dict) and a.keys() == b.keys() and all(same(a[k], b[k]) for k in a)
    if isinstance(a, tuple) and isinstance(b, tuple):
        return a[0] == b[0] and same(a[1], b[1])
    if isinstance(a, float) and isinstance(b, float):
        return struct.pack("<d", a) == struct.pack("<d", b)
    if isinstance(a, memoryview):
        a = a.tobytes()
    if isinstance(b, memoryview):
        b = b.tobytes()
    return type(a) is type(b) and a == b


def first_diff(a, b, path=""):
    if isinstance(a, dict) and isinstance(b, dict):
        for k in sorted(set(a) | set(b)):
            if k not in a or k not in b:
                return f"{path}/{k}: only in {'decoded' if k in b else 'stored'}"
            d = first_diff(a[k], b[k], f"{path}/{k}")
            if d:
                return d
        return ""
    return "" if same(a, b) else f"{path}: stored {str(a)[:60]!r} decoded {str(b)[:60]!r}"


def main(seed, n_files):
    rng = random.Random(seed)
    failures, evals, nodes = [], 0, 0
    prev = None
    for ci in range(n_files):
        depth = rng.choice([0, 1, 2, 3, 4])
        fan = rng.choice([1, 2, 4, 6])
        tree = gen_tree(rng, depth, fan)
        if ci % 7 == 0:
            tree = {"configuration": tree}
        n_tables = rng.choice([1, 1, 2, 3, 8])
        opts = {"free_rate": rng.choice([0, 0.2, 0.5]), "stale_rate": rng.choice([0, 0.5, 1.0]), "second_object_table": rng.random() < 0.25, "distractors": rng.choice([0, 2, 5]),
                "other_header": rng.choice(["older", "garbage", "badsig-older"]), "active_slot": rng.choice([0, 1])}
        img = build(rng, tree, n_tables, opts)
        want = expected(tree)
        evals += 1
        rec = {"case": ci, "seed": seed, "depth": depth, "fan": fan, "n_tables": n_tables, "opts": opts}
        try:
            typed, as_dict, stripped = decode_real(img)
        except Exception as e:  # noqa: BLE001
            failures.append({**rec, "problem": f"raise {type(e).__name__}: {e}"})
            continue
        d = first_diff(want, typed)
        if d:
            failures.append({**rec, "problem": f"decoded tree differs at {d}"})
            continue
        if not same(as_dict, stripped):
            failures.append({**rec, "problem": f"as_dict() differs from the entry walk at {first_diff(stripped, as_dict)}"})
        nodes += sum(1 for _ in _count(tree))
        # two containers open in one process: the earlier one is decoded only after the later one has been opened (values are resolved
        # lazily); it must still decode to its own tree
        if prev is not None:
            from dissect.hypervisor.descriptor.hyperv import HyperVFile

            try:
                hf_a = HyperVFile(io.BytesIO(prev[0]))
                HyperVFile(io.BytesIO(img))
                typed_a = decode_real(prev[0], opened=hf_a)[0]
                d = first_diff(prev[1], typed_a)
                if d:
                    failures.append({**rec, "problem": f"container of case {prev[2]} decoded after this one was opened differs from its own stored tree at {d}"})
            except Exception as e:  # noqa: BLE001
                failures.append({**rec, "problem": f"two containers open: raise {type(e).__name__}: {e}"})
            evals += 1
        prev = (img, want, ci)
    print(json.dumps({"evaluations": evals, "entries": nodes, "n_failures": len(failures), "failures": failures[:6],
                      "rule": "generated trees (depth 0..4, fan-out 1..6, UTF-8 keys, all seven types, strings/arrays >= 0x800 bytes in file objects) spread over 1..8 key tables with free entries, "
                              "stale lower-sequence tables, chained object tables, distractor object entries, either header slot active: decoded typed tree == generated tree and as_dict() agrees"}))


def _count(tree):
    for v in tree.values():
        yield 1
        if isinstance(v, dict):
            yield from _count(v)


if __name__ == "__main__":
    main(int(sys.argv[1]) if len(sys.argv) > 1 else 1, int(sys.argv[2]) if len(sys.argv) > 2 else 60)
