"""Child process: builds concrete images from abstract specs, runs the REAL repository code on them and compares with the
executable specification.  Run as `python -m replay.run_real` with PYTHONPATH=<repo>:<verif>; job on stdin, JSON on stdout."""
from __future__ import annotations

import hashlib
import importlib
import json
import resource
import signal
import sys
import traceback


class Timeout(Exception):
    pass


def _alarm(_s, _f):
    raise Timeout()


def run_case(fmt, case, per_req_timeout):
    mod = importlib.import_module(f"replay.fmt_{fmt}")
    spec = case["spec"]
    fails = []
    stats = {"requests": 0, "nontrivial": 0}
    try:
        signal.setitimer(signal.ITIMER_REAL, max(30.0, per_req_timeout))
        fh = mod.build(spec)
        stream = mod.open_real(fh, spec)
        signal.setitimer(signal.ITIMER_REAL, 0)
    except Timeout:
        return [{"api": "open", "kind": "timeout", "detail": f"open did not return within {per_req_timeout}s"}], stats
    except Exception as e:  # noqa: BLE001
        signal.setitimer(signal.ITIMER_REAL, 0)
        if case.get("expect_open_error"):
            return [], stats
        return [{"api": "open", "kind": "exception", "detail": f"{type(e).__name__}: {e}", "tb": traceback.format_exc()[-600:]}], stats
    if case.get("expect_open_error"):
        return [{"api": "open", "kind": "accepted", "detail": "input outside the accept set was opened without an exception"}], stats
    size = getattr(stream, "size", None)
    if "size" in spec and size != spec["size"] and not case.get("no_size_check"):
        fails.append({"api": "size", "kind": "mismatch", "detail": f"stream.size={size} spec size={spec['size']}"})
    base_io = getattr(fh, "bytes_read", 0)
    stats["open_io"] = base_io
    stats["per_request_io"] = []
    for ri, req in enumerate(case["requests"]):
        if ri % 2:
            # another user of the same underlying handle(s) -- a second overlay on the same backing image, a sibling extent on the same
            # file, the caller itself -- may have moved them in between: every read of the library has to position the handle itself
            for h_ in (fh if isinstance(fh, (tuple, list)) else [fh]):
                if h_ is not None and hasattr(h_, "seek") and hasattr(h_, "tell"):
                    try:
                        h_.seek((ri * 7919 + 13) % (getattr(h_, "size", 0) + 1))
                    except Exception:  # noqa: BLE001
                        pass
        io0 = getattr(fh, "bytes_read", 0)
        off, ln = req[0], req[1]
        api = req[2] if len(req) > 2 else "stream.read"
        stats["requests"] += 1
        try:
            signal.setitimer(signal.ITIMER_REAL, per_req_timeout)
            if api == "stream.read":
                stream.seek(off)
                got = stream.read(ln)
                exp = mod.oracle(spec, off, ln)
            elif api == "sectors":
                fn, unit = mod.sector_api(stream, spec)
                got = fn(off, ln)
                exp = mod.oracle(spec, off * unit, ln * unit)
                if len(exp) < ln * unit:  # sector interface past the end: only the in-range prefix is specified
                    got = got[: len(exp)]
            elif api == "_read":
                got = stream._read(off, ln)
                exp = mod.oracle(spec, off, ln)
                got = got[: len(exp)] if len(got) >= len(exp) and off + ln > spec["size"] else got
            else:
                raise ValueError(api)
            signal.setitimer(signal.ITIMER_REAL, 0)
        except Timeout:
            fails.append({"api": api, "req": [off, ln], "kind": "timeout", "detail": f"no return within {per_req_timeout}s"})
            continue
        except Exception as e:  # noqa: BLE001
            signal.setitimer(signal.ITIMER_REAL, 0)
            fails.append({"api": api, "req": [off, ln], "kind": "exception", "detail": f"{type(e).__name__}: {e}", "tb": traceback.format_exc()[-500:]})
            continue
        stats["per_request_io"].append([off, ln, api, getattr(fh, "bytes_read", 0) - io0])
        if any(exp):
            stats["nontrivial"] += 1
        if got != exp:
            fd = next((i for i, (a, b) in enumerate(zip(got, exp)) if a != b), min(len(got), len(exp)))
            fails.append({"api": api, "req": [off, ln], "kind": "mismatch", "first_diff": fd, "len_expected": len(exp), "len_observed": len(got),
                          "expected": exp[max(0, fd - 4): fd + 12].hex(), "observed": got[max(0, fd - 4): fd + 12].hex(),
                          "sha_expected": hashlib.sha256(exp).hexdigest()[:16], "sha_observed": hashlib.sha256(got).hexdigest()[:16]})
    stats["io_bytes"] = getattr(fh, "bytes_read", 0) - base_io
    return fails, stats


def main():
    job = json.load(sys.stdin)
    resource.setrlimit(resource.RLIMIT_AS, (job.get("mem", 3 << 30), job.get("mem", 3 << 30)))
    signal.signal(signal.SIGALRM, _alarm)
    out = []
    for case in job["cases"]:
        try:
            fails, stats = run_case(job["fmt"], case, job.get("per_req_timeout", 5.0))
        except MemoryError:
            fails, stats = [{"api": "?", "kind": "memory", "detail": "MemoryError (address-space watchdog)"}], {}
        out.append({"fails": fails, "stats": stats})
    json.dump(out, sys.stdout)


if __name__ == "__main__":
    main()
