"""SparseFile: a read-only file object backed by a dict of extents (zeros elsewhere) that counts the bytes read.
Multi-terabyte offsets cost nothing; any write-like call raises (read-only evidence, C09)."""
from __future__ import annotations

import bisect
import io


class _Lazy:
    def __init__(self, n, fn):
        self.n, self.fn = n, fn

    def __len__(self):
        return self.n

    def __getitem__(self, sl):
        start, stop, _ = sl.indices(self.n)
        return self.fn(start, max(0, stop - start))

    def __lt__(self, other):
        return False

    def __gt__(self, other):
        return False


class SparseFile(io.RawIOBase):
    def __init__(self, size=0, name=None):
        self._size = size
        self._ext = []  # sorted list of (offset, bytes)
        self._pos = 0
        self.bytes_read = 0
        self.read_calls = 0
        self.max_read = 0
        if name:
            self.name = name

    # -- construction
    def put(self, offset, data):
        data = bytes(data)
        if not data:
            return
        for o, d in self._ext:
            if o < offset + len(data) and offset < o + len(d):
                raise ValueError(f"overlapping extents at {offset} (+{len(data)}) and {o} (+{len(d)})")
        bisect.insort(self._ext, (offset, data), key=lambda e: e[0])
        self._size = max(self._size, offset + len(data))

    def put_fn(self, offset, length, fn):
        """lazy extent: fn(start, n) -> bytes for the sub-range [start, start+n) of the extent"""
        if length <= 0:
            return
        for o, d in self._ext:
            if o < offset + length and offset < o + len(d):
                raise ValueError(f"overlapping extents at {offset} (+{length}) and {o} (+{len(d)})")
        bisect.insort(self._ext, (offset, _Lazy(length, fn)), key=lambda e: e[0])
        self._size = max(self._size, offset + length)

    def set_size(self, size):
        self._size = size

    @property
    def size(self):
        return self._size

    # -- file API
    def readable(self):
        return True

    def seekable(self):
        return True

    def writable(self):
        return False

    def seek(self, pos, whence=0):
        if whence == 0:
            new = pos
        elif whence == 1:
            new = self._pos + pos
        elif whence == 2:
            new = self._size + pos
        else:
            raise ValueError("whence")
        if new < 0:
            raise OSError(22, "Invalid argument")
        self._pos = new
        return new

    def tell(self):
        return self._pos

    def read(self, n=-1):
        if n is None or n < 0:
            n = max(0, self._size - self._pos)
        n = max(0, min(n, self._size - self._pos))
        self.read_calls += 1
        self.bytes_read += n
        self.max_read = max(self.max_read, n)
        if n > (1 << 31):
            raise MemoryError(f"read of {n} bytes requested")
        start, end = self._pos, self._pos + n
        out = bytearray(n)
        i = bisect.bisect_left([e[0] for e in self._ext], start) - 1
        i = max(i, 0)
        while i < len(self._ext):
            o, d = self._ext[i]
            if o >= end:
                break
            lo, hi = max(o, start), min(o + len(d), end)
            if lo < hi:
                out[lo - start:hi - start] = d[lo - o:hi - o]
            i += 1
        self._pos = end
        return bytes(out)

    def readinto(self, b):
        d = self.read(len(b))
        b[: len(d)] = d
        return len(d)

    def write(self, *_a, **_k):
        raise io.UnsupportedOperation("evidence is read-only: write() called")

    def truncate(self, *_a, **_k):
        raise io.UnsupportedOperation("evidence is read-only: truncate() called")
