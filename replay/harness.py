"""Parent side of replay / small-scope search: runs batches of cases through `replay.run_real` in subprocesses
(PYTHONPATH=<repo> shadows the installed package, so the code that runs is the tree the VCs came from)."""
from __future__ import annotations

import importlib
import json
import os
import random
import subprocess
import sys
import time
from concurrent.futures import ThreadPoolExecutor

VERIF = os.path.dirname(os.path.dirname(os.path.abspath(__file__)))
PY = os.path.join(VERIF, ".venv", "bin", "python")


def run_batch(repo, fmt, cases, timeout=120, per_req_timeout=5.0):
    env = dict(os.environ)
    env["PYTHONPATH"] = f"{repo}:{VERIF}"
    env.pop("FOX_IT_DISSECT_HYPERVISOR_VERIF", None)
    job = {"fmt": fmt, "cases": cases, "per_req_timeout": per_req_timeout}
    try:
        p = subprocess.run([PY, "-m", "replay.run_real"], input=json.dumps(job), capture_output=True, text=True, timeout=timeout, env=env, cwd=VERIF)
    except subprocess.TimeoutExpired:
        return [{"fails": [{"api": "batch", "kind": "timeout", "detail": f"batch did not finish within {timeout}s"}], "stats": {}} for _ in cases]
    if p.returncode != 0:
        return [{"fails": [{"api": "batch", "kind": "harness-error", "detail": p.stderr[-800:]}], "stats": {}} for _ in cases]
    return json.loads(p.stdout)


def search(repo, fmt, seed=0, n_specs=200, hints=None, budget_s=60, jobs=12, classify=None, exclude=(), first_only=False, apis=("stream.read", "sectors")):
    """Small-scope search: generated abstract images x request grid on the real code against the executable spec.
    Returns dict(evaluations, distinct_nontrivial, failures=[...], harness_errors=[...])."""
    mod = importlib.import_module(f"replay.fmt_{fmt}")
    rng = random.Random(seed)
    specs = mod.gen_specs(rng, n_specs, hints)
    cases = []
    for sp in specs:
        reqs = []
        for r in mod.requests(sp, rng):
            reqs.append([r[0], r[1], "stream.read"])
        if "sectors" in apis and hasattr(mod, "sector_requests"):
            for r in mod.sector_requests(sp, rng):
                reqs.append([r[0], r[1], "sectors"])
        cases.append({"spec": sp, "requests": reqs})
    chunks = [cases[i::jobs] for i in range(jobs)]
    t0 = time.time()
    with ThreadPoolExecutor(max_workers=jobs) as ex:
        results = list(ex.map(lambda ch: run_batch(repo, fmt, ch, timeout=budget_s) if ch else [], chunks))
    evaluations = 0
    nontrivial = set()
    failures = []
    herr = []
    for ch, res in zip(chunks, results):
        for case, r in zip(ch, res):
            evaluations += r["stats"].get("requests", 0)
            if r["stats"].get("nontrivial"):
                nontrivial.add(json.dumps(case["spec"], sort_keys=True))
            for f in r["fails"]:
                if f["kind"] == "harness-error":
                    herr.append(f)
                    continue
                key = classify(case["spec"], f) if classify else f["kind"]
                if key in exclude:
                    continue
                failures.append({"spec": case["spec"], "failure": f, "key": key})
    failures.sort(key=lambda x: len(json.dumps(x["spec"])))
    seen_keys = {}
    for f in failures:
        seen_keys.setdefault(f["key"], f)
    failures = list(seen_keys.values()) + failures
    return {"evaluations": evaluations, "distinct_nontrivial": len(nontrivial), "failures": failures[:20], "n_failures": len(failures),
            "harness_errors": herr[:3], "wall_s": round(time.time() - t0, 1), "specs": len(specs),
            "rule": f"{len(specs)} generated abstract {fmt} images (seed {seed}) x request grid (all sector-aligned ranges up to a cap + random unaligned + read-to-end + past-the-end), "
                    f"run on the real code, compared byte-for-byte with the executable specification; non-trivial = image with at least one request whose expected bytes are not all zero; distinct = distinct image specs"}


def replay_one(repo, fmt, spec, requests, per_req_timeout=10.0):
    return run_batch(repo, fmt, [{"spec": spec, "requests": requests}], per_req_timeout=per_req_timeout)[0]
