"""Bounded stand-in for C20: generated visor-tar / ustar archives (plain and gzip-wrapped) through the real vmtar module."""
from __future__ import annotations

import gzip
import io
import json
import random
import sys
import tarfile


def ustar_header(name, size, typeflag=b"0", magic=b"ustar\x0000", extra=None):
    h = bytearray(512)
    nb = name.encode()
    h[0:min(len(nb), 100)] = nb[:100]
    h[100:108] = b"0000644\x00"
    h[108:116] = b"0000000\x00"
    h[116:124] = b"0000000\x00"
    h[124:136] = b"%011o\x00" % size
    h[136:148] = b"%011o\x00" % 0
    h[156:157] = typeflag
    h[257:257 + len(magic)] = magic
    if extra:
        for off, val in extra.items():
            h[off:off + 4] = val.to_bytes(4, "little")
    h[148:156] = b"        "
    chk = sum(h)
    h[148:156] = b"%06o\x00 " % chk
    return bytes(h)


def build(rng):
    """returns (archive bytes, expected {name: bytes|None for dirs}, description)"""
    nm = rng.randint(0, 6)
    members = []
    visor = rng.random() < 0.75
    for i in range(nm):
        kind = rng.choice(["file", "file", "file", "empty", "dir"])
        name = rng.choice(["a", "bin/x", "etc/conf.d/" + "n" * rng.randint(1, 60), "usr/lib/vmware/file%d" % i, "ü%d" % i, "opt/" + "long" * rng.randint(26, 40)]) + str(i)
        size = 0 if kind != "file" else rng.choice([1, 511, 512, 513, 4096, rng.randint(1, 3000)])
        data = bytes((i * 31 + j) & 0xFF for j in range(size))
        members.append((kind, name, data))
    expected = {}
    r2 = random.Random(repr(members))  # private generator: the main stream (all other generated archives) stays as it was
    if not visor and r2.random() < 0.5:
        # plain POSIX ustar archive whose members use the prefix field (bytes 345..499 of the header) up to its last byte: bytes 496..499,
        # where a visor header keeps its data offset, are then ordinary path characters
        bio = io.BytesIO()
        mem2 = []
        with tarfile.open(fileobj=bio, mode="w", format=tarfile.USTAR_FORMAT) as t:
            for i, k in enumerate(r2.sample([120, 150, 151, 152, 153, 154, 155], r2.randint(2, 5))):
                name = "p" * k + "/f%d.bin" % i  # prefix of exactly k characters (the only place the path can be split)
                data = bytes((i * 17 + j) & 0xFF for j in range(r2.choice([0, 1, 512, 700])))
                ti = tarfile.TarInfo(name)
                ti.size = len(data)
                t.addfile(ti, io.BytesIO(data))
                expected[name] = data
                mem2.append(("file", name, len(data)))
            ti = tarfile.TarInfo("tail.txt")
            ti.size = 3
            t.addfile(ti, io.BytesIO(b"end"))
            expected["tail.txt"] = b"end"
        return bio.getvalue(), expected, {"visor": False, "format": "ustar", "members": mem2}
    if not visor:
        bio = io.BytesIO()
        with tarfile.open(fileobj=bio, mode="w", format=tarfile.GNU_FORMAT) as t:
            for kind, name, data in members:
                ti = tarfile.TarInfo(name)
                if kind == "dir":
                    ti.type = tarfile.DIRTYPE
                    t.addfile(ti)
                    expected[name] = None
                else:
                    ti.size = len(data)
                    t.addfile(ti, io.BytesIO(data))
                    expected[name] = data
        return bio.getvalue(), expected, {"visor": False, "members": [(k, n, len(d)) for k, n, d in members]}
    # visor: all headers first, data area afterwards in a shuffled order, page aligned or not
    hdr_len = 512 * (len(members) + 2) + sum(512 + (len(nm.encode()) + 1 + 511) // 512 * 512 for _k, nm, _d in members if len(nm.encode()) > 100)
    order = [i for i, m in enumerate(members) if m[0] == "file"]
    rng.shuffle(order)
    pos = hdr_len + rng.choice([0, 512, 4096 - hdr_len % 4096, (1 << 24) + 4096])  # sometimes a data area beyond 16 MiB
    offs = {}
    area = bytearray()
    base = pos
    for i in order:
        pad = rng.choice([0, 0, 512 - len(area) % 512 if len(area) % 512 else 0, 7])
        area += b"\x00" * pad
        offs[i] = base + len(area)
        area += members[i][2]
    out = bytearray()
    def longname(nm):
        nb_ = nm.encode() + b"\x00"
        return ustar_header("././@LongLink", len(nb_), b"L", b"ustar  \x00") + nb_ + b"\x00" * ((512 - len(nb_) % 512) % 512)

    for i, (kind, name, data) in enumerate(members):
        if len(name.encode()) > 100:
            out += longname(name)
        if kind == "dir":
            out += ustar_header(name, 0, b"5", b"visor  ", {496: 0, 504: 0, 508: 0})
            expected[name] = None
        elif kind == "empty":
            out += ustar_header(name, 0, b"0", b"visor  ", {496: 0, 504: 0, 508: 0})
            expected[name] = b""
        else:
            # regular files are type '0', the old-style NUL, or '7' (contiguous): a tar reader treats all three as files (private generator)
            tflag = random.Random(repr((name, len(data)))).choice([b"0", b"0", b"0", b"\0", b"7"])
            out += ustar_header(name, len(data), tflag, b"visor  ", {496: offs[i], 504: rng.randint(0, 9), 508: rng.randint(0, 9)})
            expected[name] = data
    out += b"\x00" * 1024
    out += b"\x00" * (base - len(out))
    out += area
    out += b"\x00" * rng.choice([0, 512, 1000])
    return bytes(out), expected, {"visor": True, "members": [(k, n, len(d)) for k, n, d in members], "order": order}


def main():
    seed, n = int(sys.argv[1]), int(sys.argv[2])
    from dissect.hypervisor.util import vmtar

    rng = random.Random(seed)
    fails = []
    evals = 0
    distinct = 0
    for case in range(n):
        raw, expected, desc = build(rng)
        cut = rng.randrange(1, max(2, len(raw)))
        for wrap in ("plain", "gz", "gz-two-members", "gz-default-mode"):
            evals += 1
            # a gzip stream may consist of several members (RFC 1952 2.2); the standard reader concatenates them
            data = raw if wrap == "plain" else (gzip.compress(raw[:cut]) + gzip.compress(raw[cut:]) if wrap == "gz-two-members" else gzip.compress(raw))
            try:
                t = vmtar.open(fileobj=io.BytesIO(data)) if wrap == "gz-default-mode" else vmtar.open(fileobj=io.BytesIO(data), mode="r:" if wrap == "plain" else "r:*")
                got = {}
                for m in t:
                    if m.isdir():
                        got[m.name.rstrip("/")] = None
                    else:
                        f = t.extractfile(m)
                        got[m.name] = f.read() if f is not None else None
                exp = {k.rstrip("/"): v for k, v in expected.items()}
                if got != exp:
                    bad = [k for k in set(got) | set(exp) if got.get(k, "missing") != exp.get(k, "missing")]
                    fails.append({"archive": desc, "wrap": wrap, "problem": f"members differ: {bad[:3]} (got {len(got)} members, expected {len(exp)})"})
                # standard reader agreement for non-visor archives
                if not desc["visor"]:
                    std = {m.name.rstrip("/"): (None if m.isdir() else tarfile.open(fileobj=io.BytesIO(raw)).extractfile(m.name).read()) for m in tarfile.open(fileobj=io.BytesIO(raw))}
                    if std != got:
                        fails.append({"archive": desc, "wrap": wrap, "problem": "differs from the standard tar reader"})
            except Exception as e:  # noqa: BLE001
                fails.append({"archive": desc, "wrap": wrap, "problem": f"exception {type(e).__name__}: {e}"})
        if expected:
            distinct += 1
    # two archives alive in one process that contain a byte-identical header block at different positions (a visor tar with an in-line
    # ustar member, and a plain tar with the same member header): each must extract its own bytes, whichever was opened or listed first
    def pad(b):
        return b + b"\x00" * ((512 - len(b) % 512) % 512)

    for k in range(4):
        n = rng.choice([5, 300, 512, 700])
        boot_v = bytes((3 * j + k) & 0xFF for j in range(n))
        boot_p = bytes((5 * j + 1 + k) & 0xFF for j in range(n))
        big = bytes((7 * j) & 0xFF for j in range(1500))
        hb = ustar_header("boot.cfg", n)
        off_big = 512 * 2 + len(pad(boot_v)) + 1024 + 512
        V = ustar_header("big.bin", len(big), b"0", b"visor  ", {496: off_big, 504: 1, 508: 0}) + hb + pad(boot_v) + b"\x00" * 1024
        V = V + b"\x00" * (off_big - len(V)) + big
        first = bytes(range(256)) * 3
        P = ustar_header("first.txt", len(first)) + pad(first) + hb + pad(boot_p) + b"\x00" * 1024
        evals += 1
        try:
            order = [("V", V, {"big.bin": big, "boot.cfg": boot_v}), ("P", P, {"first.txt": first, "boot.cfg": boot_p})]
            if k % 2:
                order.reverse()
            opened = [(nm_, vmtar.open(fileobj=io.BytesIO(raw_), mode="r:"), exp_) for nm_, raw_, exp_ in order]
            listed = [(nm_, t_, t_.getmembers(), exp_) for nm_, t_, exp_ in opened]  # both listed before anything is extracted
            for nm_, t_, mem_, exp_ in listed:
                got = {m_.name: t_.extractfile(m_).read() for m_ in mem_}
                if got != exp_:
                    bad = [x for x in exp_ if got.get(x) != exp_[x]]
                    fails.append({"archive": {"pair": k, "which": nm_, "opened_first": order[0][0]}, "wrap": "plain", "problem": f"two archives open at once: members {bad} of archive {nm_} extract the wrong bytes"})
        except Exception as e:  # noqa: BLE001
            fails.append({"archive": {"pair": k}, "wrap": "plain", "problem": f"two archives open at once: exception {type(e).__name__}: {e}"})
    json.dump({"evaluations": evals, "distinct": distinct, "failures": fails[:5], "n_failures": len(fails),
               "rule": "generated archives: 0-6 members (files of 1..4096 bytes, empty files, directories, long and non-ASCII names), visor members with data areas in shuffled order and arbitrary alignment / plain ustar, each plain, gzip-wrapped (explicit and default mode) and wrapped as a two-member gzip stream; pairs of archives with a byte-identical member header open at the same time; oracle = the generated contents, and the stdlib reader for non-visor archives"}, sys.stdout)


if __name__ == "__main__":
    main()
