"""Parallels HDS builder + executable specification.
spec: {"ver": 1|2, "spc", "nclusters", "size_sectors", "first", "bat": [slot|None,...], "parent": spec|None}
slot s is stored at unit (first + s*step) where the unit is a sector (v1) or a cluster (v2)."""
from __future__ import annotations

import random

from .sparsefile import SparseFile


def pattern(layer, slot, j):
    return (31 * (layer + 1) + 13 * (slot + 1) + j + 5 * (j >> 8)) & 0xFF or 1


def entry(spec, slot):
    return spec["first"] + slot * (spec["spc"] if spec["ver"] == 1 else 1)


def build(spec, layer=0):
    from dissect.hypervisor.disk.c_hdd import c_hdd

    if "bat_sparse" in spec and "bat" not in spec:
        spec["bat"] = [None] * spec["nclusters"]
        for k_, v_ in spec["bat_sparse"].items():
            spec["bat"][int(k_)] = v_
    spc, n = spec["spc"], spec["nclusters"]
    cs = spc * 512
    f = SparseFile()
    import struct

    # ploop1_image.h / parallels.txt header: sig[16] type heads cylinders sectors size(u32 each) size_in_sectors(u32+u32 | u64)
    # in_use first_block_offset flags (u32 each) ext_offset (u64): 64 bytes, little endian
    sig = b"WithoutFreeSpace" if spec["ver"] == 1 else b"WithouFreSpacExt"
    fbo = spec["first"] if spec["ver"] == 1 else spec["first"] * spc
    raw = sig + struct.pack("<IIIII", 2, 16, 1, spc, n) + (struct.pack("<II", spec["size_sectors"], 0) if spec["ver"] == 1 else struct.pack("<Q", spec["size_sectors"])) \
        + struct.pack("<IIIQ", 0x746F6E59 if spec.get("in_use") else 0, fbo, 0, 0)
    assert len(raw) == 64
    f.put(0, raw)
    bat = b"".join((0 if s is None else entry(spec, s)).to_bytes(4, "little") for s in spec["bat"])
    f.put(64, bat)
    mult = 512 if spec["ver"] == 1 else cs
    for s in spec["bat"]:
        if s is not None:
            if cs <= 65536:
                f.put(entry(spec, s) * mult, bytes(pattern(layer, s, j) for j in range(cs)))
            else:  # large clusters: bytes are synthesised on demand
                f.put_fn(entry(spec, s) * mult, cs, lambda st_, n_, s=s: bytes(pattern(layer, s, j) for j in range(st_, st_ + n_)))
    return f


def big_specs():
    """C13: version-2 image of 24 TiB with a 3 MiB BAT, marked "in use", clusters placed beyond 2^32 sectors and out of order; the BAT may
    be loaded once (mapping metadata), not once per request"""
    spc = 2048  # 1 MiB clusters
    n = 786432
    bat = {"0": 3000000, "5": 3, "700000": 2500001, str(n - 1): 7}  # cluster numbers above 2^32 / 2048: file offsets beyond 2^32 sectors
    return [{"ver": 2, "spc": spc, "nclusters": n, "first": 1, "size_sectors": n * spc, "bat_sparse": bat, "in_use": True, "meta_bytes": 4 * n + 64,
             "requests": [[0, 4096], [5 * spc * 512 + 100, 9000], [700000 * spc * 512 + spc * 512 - 300, 1000], [(n - 1) * spc * 512, 20000], [3 * spc * 512, 5000], [0, 512]]}]


def guest_byte(spec, x, layer=0):
    cs = spec["spc"] * 512
    s = spec["bat"][x // cs] if "bat" in spec else spec["bat_sparse"].get(str(x // cs))
    if s is None:
        p = spec.get("parent")
        return guest_byte(p, x, layer + 1) if p else 0
    return pattern(layer, s, x % cs)


def oracle(spec, off, length):
    size = spec["size_sectors"] * 512
    end = min(off + length, size)
    return bytes(guest_byte(spec, x) for x in range(off, end)) if off < end else b""


def open_real(fh, spec):
    from dissect.hypervisor.disk.hdd import HDS

    def chain(sp, layer):
        parent = chain(sp["parent"], layer + 1) if sp.get("parent") else None
        return HDS(build(sp, layer), parent=parent)

    return HDS(fh, parent=chain(spec["parent"], 1) if spec.get("parent") else None)


def _one(rng, ver, spc, n, size_sectors):
    cs = spc * 512
    min_bytes = 64 + 4 * n
    if ver == 1:
        first = (min_bytes + 511) // 512 + rng.choice([0, 0, 0, 1, 3])
    else:
        first = (min_bytes + cs - 1) // cs + rng.choice([0, 0, 1])
    slots = list(range(n))
    rng.shuffle(slots)
    return {"ver": ver, "spc": spc, "nclusters": n, "size_sectors": size_sectors, "size": size_sectors * 512, "first": first,
            "bat": [s if rng.random() < 0.55 else None for s in slots]}


def gen_specs(rng: random.Random, n, hints=None):
    out = []
    for _ in range(n):
        ver = rng.choice([1, 2])
        spc = rng.choice([1, 1, 2, 3, 4, 8])
        nc = rng.randint(1, 6)
        size_sectors = nc * spc - (rng.randint(0, spc - 1) if rng.random() < 0.3 else 0)
        sp = _one(rng, ver, spc, nc, max(1, size_sectors))
        cur = sp
        for _d in range(rng.choice([0, 0, 1, 2])):
            cur["parent"] = _one(rng, rng.choice([1, 2]), spc, nc, sp["size_sectors"])
            cur = cur["parent"]
        out.append(sp)
    return out


def requests(spec, rng, limit=50):
    size = spec["size"]
    reqs = [(0, size), (0, size + 100), (size, 10)]
    ns = size // 512
    pairs = [(a, b) for a in range(ns + 1) for b in range(a, ns + 1)]
    rng.shuffle(pairs)
    reqs += [(a * 512, (b - a) * 512) for a, b in pairs[:limit]]
    for _ in range(12):
        o = rng.randint(0, size)
        reqs.append((o, rng.randint(0, size - o + 5)))
    return reqs
