"""Bounded stand-in for the string-processing part of the VMDK descriptor (C10/C14): DiskDescriptor.parse + ExtentDescriptor on
generated descriptors whose file names use spaces, quotes, emoji, CJK and every Unicode line/paragraph separator.  JSON on stdout."""
from __future__ import annotations

import json
import random
import sys

ALPHABET = ["a", "Z", "0", " ", "  ", "-", ".", "_", "(", ")", "#", "=", "'", '"', " ", " ", "\x0b", "\x0c", "\x1c", "\x1d", "\x1e", "\x85", "\t",
            "é", "ß", "日本", "😀", "RW ", "SPARSE", "%20", "\\"]
TYPES = ["FLAT", "VMFS", "SPARSE", "VMFSSPARSE", "SESPARSE"]


def main():
    seed = int(sys.argv[1]) if len(sys.argv) > 1 else 0
    n = int(sys.argv[2]) if len(sys.argv) > 2 else 300
    from dissect.hypervisor.disk.vmdk import DiskDescriptor

    rng = random.Random(seed)
    failures = []
    distinct = set()
    evals = 0
    for i in range(n):
        exts = []
        for _ in range(rng.randint(1, 4)):
            name = "".join(rng.choice(ALPHABET) for _ in range(rng.randint(1, 6))).strip() or "x"
            if name.endswith('"') or name.startswith('"'):
                name = "n" + name + "n"  # quotes strictly inside (the parser strips outer quotes by design)
            t = rng.choice(TYPES)
            sectors = rng.choice([0, 1, 63, 2048, 4192256, 2 ** 33 + 5])
            start = rng.choice([None, 0, 128]) if t in ("FLAT", "VMFS") else None
            exts.append((rng.choice(["RW", "RDONLY", "NOACCESS"]), sectors, t, name + ".vmdk", start))
        kv = {"version": "1", "CID": "fffffffe", "parentCID": "ffffffff", "createType": rng.choice(['"monolithicFlat"', "custom", '"vmfs"'])}
        ddb = {"ddb.adapterType": "lsilogic", "ddb.geometry.cylinders": str(rng.randint(1, 99999))}
        lines = ["# Disk DescriptorFile"] + [f"{k}={v}" for k, v in kv.items()] + ["", "# Extent description"]
        for acc, sec, t, name, start in exts:
            lines.append(f'{acc} {sec} {t} "{name}"' + (f" {start}" if start is not None else ""))
        lines += ["", "# The Disk Data Base", "#DDB", ""] + [f'{k} = "{v}"' for k, v in ddb.items()]
        text = ("\r\n" if rng.random() < 0.2 else "\n").join(lines) + "\n"
        evals += 1
        distinct.add(tuple(e[3] for e in exts))
        try:
            d = DiskDescriptor.parse(text)
            got = [(e.access_mode, e.sectors, e.type, e.filename, e.start_sector) for e in d.extents]
            want = [(a, s, t, nm, st) for a, s, t, nm, st in exts]
            problems = []
            if got != want:
                problems.append(f"extents parsed {got} != declared {want}")
            if d.sectors != sum(e[1] for e in exts):
                problems.append(f"sector total {d.sectors} != {sum(e[1] for e in exts)}")
            for k, v in kv.items():
                if d.attr.get(k) != v.strip('"'):
                    problems.append(f"attr {k}={d.attr.get(k)!r} != {v.strip(chr(34))!r}")
            for k, v in ddb.items():
                if d.ddb.get(k) != v:
                    problems.append(f"ddb {k}={d.ddb.get(k)!r} != {v!r}")
        except Exception as e:  # noqa: BLE001
            problems = [f"exception {type(e).__name__}: {e}"]
        if problems:
            failures.append({"descriptor": text, "problems": problems[:3]})
    json.dump({"evaluations": evals, "distinct": len(distinct), "failures": failures[:5], "n_failures": len(failures),
               "rule": "generated descriptors: 1-4 extents of the five data-bearing types, names over an alphabet with spaces, inner quotes, emoji, CJK and all Unicode line separators; LF or CRLF; oracle = the generated extent list / key-values; distinct = distinct name tuples"}, sys.stdout)


if __name__ == "__main__":
    main()
