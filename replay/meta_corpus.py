"""C14 bounded stand-in: images / descriptors with generated metadata, built by independent encoders, opened by the real classes; every
exposed metadata value must equal the generated one.

Encoders follow the format specifications: QEMU docs/interop/qcow2.txt (header, header extensions padded to 8 bytes, snapshot table
entries padded to 8 bytes), MS-VHDX 2.2-2.6 (headers with sequence numbers, metadata items, parent locator with UTF-16-LE key/values),
VMware virtual disk format 1.1 (descriptor file, embedded descriptor), Microsoft VHD 1.0 (footer, dynamic header), VirtualBox VDI
header v1.1, QEMU docs/interop/prl-xml.txt + parallels.txt (DiskDescriptor.xml, HDS header).

usage: python -m replay.meta_corpus <seed> <n_per_format> -> JSON on stdout"""
from __future__ import annotations

import io
import json
import os
import random
import shutil
import struct
import sys
import tempfile
import uuid
from xml.sax.saxutils import escape

TEXTS = ["qcow2", "raw", "QCOW2", "Raw", "vmdk", "base image.qcow2", "bäse-ïmage.img", "../dir/b.img", "ß", "a" * 200, "x", "日本語.qcow2", " leading and trailing space ", "tab\tinside", "trailing newline\n"]


def diff(name, got, want, out):
    if got != want:
        out.append(f"{name}: exposed {got!r}, stored {want!r}"[:300])


# ------------------------------------------------------------------------------------------------ QCOW2
def gen_qcow2(rng):
    version = rng.choice([2, 3, 3])
    cb = rng.choice([9, 12, 16])
    cs = 1 << cb
    size = rng.choice([0, 1, cs, 10 * cs + 5, (1 << 40) + 3])
    backing = rng.choice([None, None] + TEXTS)
    hl = 72 if version == 2 else rng.choice([104, 112])
    exts = []
    if rng.random() < 0.6:
        for _ in range(rng.randrange(0, 5)):
            kind = rng.choice(["format", "feature", "datafile", "unknown", "unknown"])
            if kind == "format" and not any(e[0] == "format" for e in exts):
                exts.append(("format", 0xE2792ACA, rng.choice(TEXTS).encode()))
            elif kind == "feature" and not any(e[0] == "feature" for e in exts):
                exts.append(("feature", 0x6803F857, rng.randbytes(48 * rng.randrange(0, 3))))
            elif kind == "datafile" and not any(e[0] == "datafile" for e in exts):
                exts.append(("datafile", 0x44415441, rng.choice(TEXTS).encode()))
            elif kind == "unknown":
                exts.append(("unknown", rng.choice([0x12345678, 0xCAFEBABE, 0x0000BEEF]), rng.randbytes(rng.choice([0, 1, 7, 8, 9, 15, 16, 100]))))
    ext_blob = b""
    for _, magic, data in exts:
        ext_blob += struct.pack(">II", magic, len(data)) + data + b"\0" * (-len(data) % 8)
    ext_blob += struct.pack(">II", 0, 0)
    # place: header | extensions | backing name  (all inside the first cluster for cb >= 12; for cb = 9 keep them short)
    if hl + len(ext_blob) + (len(backing.encode()) if backing else 0) > cs:
        exts = exts[:1] if exts and len(exts[0][2]) < 64 else []
        ext_blob = b"".join(struct.pack(">II", m, len(d)) + d + b"\0" * (-len(d) % 8) for _, m, d in exts) + struct.pack(">II", 0, 0)
        if backing and hl + len(ext_blob) + len(backing.encode()) > cs:
            backing = "b.img"
    bfo = hl + len(ext_blob) if backing else 0
    bname = backing.encode() if backing else b""
    snaps = []
    snap_blob = b""
    snap_off = 4 * cs
    for i in range(rng.choice([0, 0, 1, 2, 4])):
        sid, name = rng.choice(["1", "12", "snapid", "ü1"]), rng.choice(["", "s", "before update", "snäpshot", "n" * 31, "日本"])
        extra_size = rng.choice([0, 16, 24, 32]) if version == 3 else rng.choice([0, 16])
        vm_large, disk_size, icount = rng.randrange(1 << 40), rng.randrange(1 << 45), rng.randrange(1 << 63)
        extra = struct.pack(">QQQ", vm_large, disk_size, icount)[:min(extra_size, 24)] + rng.randbytes(max(0, extra_size - 24))
        h = dict(l1_table_offset=rng.randrange(1, 100) * cs, l1_size=rng.randrange(0, 5), date_sec=rng.randrange(1 << 32), date_nsec=rng.randrange(10**9), vm_clock_nsec=rng.randrange(1 << 62),
                 vm_state_size=rng.randrange(1 << 32))
        entry = struct.pack(">QIHHIIQII", h["l1_table_offset"], h["l1_size"], len(sid.encode()), len(name.encode()), h["date_sec"], h["date_nsec"], h["vm_clock_nsec"], h["vm_state_size"], extra_size)
        entry += extra + sid.encode() + name.encode()
        entry += b"\0" * (-len(entry) % 8)  # qcow2.txt: padding to round up the snapshot table entry size to the next multiple of 8
        snaps.append({"id": sid, "name": name, "extra_size": extra_size, "vm_large": vm_large if extra_size >= 8 else 0, "disk_size": disk_size if extra_size >= 16 else 0,
                      "icount": icount if extra_size >= 24 else 0, "unknown_extra": extra[24:] if extra_size > 24 else None, **h})
        snap_blob += entry
    hdr = struct.pack(">IIQIIQIIQQIIQ", 0x514649FB, version, bfo, len(bname), cb, size, 0, 1, 3 * cs, 1 * cs, 1, len(snaps), snap_off if snaps else 0)
    if version == 3:
        hdr += struct.pack(">QQQII", 0, 0, 0, 4, hl) + (b"\0" * 8 if hl == 112 else b"")
    img = bytearray(max(5 * cs + len(snap_blob), 6 * 512))
    img[0:len(hdr)] = hdr
    img[hl:hl + len(ext_blob)] = ext_blob
    if backing:
        img[bfo:bfo + len(bname)] = bname
    img[snap_off:snap_off + len(snap_blob)] = snap_blob
    want = {"size": size, "cluster_size": cs, "backing": backing, "exts": [(k, m, d) for k, m, d in exts], "snaps": snaps, "version": version}
    return bytes(img), want


def check_qcow2(img, want):
    from dissect.hypervisor.disk.qcow2 import ALLOW_NO_BACKING_FILE, QCow2

    q = QCow2(io.BytesIO(img), backing_file=ALLOW_NO_BACKING_FILE if want["backing"] else None)
    out = []
    diff("size", q.size, want["size"], out)
    diff("header.size", q.header.size, want["size"], out)
    diff("cluster_size", q.cluster_size, want["cluster_size"], out)
    diff("auto_backing_file", q.auto_backing_file, want["backing"], out)
    fmt = next((d.decode() for k, m, d in want["exts"] if k == "format"), None)
    diff("backing_format", q.backing_format, fmt, out)
    dfile = next((d.decode() for k, m, d in want["exts"] if k == "datafile"), None)
    diff("image_data_file", q.image_data_file, dfile, out)
    feat = next((d for k, m, d in want["exts"] if k == "feature"), None)
    diff("feature_table", q.feature_table, feat, out)
    diff("unknown_extensions", [(e.magic, e.len, d) for e, d in q.unknown_extensions], [(m, len(d), d) for k, m, d in want["exts"] if k == "unknown"], out)
    snaps = q.snapshots
    diff("len(snapshots)", len(snaps), len(want["snaps"]), out)
    for i, (s, w) in enumerate(zip(snaps, want["snaps"])):
        got = {"id": s.id_str, "name": s.name, "l1_table_offset": s.header.l1_table_offset, "l1_size": s.header.l1_size, "date_sec": s.header.date_sec, "date_nsec": s.header.date_nsec,
               "vm_clock_nsec": s.header.vm_clock_nsec, "vm_state_size": s.header.vm_state_size, "vm_large": s.extra.vm_state_size_large, "disk_size": s.extra.disk_size, "icount": s.extra.icount,
               "unknown_extra": s.unknown_extra}
        diff(f"snapshot[{i}]", got, {k: w[k] for k in got}, out)
    return out


# ------------------------------------------------------------------------------------------------ VHDX
G = {k: uuid.UUID(v) for k, v in {"bat": "2dc27766-f623-4200-9d64-115e9bfd4a08", "meta": "8b7ca206-4790-4b9a-b8fe-575f050f886e", "fp": "caa16737-fa36-4d43-b3b6-33f0aa44e76b",
                                    "size": "2fa54224-cd1b-4876-b211-5dbed83bf4b8", "id": "beca12ab-b2e6-4523-93ef-c309e000c746", "lss": "8141bf1d-a96f-4709-ba47-f233a8faab5f",
                                    "pss": "cda348c7-445d-4471-9cc9-e9885251c556", "ploc": "a8d35f2d-b30b-454d-abf7-d3d84834ab0c", "ploc_type": "b04aefb7-d19e-4a81-b789-25b8e9445913"}.items()}
MB = 1 << 20


def gen_vhdx(rng, parent_name=None, disk_id=None):
    ss = rng.choice([512, 4096])
    bs = rng.choice([1, 2, 32]) * MB
    size = rng.choice([1, 3, 64]) * MB + rng.choice([0, ss])
    seqs = rng.choice([(1, 2), (2, 1), (7, 7), (0xFFFFFFFF00, 5), (5, 0xFFFFFFFF00)])
    disk_id = disk_id or uuid.UUID(bytes=rng.randbytes(16))
    pss = rng.choice([512, 4096])
    guids = [uuid.UUID(bytes=rng.randbytes(16)) for _ in range(2)]
    img = bytearray(4 * MB)
    img[0:8] = b"vhdxfile"
    for off, seq, g in ((64 * 1024, seqs[0], guids[0]), (128 * 1024, seqs[1], guids[1])):
        img[off:off + 4] = b"head"
        struct.pack_into("<IQ", img, off + 4, 0, seq)
        img[off + 16:off + 32] = g.bytes_le  # file_write_guid distinguishes the two copies
        struct.pack_into("<HHIQ", img, off + 64, 0, 1, MB, MB)
    rt = b"regi" + struct.pack("<II", 0, 2) + b"\0" * 4 + G["bat"].bytes_le + struct.pack("<QII", 3 * MB, MB, 1) + G["meta"].bytes_le + struct.pack("<QII", 2 * MB, MB, 1)
    img[192 * 1024:192 * 1024 + len(rt)] = rt
    img[256 * 1024:256 * 1024 + len(rt)] = rt
    kv = None
    items = [(G["fp"], struct.pack("<II", bs, 2 if parent_name else 0)), (G["size"], struct.pack("<Q", size)), (G["lss"], struct.pack("<I", ss)), (G["pss"], struct.pack("<I", pss)), (G["id"], disk_id.bytes_le)]
    if parent_name:
        kv = [("relative_path", parent_name), ("parent_linkage", "{" + str(uuid.UUID(bytes=rng.randbytes(16))) + "}")]
        for _ in range(rng.randrange(0, 4)):
            kv.append((rng.choice(["volume_path", "absolute_win32_path", "parent_linkage2", "kéy", "k" * 40]) + str(len(kv)), rng.choice(TEXTS + ["", "C:\\dir with space\\p.vhdx", "\\\\?\\Volume{x}\\p.vhdx"])))
        rng.shuffle(kv)
        hdr = G["ploc_type"].bytes_le + struct.pack("<HH", 0, len(kv))
        base = len(hdr) + 12 * len(kv)
        # MS-VHDX 2.6.2.6.2: the strings live anywhere in the item after the entry table; the table order says nothing about where
        # (half of the images keep table order, the others place all keys and values in an independent random order with gaps)
        strs = [(i, w, t.encode("utf-16-le")) for i, (k_, v_) in enumerate(kv) for w, t in ((0, k_), (1, v_))]
        if rng.random() < 0.5:
            rng.shuffle(strs)
        body, pos = b"", {}
        for i, w, bts in strs:
            body += b"\0" * rng.choice([0, 0, 2])
            pos[(i, w)] = base + len(body)
            body += bts
        ents = b"".join(struct.pack("<IIHH", pos[(i, 0)], pos[(i, 1)], len(k_.encode("utf-16-le")), len(v_.encode("utf-16-le"))) for i, (k_, v_) in enumerate(kv))
        items.append((G["ploc"], hdr + ents + body))
    rng.shuffle(items)
    mh = b"metadata" + b"\0" * 2 + struct.pack("<H", len(items)) + b"\0" * 20
    table, blob = b"", b""
    for g, d in items:
        table += g.bytes_le + struct.pack("<III", 64 * 1024 + len(blob), len(d), 6) + b"\0" * 4
        blob += d + b"\0" * rng.choice([0, 4])
    img[2 * MB:2 * MB + len(mh + table)] = mh + table
    img[2 * MB + 64 * 1024:2 * MB + 64 * 1024 + len(blob)] = blob
    active = 0 if seqs[0] > seqs[1] else 1
    want = {"size": size, "block_size": bs, "sector_size": ss, "id": disk_id, "has_parent": bool(parent_name), "locator": dict(kv) if kv else None, "active_guid": guids[active], "active_seq": seqs[active]}
    return bytes(img), want


def check_vhdx(rng):
    from pathlib import Path

    from dissect.hypervisor.disk.vhdx import VHDX

    out = []
    differencing = rng.random() < 0.5
    d = tempfile.mkdtemp(prefix="meta_vhdx_")
    try:
        pname = rng.choice(["parent.vhdx", "pärent disk.vhdx", "sub\\parent.vhdx"]) if differencing else None
        pimg, pw = gen_vhdx(rng)
        real_parent = (pname or "p.vhdx").replace("\\", "/")
        os.makedirs(os.path.dirname(os.path.join(d, real_parent)) or d, exist_ok=True)
        open(os.path.join(d, real_parent), "wb").write(pimg)
        img, w = gen_vhdx(rng, parent_name=(".\\" + pname) if pname else None)
        open(os.path.join(d, "child.vhdx"), "wb").write(img)
        v = VHDX(Path(d) / "child.vhdx")
        diff("size", v.size, w["size"], out)
        diff("block_size", v.block_size, w["block_size"], out)
        diff("sector_size", v.sector_size, w["sector_size"], out)
        diff("id", v.id, w["id"], out)
        diff("has_parent", bool(v.has_parent), w["has_parent"], out)
        diff("active header (file_write_guid)", uuid.UUID(bytes_le=bytes(v.header.file_write_guid)), w["active_guid"], out)
        diff("active header sequence", v.header.sequence_number, w["active_seq"], out)
        if w["locator"] is not None:
            diff("parent_locator.entries", dict(v.parent_locator.entries), w["locator"], out)
            diff("parent_locator.type", v.parent_locator.type, G["ploc_type"], out)
            diff("parent.id", v.parent.id if v.parent is not None else None, pw["id"], out)
            if v.parent is not None:
                # two images open in one process: what the parent's metadata table answers must still be the parent's own items
                from dissect.hypervisor.disk.vhdx import LOGICAL_SECTOR_SIZE_GUID, PARENT_LOCATOR_GUID, VIRTUAL_DISK_SIZE_GUID

                diff("parent.metadata[virtual disk size] with the child open", v.parent.metadata.get(VIRTUAL_DISK_SIZE_GUID), pw["size"], out)
                diff("parent.metadata[logical sector size] with the child open", v.parent.metadata.get(LOGICAL_SECTOR_SIZE_GUID), pw["sector_size"], out)
                diff("parent.metadata[parent locator] with the child open (the parent has none)", v.parent.metadata.get(PARENT_LOCATOR_GUID, required=False), None, out)
                diff("child.metadata[virtual disk size] with the parent open", v.metadata.get(VIRTUAL_DISK_SIZE_GUID), w["size"], out)
        v.fh.close() if hasattr(v.fh, "close") else None
        if v.parent is not None and hasattr(v.parent.fh, "close"):
            v.parent.fh.close()
    finally:
        shutil.rmtree(d, ignore_errors=True)
    return out, {"differencing": differencing}


# ------------------------------------------------------------------------------------------------ VMDK descriptor
def gen_vmdk_descriptor(rng):
    cid, pcid = f"{rng.randrange(1 << 32):08x}", rng.choice(["ffffffff", f"{rng.randrange(1 << 32):08x}"])
    attr = {"version": "1", "CID": cid, "parentCID": pcid, "createType": rng.choice(["monolithicSparse", "twoGbMaxExtentFlat", "vmfs", "seSparse", "custom"])}
    if pcid != "ffffffff":
        attr["parentFileNameHint"] = rng.choice(["parent.vmdk", "/vmfs/volumes/ds 1/vm/parent disk.vmdk", "C:\\vms\\p.vmdk", "pärent.vmdk"])
    if rng.random() < 0.3:
        attr["encoding"] = "UTF-8"
    if rng.random() < 0.2:
        attr["ddbLikeSetting"] = "1"  # starts with ddb but is not a ddb.* entry
    extents = []
    for _ in range(rng.randrange(0, 5)):
        acc = rng.choice(["RW", "RDONLY", "NOACCESS"])
        typ = rng.choice(["SPARSE", "FLAT", "VMFS", "VMFSSPARSE", "ZERO", "SESPARSE", "VMFSRDM", "VMFSRAW"])
        n = rng.choice([0, 1, 2048, 4192256, (1 << 40)])
        fname = rng.choice(["disk-s001.vmdk", "my disk-flat.vmdk", "dïsk.vmdk", "a b  c.vmdk", "disk=1#.vmdk"])
        if random.Random(repr((fname, len(extents)))).random() < 0.3:  # private generator: the main stream stays as it was
            fname = random.Random(repr(fname)).choice(['my "old" disk.vmdk', 'copy of "base" 2.vmdk', 'a" b.vmdk'])  # inner quotes followed by a space
        start = rng.choice([None, 0, 128, 2048]) if typ in ("FLAT", "VMFS", "VMFSRAW") else None
        if typ == "ZERO":
            extents.append((acc, n, typ, None, None))
        else:
            extents.append((acc, n, typ, fname, start))
    ddb = {"ddb.virtualHWVersion": "13", "ddb.geometry.cylinders": str(rng.randrange(1, 65535)), "ddb.adapterType": rng.choice(["lsilogic", "ide"]), "ddb.uuid": "60 00 C2 9a 6f 5a 1b 2c-3d 4e 5f 60 71 82 93 a4",
           "ddb.comment": rng.choice(["x", "has = equals", "quoted \"inner\" text", "späce"])}
    style = rng.randrange(4)
    lines = ["# Disk DescriptorFile"]
    for k, v in attr.items():
        if k in ("version",) or v.isalnum() and style == 1:
            lines.append(f"{k}={v}")
        else:
            lines.append(f'{k}="{v}"' if style != 2 else f'{k} = "{v}"')
    lines += ["", "# Extent description"]
    for acc, n, typ, fname, start in extents:
        ln = f"{acc} {n} {typ}"
        if fname is not None:
            ln += f' "{fname}"'
        if start is not None:
            ln += f" {start}"
        lines.append(ln + ("  " if style == 3 else ""))
    lines += ["", "# The Disk Data Base", "#DDB", ""]
    for k, v in ddb.items():
        lines.append(f'{k} = "{v}"')
    text = ("\r\n" if style == 3 else "\n").join(lines) + "\n"
    want = {"attr": attr, "extents": extents, "ddb": ddb, "sectors": sum(e[1] for e in extents)}
    return text, want


def check_descriptor_obj(d, want, out, prefix=""):
    diff(prefix + "attr", dict(d.attr), want["attr"], out)
    diff(prefix + "ddb", dict(d.ddb), want["ddb"], out)
    got = [(e.access_mode, e.sectors, e.type, e.filename, e.start_sector) for e in d.extents]
    diff(prefix + "extents", got, [tuple(e) for e in want["extents"]], out)
    diff(prefix + "sectors", d.sectors, want["sectors"], out)


def check_vmdk(rng):
    from dissect.hypervisor.disk.vmdk import VMDK, DiskDescriptor

    out = []
    text, want = gen_vmdk_descriptor(rng)
    check_descriptor_obj(DiskDescriptor.parse(text), want, out)
    # the same descriptor embedded in a hosted sparse extent (descriptor_offset / descriptor_size in sectors, NUL padded)
    want2 = dict(want, attr=dict(want["attr"], parentCID="ffffffff"))
    want2["attr"].pop("parentFileNameHint", None)
    text2 = "\n".join(ln for ln in text.replace("\r\n", "\n").split("\n") if not ln.startswith(("parentCID", "parentFileNameHint"))) + '\nparentCID="ffffffff"\n'
    want2["attr"] = {k: v for k, v in want2["attr"].items() if k != "parentCID"}
    want2["attr"]["parentCID"] = "ffffffff"
    # some descriptors fill their area to the last byte (no terminating NUL) and end in a character that matters (private generator:
    # the main random stream stays as it was)
    r2 = random.Random(repr(text2))
    exact = r2.random() < 0.35
    if exact:
        last = "ddb.toolsVersion = 10346"
        pad = (-(len(text2.encode()) + len(last))) % 512
        if 0 < pad < 3:
            pad += 512
        text2 = text2 + (("# " + "x" * (pad - 3) + "\n") if pad else "") + last
        want2 = dict(want2, ddb=dict(want2["ddb"], **{"ddb.toolsVersion": "10346"}))
    raw = text2.encode()
    extra_sectors = rng.choice([0, 1, 3])
    dsec = -(-len(raw) // 512) + (0 if exact else extra_sectors)
    doff = rng.choice([1, 2, 8])
    grain, ngte = 128, 512
    cap = grain * 4
    gd_off = doff + dsec + rng.choice([0, 1])
    hdr = struct.pack("<IIIQQQQIQQQBccccH", 0x564D444B, 1, 3, cap, grain, doff, dsec, ngte, 0, gd_off, gd_off + 8, 0, b"\n", b" ", b"\r", b"\n", 0)
    img = bytearray((gd_off + 16) * 512)
    img[0:len(hdr)] = hdr
    img[doff * 512:doff * 512 + len(raw)] = raw
    if dsec * 512 > len(raw) + 8 and rng.random() < 0.5:
        img[doff * 512 + len(raw) + 1:doff * 512 + len(raw) + 8] = b"garbage"  # after the terminating NUL: not part of the descriptor
    struct.pack_into("<I", img, gd_off * 512, gd_off + 4)
    v = VMDK(io.BytesIO(bytes(img)))
    disk = v.disks[0]
    if disk.descriptor is None:
        out.append("embedded descriptor not exposed")
    else:
        check_descriptor_obj(disk.descriptor, want2, out, "embedded.")
    return out, {"n_extents": len(want["extents"])}


# ------------------------------------------------------------------------------------------------ VHD / VDI / HDS headers
def check_vhd(rng):
    from dissect.hypervisor.disk.vhd import VHD

    out = []
    dynamic = rng.random() < 0.6
    cur = rng.choice([512, 3 * 512, 10 * MB + 512, (1 << 41)])
    uid = rng.randbytes(16)
    footer = bytearray(512)
    struct.pack_into(">8sIIQI4sI4sQQHBBII16sB", footer, 0, b"conectix", 2, 0x10000, 512 if dynamic else 0xFFFFFFFFFFFFFFFF, rng.randrange(1 << 32), b"tst ", 0x10000, b"Wi2k", cur + 512, cur, 1, 2, 3, 3 if dynamic else 2, 0, uid, 0)
    bs = rng.choice([512, 4096, 2 * MB])
    nblk = max(1, min(-(-cur // bs), 64))
    if dynamic:
        dh = bytearray(1024)
        puid = rng.randbytes(16)
        pname = rng.choice(["", "parent.vhd", "pärent.vhd"]).encode("utf-16-be")
        struct.pack_into(">8sQQIIII16sI", dh, 0, b"cxsparse", 0xFFFFFFFFFFFFFFFF, 2048, 0x10000, nblk, bs, 0, puid, rng.randrange(1 << 32))
        dh[64:64 + len(pname)] = pname
        img = bytes(footer) + bytes(dh) + b"\0" * 512 + b"\xff" * (4 * nblk) + b"\0" * (-(4 * nblk) % 512) + bytes(footer)
    else:
        img = b"\0" * min(cur, 4096) + bytes(footer)
    v = VHD(io.BytesIO(img))
    diff("size", v.size, cur, out)
    diff("footer.current_size", v.disk.footer.current_size, cur, out)
    diff("footer.original_size", v.disk.footer.original_size, cur + 512, out)
    diff("footer.unique_id", bytes(v.disk.footer.unique_id), uid, out)
    diff("footer.disk_type", int(v.disk.footer.disk_type), 3 if dynamic else 2, out)
    if dynamic:
        diff("header.block_size", v.disk.header.block_size, bs, out)
        diff("header.max_table_entries", v.disk.header.max_table_entries, nblk, out)
        diff("header.table_offset", v.disk.header.table_offset, 2048, out)
        diff("header.parent_unique_id", bytes(v.disk.header.parent_unique_id), puid, out)
    return out, {"dynamic": dynamic}


def check_vdi(rng):
    from dissect.hypervisor.disk.vdi import VDI

    out = []
    bs = rng.choice([512, 4096, MB])
    n = rng.randrange(0, 6)
    size = max(0, n * bs - rng.choice([0, 1, bs // 2]))
    ss = 512
    hdr = bytearray(512)
    hdr[0:40] = b"<<< Oracle VM VirtualBox Disk Image >>>\n"
    uids = [rng.randbytes(16) for _ in range(4)]
    struct.pack_into("<IIIII", hdr, 0x40, 0xBEDA107F, 0x00010001, 0x190, rng.choice([1, 2, 4]), 0)
    struct.pack_into("<IIIIIIIQIIII", hdr, 0x154, 512, 1024, 0, 0, 0, ss, 0, size, bs, 0, n, 0)
    off = 0x188
    for u in uids:
        hdr[off:off + 16] = u
        off += 16
    img = bytes(hdr) + b"\xff" * 4 * n + b"\0" * (-(4 * n) % 512) + b"\0" * 512
    v = VDI(io.BytesIO(img))
    diff("size", v.size, size, out)
    diff("block_size", v.block_size, bs, out)
    diff("sector_size", v.sector_size, ss, out)
    diff("data_offset", v.data_offset, 1024, out)
    diff("header.BlocksInHDD", v.header.BlocksInHDD, n, out)
    diff("header.UUIDVDI", bytes(v.header.UUIDVDI), uids[0], out)
    diff("header.UUIDLink", bytes(v.header.UUIDLink), uids[2], out)
    diff("header.UUIDParent", bytes(v.header.UUIDParent), uids[3], out)
    return out, {}


def check_hds(rng):
    from dissect.hypervisor.disk.hdd import HDS

    out = []
    v2 = rng.random() < 0.5
    spc = rng.choice([1, 8, 2048])
    nsec = rng.choice([0, 1, 5 * spc + 3, (1 << 33) + 1]) if v2 else rng.choice([0, 1, 5 * spc + 3, (1 << 32) - 1])
    nbat = min(-(-nsec // spc), 16)
    first = rng.choice([1, 8, 2048])
    hdr = bytearray(64)
    hdr[0:16] = b"WithouFreSpacExt" if v2 else b"WithoutFreeSpace"
    in_use = 0x746F6E59 if rng.random() < 0.3 else rng.choice([0, 1])
    struct.pack_into("<IIIII", hdr, 16, 2, 16, 63, spc, nbat)
    if v2:
        struct.pack_into("<Q", hdr, 36, nsec)
    else:
        struct.pack_into("<II", hdr, 36, nsec, rng.randrange(1 << 32))  # the second word is unused in version 1
    struct.pack_into("<IIIQ", hdr, 44, in_use, first, 0, 0)
    img = bytes(hdr) + b"\0" * (4 * nbat) + b"\0" * 512
    v = HDS(io.BytesIO(img))
    diff("size", v.size, nsec * 512, out)
    diff("cluster_size", v.cluster_size, spc * 512, out)
    diff("data_offset", v.data_offset, first, out)
    diff("in_use", v.in_use, in_use == 0x746F6E59, out)
    return out, {"v2": v2}


# ------------------------------------------------------------------------------------------------ Parallels DiskDescriptor.xml
DEFAULT_TOP = uuid.UUID("5fbaabe3-6958-40ff-92a7-860e329aab41")


def check_hdd_descriptor(rng):
    from pathlib import Path

    from dissect.hypervisor.disk.hdd import Descriptor

    out = []
    shots = []
    n = rng.randrange(1, 5)
    guids = [DEFAULT_TOP if (i == 0 and rng.random() < 0.6) else uuid.UUID(bytes=rng.randbytes(16)) for i in range(n)]
    for i, g in enumerate(guids):
        shots.append((g, guids[i + 1] if i + 1 < n else uuid.UUID(int=0)))
    top = rng.choice([None, guids[0], guids[-1]])
    storages = []
    pos = 0
    for si in range(rng.randrange(1, 4)):
        end = pos + rng.randrange(1, 1 << 30)
        images = [(g, rng.choice(["Compressed", "Plain"]), rng.choice(["disk.hds", "my disk.hdd.0.{%s}.hds" % g, "dïsk.hds", "/abs/path/x.hds", " spaced name.hds "])) for g in guids]
        storages.append((pos, end, images))
        pos = end
    braces = rng.random() < 0.8

    def gtxt(g):
        return ("{%s}" % g) if braces else str(g)

    xml = ['<?xml version="1.0" encoding="UTF-8"?>', '<Parallels_disk_image Version="1.0">', "<Disk_Parameters><Disk_size>%d</Disk_size><LogicSectorSize>512</LogicSectorSize></Disk_Parameters>" % pos, "<StorageData>"]
    for s, e, images in storages:
        xml.append(f"<Storage><Start>{s}</Start><End>{e}</End><Blocksize>2048</Blocksize>")
        for g, t, f in images:
            xml.append(f"<Image><GUID>{gtxt(g)}</GUID><Type>{t}</Type><File>{escape(f)}</File></Image>")
        xml.append("</Storage>")
    xml.append("</StorageData><Snapshots>")
    if top is not None:
        xml.append(f"<TopGUID>{gtxt(top)}</TopGUID>")
    for g, p in shots:
        xml.append(f"<Shot><GUID>{gtxt(g)}</GUID><ParentGUID>{gtxt(p)}</ParentGUID></Shot>")
    xml.append("</Snapshots></Parallels_disk_image>")
    d = tempfile.mkdtemp(prefix="meta_hdd_")
    try:
        p = Path(d) / "DiskDescriptor.xml"
        p.write_text("\n".join(xml), encoding="utf-8")
        desc = Descriptor(p)
        got_st = [(s.start, s.end, [(i.guid, i.type, i.file) for i in s.images]) for s in desc.storage_data.storages]
        diff("storages", got_st, [(s, e, [(g, t, f) for g, t, f in images]) for s, e, images in storages], out)
        diff("shots", [(s.guid, s.parent) for s in desc.snapshots.shots], shots, out)
        diff("top_guid", desc.snapshots.top_guid, top, out)
    finally:
        shutil.rmtree(d, ignore_errors=True)
    return out, {"top": top is not None}


def main(seed, n):
    rng = random.Random(seed)
    failures, evals = [], 0
    groups = {}

    def run(fmt, fn):
        nonlocal evals
        for ci in range(n):
            evals += 1
            st = rng.getstate()
            try:
                res = fn(rng)
                problems, info = res if isinstance(res, tuple) else (res, {})
            except Exception as e:  # noqa: BLE001
                import traceback

                problems, info = [f"raise {type(e).__name__}: {e} @ {traceback.format_exc().splitlines()[-3].strip()[:120]}"], {}
            for p in problems:
                key = f"{fmt}:{p.split(':')[0][:40]}"
                groups[key] = groups.get(key, 0) + 1
                if groups[key] <= 2:
                    failures.append({"format": fmt, "case": ci, "seed": seed, "problem": p, "info": info})

    def q(rng_):
        img, want = gen_qcow2(rng_)
        return check_qcow2(img, want), {"version": want["version"], "n_snapshots": len(want["snaps"]), "n_ext": len(want["exts"])}

    run("qcow2", q)
    run("vhdx", check_vhdx)
    run("vmdk", check_vmdk)
    run("vhd", check_vhd)
    run("vdi", check_vdi)
    run("hds", check_hds)
    run("hdd", check_hdd_descriptor)
    print(json.dumps({"evaluations": evals, "n_failures": sum(groups.values()), "groups": groups, "failures": failures,
                      "rule": "generated metadata per format (QCOW2 v2/v3 headers, 0..4 header extensions of all kinds with lengths 0..100, backing names and formats in UTF-8, 0..4 snapshots with extra data "
                              "0/16/24/32 and unaligned id/name lengths; VHDX headers with either copy newer, metadata items in any order, differencing disks with 2..5 UTF-16 locator entries; VMDK descriptor "
                              "files with 0..4 extents of all 8 types, quoted names with spaces, ddb entries, CRLF, and the same embedded in a sparse extent; VHD fixed/dynamic; VDI; HDS v1/v2; Parallels "
                              "DiskDescriptor.xml with 1..3 storages, 1..4 snapshots, optional TopGUID): every exposed value == stored value"}, default=str))


if __name__ == "__main__":
    main(int(sys.argv[1]) if len(sys.argv) > 1 else 1, int(sys.argv[2]) if len(sys.argv) > 2 else 60)
