"""C16 bounded stand-in: ESXi envelopes and keystores built by an independent encoder (real AES-256-GCM from pycryptodome),
opened with the real Envelope / KeyStore / command-line tool.

File layout (crypto-util, as documented in util/envelope.py and observed in tests/data/local.tgz.ve):
  block 0 (4096)  : EnvelopeFileHeader {magic[21] "DataTransformEnvelope", pad[483], size u32 = 3584, version u32 = 2}
                    then attributes {type u8, flag u8, 0 u16, name NUL-terminated, value by type}, 4 NUL bytes, zero fill
  data            : AES-256-GCM(key, iv, AAD = block 0 || caller's aad) of  payload || padding bytes || crypto footer block (4096:
                    3584 filler bytes, then {magic[25] "DataTransformCryptoFooter", pad[479], padding u32, version u32})
  last block      : DataTransformAeadFooter {magic[23], pad[9], data[4056] (tag first), size u32 = 16, version u32 = 1}
  vmware.keyHash  = SHA-256("AES-256-GCM" || key)

usage: python -m replay.envelope_corpus <seed> <tier> -> JSON on stdout"""
from __future__ import annotations

import base64
import hashlib
import io
import json
import os
import random
import struct
import sys
import tempfile
import uuid

BLOCK = 4096
SALT = b"This is obfuscation, not encryption. If you want encryption, use TPM."
T = {"u8": (1, "<B"), "u16": (2, "<H"), "u32": (3, "<I"), "u64": (4, "<Q"), "i8": (5, "<b"), "i16": (6, "<h"), "i32": (7, "<i"), "i64": (8, "<q"), "f32": (9, "<f"), "f64": (10, "<d")}


def pack_attr(name, kind, flag, value):
    if kind == "str":
        body = value.encode() + b"\0"
        t = 11
    elif kind == "bytes":
        body = struct.pack("<Q", len(value)) + value
        t = 12
    else:
        t, fmt = T[kind]
        body = struct.pack(fmt, value)
    return bytes([t, flag, 0, 0]) + name.encode() + b"\0" + body


def header_block(attrs, version=2):
    body = b"".join(pack_attr(*a) for a in attrs) + b"\0\0\0\0"
    assert 512 + len(body) <= BLOCK
    hdr = b"DataTransformEnvelope" + b"\0" * 483 + struct.pack("<II", BLOCK - 512, version)
    return (hdr + body).ljust(BLOCK, b"\0")


def build(rng, key, iv, payload, padding, extra_attrs, aad, order="std"):
    from Crypto.Cipher import AES

    req = [("vmware.keyInfo", "str", 0, str(uuid.UUID(bytes=rng.randbytes(16)))), ("vmware.cipherName", "str", 0, "AES-256-GCM"),
           ("vmware.keyHash", "bytes", 0, hashlib.sha256(b"AES-256-GCM" + key).digest()), ("vmware.iv", "bytes", 0, iv)]
    attrs = req + list(extra_attrs)
    if order == "shuffled":
        rng.shuffle(attrs)
    elif order == "reversed":
        attrs.reverse()
    head = header_block(attrs)
    footer_block = rng.randbytes(BLOCK - 512) + b"DataTransformCryptoFooter" + b"\0" * 479 + struct.pack("<II", padding, 2)
    plain = payload + rng.randbytes(padding) + footer_block
    c = AES.new(key, AES.MODE_GCM, nonce=iv)
    c.update(head)
    if aad:
        c.update(aad)
    ct, tag = c.encrypt_and_digest(plain)
    aead = b"DataTransformAeadFooter" + b"\0" * 9 + tag.ljust(4056, b"\0") + struct.pack("<II", len(tag), 1)
    spans = {"header": (0, BLOCK), "ciphertext": (BLOCK, BLOCK + len(ct)), "tag": (BLOCK + len(ct) + 32, BLOCK + len(ct) + 32 + 16)}
    # header byte classes: which bytes belong to an attribute (type, flag, name, value) and which are filler
    cls = ["fixed"] * 21 + ["filler"] * 483 + ["size"] * 4 + ["version"] * 4
    for a in attrs:
        p = pack_attr(*a)
        cls += ["attr", "attr", "reserved", "reserved"] + ["attr"] * (len(p) - 4)
    cls += ["terminator"] * 4
    cls += ["filler"] * (BLOCK - len(cls))
    return head + ct + aead, spans, cls, attrs


def gen_extra_attrs(rng, n):
    out = []
    kinds = list(T) + ["str", "bytes"]
    for i in range(n):
        k = rng.choice(kinds)
        name = rng.choice(["vmware.x", "a", "custom.attr", "ünï", "vmware.keyInfo2"]) + str(i)
        flag = rng.choice([0, 1, 0x80, 255])
        if k == "str":
            v = rng.choice(["", "x", "hello world", "späce", "A" * 60])
        elif k == "bytes":
            v = rng.randbytes(rng.choice([0, 1, 12, 32, 200]))
        elif k == "f32":
            v = rng.choice([0.0, 1.5, -2.25, 3.0e10, float("inf")])
        elif k == "f64":
            v = rng.choice([0.0, 1.1, -1e300, float("-inf")])
        else:
            code, fmt = T[k]
            bits = 8 * struct.calcsize(fmt)
            lo, hi = (-(1 << (bits - 1)), (1 << (bits - 1)) - 1) if k.startswith("i") else (0, (1 << bits) - 1)
            v = rng.choice([lo, hi, 0, 1, rng.randrange(lo, hi + 1)])
        out.append((name, k, flag, v))
    return out


def attempt(raw, key, aad):
    from dissect.hypervisor.util.envelope import Envelope

    try:
        ev = Envelope(io.BytesIO(raw))
        return "ok", ev.decrypt(key, aad=aad)
    except Exception as e:  # noqa: BLE001
        return f"raise:{type(e).__name__}", None


def keystore_text(rng, key_id, data1, data2, style):
    def q(b):
        return base64.b64encode(b).decode().replace("=", "%3d").replace("/", "%2f" if style % 2 else "/").replace("+", "%2b" if style % 3 == 0 else "+")

    enc = f"keyId={q(key_id)}:data1={q(data1)}:data2={q(data2)}:version=1"
    if style % 4 == 1:
        enc = f"version=1:data2={q(data2)}:keyId={q(key_id)}:data1={q(data1)}"
    lines = ['.encoding = "UTF-8"', 'includeKeyCache = "FALSE"', 'mode = "NONE"', f'ConfigEncData = "{enc}"']
    if style % 3 == 1:
        lines = ["# comment", ""] + lines[::-1] + ['nested.a.b = "1"', "   "]
    if style % 5 == 2:
        lines = [ln.replace(" = ", "=") for ln in lines]
    return "\n".join(lines) + ("\n" if style % 2 else "")


def main(seed, tier):
    rng = random.Random(seed)
    failures, evals = [], 0
    groups = {}
    observations = {}

    def fail(kind, detail, rec=None):
        groups[kind] = groups.get(kind, 0) + 1
        if groups[kind] <= 2:
            failures.append({"kind": kind, "detail": detail, **(rec or {})})

    n_cases = 40 if tier == "quick" else 300
    sizes = [0, 1, 15, 16, 17, 4095, 4096, 4097, 9000]
    for ci in range(n_cases):
        key = rng.randbytes(32)
        iv = rng.randbytes(rng.choice([12, 12, 12, 8, 16]))
        n = sizes[ci % len(sizes)] if ci < 3 * len(sizes) else rng.randrange(0, 20000)
        if ci == 7:
            n = 4 * 1024 * 1024 + 12345  # more than one decrypt chunk
        payload = rng.randbytes(n)
        padding = rng.choice([0, 1, 7, 511, 512, 4011, 4095, 4096, 5000, 70001])
        extras = gen_extra_attrs(rng, rng.choice([0, 0, 1, 3, 6]))
        aad = rng.choice([None, b"", b"ESXConfiguration", rng.randbytes(40)])
        order = rng.choice(["std", "shuffled", "reversed"])
        if ci in (8, 9, 10):
            # header block filled exactly (ci 8), one byte short of full (9), four bytes short (10): 512-byte file header + attributes + 4-byte
            # terminator == 4096 leaves no padding at all
            req_len = sum(len(pack_attr(*a)) for a in [("vmware.keyInfo", "str", 0, "0" * 36), ("vmware.cipherName", "str", 0, "AES-256-GCM"), ("vmware.keyHash", "bytes", 0, b"0" * 32), ("vmware.iv", "bytes", 0, iv)])
            room = BLOCK - 512 - 4 - req_len - {8: 0, 9: 1, 10: 4}[ci]
            extras = [("fill", "bytes", 0, rng.randbytes(room - (4 + 5 + 8)))]
        raw, spans, cls, attrs = build(rng, key, iv, payload, padding, extras, aad, order)
        rec = {"case": ci, "payload_len": n, "padding": padding, "n_attrs": len(attrs), "order": order, "aad": None if aad is None else aad.hex(), "attr_kinds": [a[1] for a in attrs]}
        out, got = attempt(raw, key, aad)
        evals += 1
        if out != "ok" or got != payload:
            fail("roundtrip", f"{out}; got {None if got is None else len(got)} bytes, expected {n}", rec)
            continue
        # exposed attributes equal the stored ones
        from dissect.hypervisor.util.envelope import Envelope

        ev = Envelope(io.BytesIO(raw))
        want = {a[0]: (a[3]) for a in attrs}
        have = {k: v.value for k, v in ev.attributes.items()}
        if set(want) != set(have) or any((have[k] != want[k]) and not (isinstance(want[k], float) and abs(have[k] - want[k]) <= abs(want[k]) * 1e-6) for k in want):
            fail("attributes", f"parsed attributes differ: {sorted(set(want) ^ set(have))}", rec)
        if ev.size != len(raw) - 2 * BLOCK:
            fail("attributes", f"size {ev.size}", rec)
        # one Envelope object, several calls: a refused attempt (altered associated data, wrong key) and an earlier successful call
        # must not change what the next call with the right key returns (no random draws here: the generated stream stays as it was)
        hist = []
        for k_, a_, ok_ in ((key, (aad or b"") + b"?", False), (key, aad, True), (bytes(32 - len(key[:31])) + key[:31], aad, False), (key, aad, True)):
            try:
                r_ = ev.decrypt(k_, aad=a_)
                hist.append("ok" if r_ == payload else "wrong-bytes")
            except Exception as e:  # noqa: BLE001
                hist.append(f"raise:{type(e).__name__}")
            evals += 1
        if [h == "ok" for h in hist] != [False, True, False, True]:
            fail("repeat", f"four decrypt calls on one Envelope object (altered aad, right, wrong key, right) gave {hist}; expected refusal, payload, refusal, payload", rec)
        # wrong key / wrong aad
        k2 = bytearray(key)
        k2[rng.randrange(32)] ^= 1 << rng.randrange(8)
        out, got = attempt(raw, bytes(k2), aad)
        evals += 1
        if out == "ok":
            fail("wrong-key", "decrypt returned plaintext for a different key", rec)
        # the key-hash gate does not depend on tag verification
        try:
            Envelope(io.BytesIO(raw), verify=False).decrypt(bytes(k2), aad=aad)
            fail("wrong-key", "decrypt(verify=False) returned plaintext for a different key", rec)
        except Exception:  # noqa: BLE001
            pass
        evals += 1
        a2 = (aad or b"") + b"x" if rng.random() < 0.5 or not aad else aad[:-1]
        out, got = attempt(raw, key, a2)
        evals += 1
        if out == "ok":
            fail("tamper-aad", f"decrypt returned plaintext for altered associated data {a2!r}", rec)
        # single byte alterations
        hdr_positions = [i for i in range(BLOCK) if cls[i] != "filler"] + rng.sample([i for i in range(BLOCK) if cls[i] == "filler"], 12)
        if tier == "quick" and ci >= 6:
            hdr_positions = rng.sample(hdr_positions, 30)
        ct_lo, ct_hi = spans["ciphertext"]
        ct_positions = sorted(set([ct_lo, ct_hi - 1, ct_hi - 512, ct_hi - 8, ct_hi - 4] + [rng.randrange(ct_lo, ct_hi) for _ in range(12)]))
        tag_positions = list(range(*spans["tag"]))
        extra_positions = [len(raw) - 8, len(raw) - 7]  # AEAD footer size field
        for pos in hdr_positions + ct_positions + tag_positions + extra_positions:
            alt = bytearray(raw)
            alt[pos] ^= 1 << rng.randrange(8)
            out, got = attempt(bytes(alt), key, aad)
            evals += 1
            if out == "ok":
                where = f"header[{cls[pos]}]" if pos < BLOCK else ("ciphertext" if pos < ct_hi else ("tag" if pos in tag_positions else "aead-footer-size"))
                if pos < BLOCK and cls[pos] in ("filler", "reserved", "size", "terminator") and got == payload:
                    # not demanded by the property statement ("header attributes ... altered"): the byte belongs to no attribute, the
                    # parsed attributes and the plaintext are unchanged (the AAD is re-serialised from the parsed attributes)
                    observations[where] = observations.get(where, 0) + 1
                    continue
                fail(f"tamper:{where}", f"byte {pos} altered, decrypt returned {'the same' if got == payload else 'different'} plaintext", {**rec, "pos": pos})
    # command-line tool writes exactly the payload
    from dissect.hypervisor.tools import envelope as tool

    for ci in range(6 if tier == "quick" else 24):
        key_id, d1, d2 = rng.randbytes(16), rng.randbytes(16), rng.randbytes(16)
        key = hashlib.pbkdf2_hmac("sha256", d1 + SALT, d2, 100000)
        payload = rng.randbytes(rng.choice([0, 1, 5000])) + [b"\x00\x00", b"", b"\n", b" \t\r\n", b"\xff", b"\x00"][ci % 6]
        if ci % 3 == 2:
            payload = rng.choice([b"\x00", b" ", b"\n"]) + payload
        raw, *_ = build(rng, key, rng.randbytes(12), payload, rng.choice([0, 100]), gen_extra_attrs(rng, 2), None)
        with tempfile.TemporaryDirectory() as td:
            pe, pk, po = (os.path.join(td, x) for x in ("e.ve", "k.info", "out.bin"))
            open(pe, "wb").write(raw)
            open(pk, "w").write(keystore_text(rng, key_id, d1, d2, ci))
            argv = sys.argv
            sys.argv = ["envelope-decrypt", pe, "-ks", pk, "-o", po]
            try:
                rc = tool.main()
            except BaseException as e:  # noqa: BLE001
                rc = f"raise:{type(e).__name__}:{e}"
            finally:
                sys.argv = argv
            evals += 1
            got = open(po, "rb").read() if os.path.exists(po) else None
            if rc != 0 or got != payload or sorted(os.listdir(td)) != ["e.ve", "k.info", "out.bin"]:
                fail("cli", f"rc={rc} wrote {None if got is None else len(got)} bytes, expected {len(payload)}; files {sorted(os.listdir(td))}", {"case": ci})
    # keystore: key and id are the specified functions of the stored values, for every text style
    from dissect.hypervisor.util.envelope import KeyStore

    shared_id = rng.randbytes(16)
    for ci in range(12 if tier == "quick" else 60):
        key_id, d1, d2 = rng.randbytes(16), rng.randbytes(rng.choice([16, 1, 32])), rng.randbytes(rng.choice([16, 8, 32]))
        if ci % 3 == 1:
            key_id = shared_id  # re-keyed stores keep their id: the key must follow data1/data2, not the id
        text = keystore_text(rng, key_id, d1, d2, ci)
        try:
            ks = KeyStore.from_text(text)
            ks2 = KeyStore.from_text(text)
            ok = ks.key == hashlib.pbkdf2_hmac("sha256", d1 + SALT, d2, 100000) and ks.id == str(uuid.UUID(bytes=key_id)) and ks2.key == ks.key and ks.mode == "NONE"
            detail = f"key/id differ from the specified derivation (style {ci})"
        except Exception as e:  # noqa: BLE001
            ok, detail = False, f"raise:{type(e).__name__}: {e} (style {ci})"
        evals += 1
        if not ok:
            fail("keystore", detail, {"text": text})
    print(json.dumps({"evaluations": evals, "n_failures": sum(groups.values()), "groups": groups, "failures": failures, "observations_not_demanded": observations,
                      "rule": "generated envelopes (payload 0..20000 bytes (+ >4 MiB thorough), padding 0..4095, 0..6 extra attributes of all 12 types in any order, header blocks filled exactly / one / four bytes short of full, aad none/empty/bytes): decrypt == payload, "
                              "attributes == stored; wrong key, altered aad and single-byte alterations of header, ciphertext, tag must raise; CLI writes exactly the payload; keystore texts in 12+ styles derive the specified key/id"}))


if __name__ == "__main__":
    main(int(sys.argv[1]) if len(sys.argv) > 1 else 1, sys.argv[2] if len(sys.argv) > 2 else "quick")
