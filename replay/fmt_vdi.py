"""VDI builder + executable specification.  spec: {"bs", "nblocks", "size", "map": [phys|-1|-2,...], "parent": spec|None}"""
from __future__ import annotations

import random

from .sparsefile import SparseFile


def pattern(layer, slot, j):
    return (29 * (layer + 1) + 17 * (slot + 1) + j + 7 * (j >> 8)) & 0xFF


def build(spec, layer=0):
    from dissect.hypervisor.disk.c_vdi import VDI_SIGNATURE, c_vdi

    bs, n = spec["bs"], spec["nblocks"]
    blocks_off = spec.get("blocks_offset", 512)
    data_off = spec.get("data_offset", (blocks_off + 4 * n + 511) // 512 * 512)
    f = SparseFile()
    hdr = c_vdi.HeaderDescriptor(FileInfo=b"<<< Oracle VM VirtualBox Disk Image >>>\n", Signature=VDI_SIGNATURE, Version=0x10001, HeaderSize=0x190, ImageType=c_vdi.ImageType.Dynamic, ImageFlags=c_vdi.ImageFlags(0),
                                 BlocksOffset=blocks_off, DataOffset=data_off, SectorSize=512, DiskSize=spec["size"], BlockSize=bs, BlocksInHDD=n,
                                 BlocksAllocated=sum(1 for m in spec["map"] if m >= 0))
    f.put(0, hdr.dumps())
    f.put(blocks_off, b"".join(int(m).to_bytes(4, "little", signed=True) for m in spec["map"]))
    for m in spec["map"]:
        if m >= 0:
            f.put(data_off + m * bs, bytes(pattern(layer, m, j) for j in range(bs)))
    phys = [m for m in spec["map"] if m >= 0]
    f.set_size(max(f.size, data_off + ((max(phys) + 1) if phys else 0) * bs, data_off + 1))
    return f


def guest_byte(spec, x, layer=0):
    bs = spec["bs"]
    m = spec["map"][x // bs]
    if m == -1:
        p = spec.get("parent")
        return guest_byte(p, x, layer + 1) if p else 0
    if m == -2:
        return 0
    return pattern(layer, m, x % bs)


def oracle(spec, off, length):
    end = min(off + length, spec["size"])
    return bytes(guest_byte(spec, x) for x in range(off, end)) if off < end else b""


def open_real(fh, spec):
    from dissect.hypervisor.disk.vdi import VDI

    def chain(sp, layer):
        parent = chain(sp["parent"], layer + 1) if sp.get("parent") else None
        return VDI(build(sp, layer), parent=parent)

    parent = chain(spec["parent"], 1) if spec.get("parent") else None
    return VDI(fh, parent=parent)


def _one(rng, bs, n, size):
    slots = list(range(n))
    rng.shuffle(slots)
    return {"bs": bs, "nblocks": n, "size": size, "map": [s if (r := rng.random()) < 0.6 else (-1 if r < 0.85 else -2) for s in slots]}


def gen_specs(rng: random.Random, n, hints=None):
    out = []
    for _ in range(n):
        bs = rng.choice([512, 512, 1024, 1536, 2048, 4096])
        nb = rng.randint(1, 6)
        size = nb * bs - (rng.randint(0, bs - 1) // 512 * 512 if rng.random() < 0.3 else 0)
        sp = _one(rng, bs, nb, max(512, size))
        cur = sp
        for _d in range(rng.choice([0, 0, 1, 2])):
            cur["parent"] = _one(rng, bs, nb, sp["size"])
            cur = cur["parent"]
        out.append(sp)
    return out


def requests(spec, rng, limit=50):
    size = spec["size"]
    reqs = [(0, size), (0, size + 100), (size, 10)]
    ns = size // 512
    pairs = [(a, b) for a in range(ns + 1) for b in range(a, ns + 1)]
    rng.shuffle(pairs)
    reqs += [(a * 512, (b - a) * 512) for a, b in pairs[:limit]]
    for _ in range(12):
        o = rng.randint(0, size)
        reqs.append((o, rng.randint(0, size - o + 5)))
    return reqs
