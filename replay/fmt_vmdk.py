"""VMDK builder + executable specification (VMware Virtual Disk Format 5.0 technote; QEMU block/vmdk.c for SE-sparse).

spec: {"mode": "single" | "descriptor" | "handles", "extents": [extent,...], "parent": spec|None, "align": int}
extent: {"kind": "sparse"|"footer"|"compressed"|"cowd"|"sesparse"|"flat"|"zero", "capacity" (sectors), "gsz", "ngte",
         "grains": [slot|"z"|None per grain], "gap": sectors between metadata and data, "name": file name}"""
from __future__ import annotations

import os
import random
import struct
import tempfile
import zlib

from .sparsefile import SparseFile

S = 512


def pattern(layer, ext, slot, j):
    return ((19 * (layer + 1) + 13 * (ext + 1) + 7 * (slot + 1) + j + 5 * (j >> 9)) & 0xFF) or 1


def grain_bytes(layer, ext, slot, n):
    if slot >= 1000:  # "incompressible" grain: pseudo-random content so that the deflate stream spans several sectors
        import random as _r

        return _r.Random(slot * 7919 + ext * 31 + layer).randbytes(n)
    return bytes(pattern(layer, ext, slot, j) for j in range(n))


def build_extent(e, layer, idx, parent_cid=None, embed_descriptor=None):
    """returns list of (offset, bytes)"""
    kind, cap = e["kind"], e["capacity"]
    out = []
    if kind == "flat":
        out.append((e.get("start", 0) * S, b"".join(grain_bytes(layer, idx, g, S) for g in range(cap))))
        return out
    gsz = e["gsz"]
    ngrains = (cap + gsz - 1) // gsz
    grains = e["grains"]
    assert len(grains) == ngrains
    if kind in ("sparse", "footer", "compressed"):
        ngte = e["ngte"]
        ngd = (cap + ngte * gsz - 1) // (ngte * gsz)
        desc = embed_descriptor.encode() if embed_descriptor else b""
        desc_sectors = (len(desc) + S - 1) // S if desc else 0
        desc_off = 1 if desc else 0
        gd_off = 1 + desc_sectors + e.get("gd_gap", 0)
        gd_sectors = (ngd * 4 + S - 1) // S
        gt_sectors = (ngte * 4 + S - 1) // S
        gt_off = [gd_off + gd_sectors + i * gt_sectors for i in range(ngd)]
        data_off = gd_off + gd_sectors + ngd * gt_sectors + e.get("gap", 0)
        flags = 3
        if kind == "compressed":
            flags |= 0x10000 | 0x20000
        # grain placement
        slots = sorted({g for g in grains if isinstance(g, int)})
        pos = {}
        if kind == "compressed":
            cur = data_off
            blobs = {}
            for s in slots:
                raw = grain_bytes(layer, idx, s, gsz * S)
                comp = zlib.compress(raw)
                # lba is informational
                blob = struct.pack("<QI", 0, len(comp)) + comp
                blobs[s] = blob
            # place in slot order (order of `slots` is the physical order)
            for s in slots:
                pos[s] = cur
                out.append((cur * S, blobs[s]))
                cur += (len(blobs[s]) + S - 1) // S + e.get("cgap", 0)
            end = cur
        else:
            for s in slots:
                pos[s] = data_off + s * gsz
                out.append((pos[s] * S, grain_bytes(layer, idx, s, gsz * S)))
            end = data_off + ((max(slots) + 1) if slots else 0) * gsz
        holes = set(e.get("gd_holes", ()))  # grain tables that are not allocated at all: directory entry 0 (every grain of them is unallocated)
        gd = b"".join(struct.pack("<I", 0 if i in holes else o) for i, o in enumerate(gt_off))
        out.append((gd_off * S, gd))
        for i in range(ngd):
            gt = b""
            for j in range(ngte):
                g = i * ngte + j
                v = 0
                if g < ngrains:
                    x = grains[g]
                    v = 1 if x == "z" else (pos[x] if isinstance(x, int) else 0)
                gt += struct.pack("<I", v)
            out.append((gt_off[i] * S, gt))

        def header(gd_value):
            h = b"KDMV" + struct.pack("<IIQQQQIQQQBccccH", 1 if kind != "compressed" else 3, flags, cap, gsz, desc_off, desc_sectors, ngte, 0, gd_value, data_off, 0,
                                      b"\n", b" ", b"\r", b"\n", 1 if kind == "compressed" else 0)
            return h + b"\x00" * (512 - len(h))

        if kind in ("footer", "compressed") and e.get("footer", True):
            out.append((0, header(0xFFFFFFFFFFFFFFFF)))
            fpos = end + e.get("fgap", 0)
            out.append((fpos * S, b"\x00" * S))  # footer marker sector (content irrelevant for readers that locate the footer from the end)
            out.append(((fpos + 1) * S, header(gd_off)))
            out.append(((fpos + 2) * S, b"\x00" * S))  # end-of-stream marker
        else:
            out.append((0, header(gd_off)))
        if desc:
            out.append((desc_off * S, desc + b"\x00" * (desc_sectors * S - len(desc))))
        return out
    if kind == "cowd":
        ngte = 4096
        ngd = (cap + ngte * gsz - 1) // (ngte * gsz)
        gd_off = 4
        gd_sectors = (ngd * 4 + S - 1) // S
        gt_sectors = ngte * 4 // S
        gt_off = [gd_off + gd_sectors + i * gt_sectors for i in range(ngd)]
        data_off = gd_off + gd_sectors + ngd * gt_sectors + e.get("gap", 0)
        slots = sorted({g for g in grains if isinstance(g, int)})
        pos = {s: data_off + s * gsz for s in slots}
        for s in slots:
            out.append((pos[s] * S, grain_bytes(layer, idx, s, gsz * S)))
        out.append((0, b"COWD" + struct.pack("<IIIIIII", 1, 3, cap, gsz, gd_off, ngd, data_off)))
        out.append((gd_off * S, b"".join(struct.pack("<I", o) for o in gt_off)))
        for i in range(ngd):
            gt = b""
            for j in range(ngte):
                g = i * ngte + j
                v = 0
                if g < ngrains:
                    x = grains[g]
                    v = pos[x] if isinstance(x, int) else 0  # COWD has no zero-grain marker
                gt += struct.pack("<I", v)
            out.append((gt_off[i] * S, gt))
        return out
    if kind == "sesparse":
        gt_sectors = e.get("gt_sectors", 1)  # grain table size in sectors -> gt_sectors*64 entries
        ngte = gt_sectors * S // 8
        ngd = (ngrains + ngte - 1) // ngte
        gd_sectors = max(1, (ngd * 8 + S - 1) // S)
        gd_off = 4
        gts_off = gd_off + gd_sectors
        grains_off = gts_off + ngd * gt_sectors + e.get("gap", 0)
        slots = sorted({g for g in grains if isinstance(g, int)})
        base_cluster = e.get("cluster_base", 0)  # allows cluster numbers above 2^12 / 2^32 (hi/lo split of the entry)
        gd = b""
        for i in range(ngd):
            gd += struct.pack("<Q", 0x1000000000000000 | i)
        out.append((gd_off * S, gd + b"\x00" * (gd_sectors * S - len(gd))))
        for i in range(ngd):
            gt = b""
            for j in range(ngte):
                g = i * ngte + j
                v = 0
                if g < ngrains:
                    x = grains[g]
                    if x == "z":
                        v = 0x2000000000000000
                    elif x == "u":
                        v = 0x1000000000000000
                    elif isinstance(x, int):
                        c = base_cluster + x
                        v = 0x3000000000000000 | ((c >> 12) & 0x0000FFFFFFFFFFFF) | ((c & 0xFFF) << 48)
                gt += struct.pack("<Q", v)
            out.append(((gts_off + i * gt_sectors) * S, gt))
        for s in slots:
            out.append(((grains_off + (base_cluster + s) * gsz) * S, grain_bytes(layer, idx, s, gsz * S)))
        hdr = struct.pack("<26Q", 0xCAFEBABE, 0x0000000200000001, cap, gsz, gt_sectors, 0, 0, 0, 0, 0, 1, 1, 2, 1, 3, 1, gd_off, gd_sectors, gts_off, ngd * gt_sectors,
                          0, 0, 0, 0, grains_off, 0)
        out.append((0, hdr + b"\x00" * (512 - len(hdr))))
        return out
    raise ValueError(kind)


def descriptor_text(spec, names, parent_name=None):
    lines = ["# Disk DescriptorFile", "version=1", "CID=fffffffe", f"parentCID={'0badc0de' if parent_name else 'ffffffff'}", 'createType="custom"']
    if parent_name:
        lines.append(f'parentFileNameHint="{parent_name}"')
    lines += ["", "# Extent description"]
    for e, nm in zip(spec["extents"], names):
        t = {"sparse": "SPARSE", "footer": "SPARSE", "compressed": "SPARSE", "cowd": "VMFSSPARSE", "sesparse": "SESPARSE", "flat": e.get("dtype", "FLAT"), "zero": "ZERO"}[e["kind"]]
        if t == "ZERO":
            lines.append(f"RW {e['capacity']} ZERO")
        elif t in ("FLAT", "VMFS"):
            lines.append(f'RW {e["capacity"]} {t} "{nm}" {e.get("start", 0)}')
        else:
            lines.append(f'RW {e["capacity"]} {t} "{nm}"')
    lines += ["", "# The Disk Data Base", "#DDB", 'ddb.virtualHWVersion = "4"', ""]
    return "\n".join(lines)


def guest_sector_bytes(spec, ext_i, e, s_rel, layer, abs_sector):
    kind = e["kind"]
    if kind == "flat":
        return grain_bytes(layer, ext_i, s_rel, S)
    if kind == "zero":
        return b"\x00" * S
    gsz = e["gsz"]
    g = e["grains"][s_rel // gsz]
    if isinstance(g, int):
        full = grain_bytes(layer, ext_i, g, gsz * S)
        o = (s_rel % gsz) * S
        return full[o:o + S]
    if g == "z":
        return b"\x00" * S
    p = spec.get("parent")
    if p:
        return guest_range(p, abs_sector * S, S, layer + 1)
    return b"\x00" * S


def guest_range(spec, off, n, layer=0):
    out = bytearray()
    total = sum(e["capacity"] for e in spec["extents"])
    x = off
    end = min(off + n, total * S)
    while x < end:
        s = x // S
        acc = 0
        for i, e in enumerate(spec["extents"]):
            if s < acc + e["capacity"]:
                sec = guest_sector_bytes(spec, i, e, s - acc, layer, s)
                break
            acc += e["capacity"]
        take = min(end - x, S - x % S)
        out += sec[x % S: x % S + take]
        x += take
    return bytes(out)


def oracle(spec, off, length):
    return guest_range(spec, off, length)


def total_sectors(spec):
    return sum(e["capacity"] for e in spec["extents"])


def _write_files(spec, d, layer, prefix):
    """materialise a (multi-extent) VMDK in directory d; returns the path to open"""
    names = []
    parent_name = None
    if spec.get("parent"):
        parent_name = _write_files(spec["parent"], d, layer + 1, prefix + "p")
        parent_name = os.path.basename(parent_name)
    for i, e in enumerate(spec["extents"]):
        nm = e.get("name") or f"{prefix}-e{i}.vmdk"
        names.append(nm)
        if e["kind"] == "zero":
            continue
        pth = os.path.join(d, nm)
        with open(pth, "r+b" if (e.get("shared") and os.path.exists(pth)) else "wb") as fh:  # several extents may be carved from one flat file
            top = os.path.getsize(pth) if e.get("shared") else 0
            for off, data in build_extent(e, layer, i):
                fh.seek(off)
                fh.write(data)
                top = max(top, off + len(data))
            if e["kind"] == "flat":
                fh.truncate(max(top, (e.get("start", 0) + e["capacity"]) * S))
    dpath = os.path.join(d, f"{prefix}.vmdk")
    with open(dpath, "w", newline="\n") as fh:
        fh.write(descriptor_text(spec, names, parent_name))
    return dpath


def build(spec, layer=0):
    if spec["mode"] == "single":
        f = SparseFile(name=None)
        e = spec["extents"][0]
        for off, data in build_extent(e, layer, 0):
            f.put(off, data)
        if e["kind"] == "flat":
            f.set_size(max(f.size, e["capacity"] * S))
        else:
            f.set_size((f.size + S - 1) // S * S)
        return f
    return None  # descriptor / handles modes are materialised in open_real


def open_real(fh, spec):
    from pathlib import Path

    from dissect.hypervisor.disk.vmdk import VMDK

    if spec["mode"] == "single":
        return VMDK(fh)
    d = tempfile.mkdtemp(prefix="vmdk_replay_")
    import atexit
    import shutil

    atexit.register(shutil.rmtree, d, True)
    dpath = _write_files(spec, d, 0, "disk")
    if spec["mode"] == "descriptor":
        return VMDK(Path(dpath))
    fhs = []
    for i, e in enumerate(spec["extents"]):
        fhs.append(open(os.path.join(d, e.get("name") or f"disk-e{i}.vmdk"), "rb"))
    return VMDK(fhs)


def sector_api(stream, spec):
    return stream.read_sectors, S


def _extent(rng, kind, small=True):
    gsz = rng.choice([1, 2, 3, 4, 8, 16]) if kind != "cowd" else rng.choice([1, 2, 4])
    ngr = rng.randint(1, 7)
    cap = ngr * gsz - (rng.randint(0, gsz - 1) if rng.random() < 0.3 else 0)
    cap = max(1, cap)
    ngr = (cap + gsz - 1) // gsz
    order = list(range(ngr))
    rng.shuffle(order)
    grains = []
    for g in range(ngr):
        r = rng.random()
        grains.append(order[g] if r < 0.55 else ("z" if r < 0.7 and kind not in ("cowd",) else None))
    e = {"kind": kind, "capacity": cap, "gsz": gsz, "grains": grains, "gap": rng.choice([0, 0, 1, 3])}
    if kind in ("sparse", "footer", "compressed"):
        e["ngte"] = rng.choice([1, 2, 4, 512])
    if kind == "compressed":
        e["cgap"] = rng.choice([0, 0, 1])
    if kind == "sesparse":
        e["cluster_base"] = rng.choice([0, 0, 0x1001, 0x100000FFF]) if rng.random() < 0.5 else 0
        if rng.random() < 0.4:
            # more grains than one 64-entry grain table holds: several grain tables (directory indices > 0)
            gsz = rng.choice([1, 2])
            ngr = rng.randint(65, 200)
            order = list(range(ngr))
            rng.shuffle(order)
            e.update({"gsz": gsz, "capacity": ngr * gsz, "grains": [order[g] if rng.random() < 0.3 else (None if rng.random() < 0.8 else "z") for g in range(ngr)]})
        # SE-sparse type 1 (unmapped: falls through to the parent like type 0).  A private generator seeded from the extent keeps the main
        # random stream, and with it every other generated image, unchanged
        r2 = random.Random(repr(e["grains"]))
        e["grains"] = ["u" if x is None and r2.random() < 0.5 else x for x in e["grains"]]
    return e


def gen_specs(rng: random.Random, n, hints=None):
    out = []
    kinds = ["sparse", "footer", "compressed", "cowd", "sesparse", "flat"]
    for i in range(n):
        r = rng.random()
        if r < 0.5:
            k = kinds[i % len(kinds)]
            if k == "flat":
                out.append({"mode": "single", "extents": [{"kind": "flat", "capacity": rng.randint(1, 20)}]})
            else:
                out.append({"mode": "single", "extents": [_extent(rng, k)]})
        else:
            ne = rng.randint(1, 4)
            exts = []
            for j in range(ne):
                k = rng.choice(["sparse", "sparse", "cowd", "sesparse", "flat", "flat", "compressed", "compressed"] + (hints or {}).get("extra_kinds", []))
                if k == "zero":
                    exts.append({"kind": "zero", "capacity": rng.randint(1, 6)})
                elif k == "flat_off":
                    exts.append({"kind": "flat", "capacity": rng.randint(1, 9), "dtype": "FLAT", "start": rng.randint(1, 5)})
                else:
                    exts.append({"kind": "flat", "capacity": rng.randint(1, 9), "dtype": rng.choice(["FLAT", "VMFS"])} if k == "flat" else _extent(rng, k))
            for e_ in exts:
                e_.pop("cluster_base", None)  # terabyte offsets only on the in-memory SparseFile (real sparse files are limited by the file system)
            special = any(e_["kind"] == "zero" or e_.get("start") for e_ in exts)
            sp = {"mode": "descriptor" if (special or rng.random() < 0.7) else "handles", "extents": exts}
            if sp["mode"] == "descriptor" and rng.random() < 0.4:
                tot = sum(e["capacity"] for e in exts)
                sp["parent"] = {"mode": "descriptor", "extents": [{"kind": "flat", "capacity": tot, "dtype": "FLAT"}]}
            out.append(sp)
    # several FLAT extents carved from ONE flat file through the start-offset field (out of order, with gaps): every extent must read
    # its own sector range whatever the other extents did to a handle they may share
    for _ in range(max(2, n // 12)):
        ne = rng.randint(2, 4)
        caps = [rng.randint(1, 6) for _ in range(ne)]
        order = list(range(ne))
        rng.shuffle(order)
        starts, pos = {}, rng.randint(0, 3)
        for j in order:
            starts[j] = pos
            pos += caps[j] + rng.randint(0, 2)
        out.append({"mode": "descriptor", "interleave": True,
                    "extents": [{"kind": "flat", "capacity": caps[j], "dtype": "FLAT", "start": starts[j], "name": "disk-shared-flat.vmdk", "shared": True} for j in range(ne)]})
    # always: a hosted sparse extent with more than 128 grain tables, allocated tables and unallocated ones (directory entry 0) exactly 128
    # and 256 apart, two grains per table: whatever is remembered about one table must not be used for another
    ngte, ntab = 2, rng.choice([135, 260, 300])
    ngr = ngte * ntab
    alloc_tabs = sorted({0, 1, 5, 129, ntab - 1} | {rng.randrange(ntab) for _ in range(4)})
    holes = [t for t in range(ntab) if t not in alloc_tabs and (t % 128 in (0, 1, 5) or rng.random() < 0.7)]
    grains = [None] * ngr
    slot = 0
    for t in alloc_tabs:
        for j in range(ngte):
            if rng.random() < 0.85:
                grains[t * ngte + j] = slot
                slot += 1
    out.append({"mode": "single", "extents": [{"kind": "sparse", "capacity": ngr, "gsz": 1, "ngte": ngte, "grains": grains, "gap": 0, "gd_holes": holes}]})
    if (hints or {}).get("big_footer"):
        # stream-optimized extent whose grain directory (located through the footer) has more than 128 entries
        ngr = 140
        out.append({"mode": "single", "extents": [{"kind": "compressed", "capacity": ngr, "gsz": 1, "ngte": 1, "grains": [g if g % 7 == 0 else None for g in range(ngr)], "gap": 0, "cgap": 0}]})
        out.append({"mode": "single", "extents": [{"kind": "footer", "capacity": ngr, "gsz": 1, "ngte": 1, "grains": [g if g % 5 == 0 else None for g in range(ngr)], "gap": 0}]})
    for sp in out:
        sp["size"] = total_sectors(sp) * S
    return out


def big_specs():
    """C13: stream-optimized extent with incompressible 64 KiB grains (compressed records of ~128 sectors), and an SE-sparse extent
    whose clusters sit above 2^32 sectors"""
    gsz = 128
    comp = {"mode": "single", "extents": [{"kind": "compressed", "capacity": 6 * gsz, "gsz": gsz, "ngte": 512, "grains": [1000, 1002, None, 1001, "z", 1003], "gap": 0, "cgap": 0}]}
    comp["size"] = 6 * gsz * 512
    comp["requests"] = [[0, 4096], [gsz * 512 - 512, 2048], [3 * gsz * 512 + 777, 30000], [0, 2 * gsz * 512]]
    se = {"mode": "single", "extents": [{"kind": "sesparse", "capacity": 64, "gsz": 16, "grains": [3, None, 0, "z"], "gap": 0, "cluster_base": 0x100000FFF}]}
    se["size"] = 64 * 512
    se["requests"] = [[0, 8192], [16 * 512 * 2 - 100, 700]]
    return [comp, se]


def requests(spec, rng, limit=40):
    size = spec["size"]
    reqs = [(0, size), (0, size + 100), (size, 10)]
    ns = size // S
    pairs = [(a, b) for a in range(ns + 1) for b in range(a, ns + 1)]
    rng.shuffle(pairs)
    reqs += [(a * S, (b - a) * S) for a, b in pairs[:limit]]
    for _ in range(10):
        o = rng.randint(0, size)
        reqs.append((o, rng.randint(0, size - o + 5)))
    return reqs


def sector_requests(spec, rng, limit=20):
    ns = spec["size"] // S
    pairs = [(a, b) for a in range(ns + 1) for b in range(a + 1, ns + 1)]
    rng.shuffle(pairs)
    out = [(a, b - a) for a, b in pairs[:limit]]
    if spec.get("interleave"):
        # sector k of every extent in turn, k = 0, 1, ...: each extent is read sequentially while its siblings are read in between
        bases, acc = [], 0
        for e in spec["extents"]:
            bases.append((acc, e["capacity"]))
            acc += e["capacity"]
        for k in range(max(c for _, c in bases)):
            out += [(b + k, 1) for b, c in bases if k < c]
    return out
