"""Bounded cross-check for C09: run the real parsers over fixtures + generated images with an audit hook that records any
operation with write intent (open for writing, os.remove/rename/..., socket).  JSON on stdout."""
from __future__ import annotations

import gzip
import io
import json
import os
import random
import sys

EVENTS = []
WRITE_EVENTS = {"os.remove", "os.rename", "os.rmdir", "os.mkdir", "os.truncate", "os.chmod", "os.chown", "os.link", "os.symlink", "os.utime", "shutil.rmtree",
                "shutil.move", "shutil.copyfile", "subprocess.Popen", "os.system", "socket.connect", "socket.bind", "os.exec", "os.posix_spawn"}
ACTIVE = False


def hook(event, args):
    if not ACTIVE:
        return
    if event == "open":
        path, mode, flags = (list(args) + [None, None, None])[:3]
        wr = (isinstance(mode, str) and any(c in mode for c in "wax+")) or (isinstance(flags, int) and flags & (os.O_WRONLY | os.O_RDWR | os.O_CREAT | os.O_TRUNC | os.O_APPEND))
        if wr:
            EVENTS.append({"event": "open", "path": str(path), "mode": str(mode), "flags": flags})
    elif event in WRITE_EVENTS:
        EVENTS.append({"event": event, "args": [str(a)[:80] for a in args]})


class ROHandle(io.BytesIO):
    """caller-supplied handle that records any mutating call"""

    def write(self, *a):
        EVENTS.append({"event": "handle.write"})
        raise io.UnsupportedOperation("write")

    def truncate(self, *a):
        EVENTS.append({"event": "handle.truncate"})
        raise io.UnsupportedOperation("truncate")


def main():
    global ACTIVE
    data = sys.argv[1]
    sys.addaudithook(hook)
    from dissect.hypervisor.descriptor import hyperv, ovf, pvs, vbox, vmx  # noqa: F401
    from dissect.hypervisor.disk import hdd, qcow2, vdi, vhd, vhdx, vmdk  # noqa: F401
    from dissect.hypervisor.util import envelope, vmtar  # noqa: F401
    from pathlib import Path

    ops = 0
    fixtures = 0

    def gz(name):
        return ROHandle(gzip.open(os.path.join(data, name), "rb").read())

    def plain(name):
        return ROHandle(open(os.path.join(data, name), "rb").read())

    jobs = []
    if os.path.isdir(data):
        jobs += [
            ("vhd.fixed", lambda: vhd.VHD(gz("fixed.vhd.gz"))), ("vhd.dynamic", lambda: vhd.VHD(gz("dynamic.vhd.gz"))),
            ("vhdx.fixed", lambda: vhdx.VHDX(gz("fixed.vhdx.gz"))), ("vhdx.dynamic", lambda: vhdx.VHDX(gz("dynamic.vhdx.gz"))),
            ("vmdk.sesparse", lambda: vmdk.VMDK(gz("sesparse.vmdk.gz"))),
            ("hdd.plain", lambda: hdd.HDD(Path(data) / "plain.hdd")), ("hdd.expanding", lambda: hdd.HDD(Path(data) / "expanding.hdd")), ("hdd.split", lambda: hdd.HDD(Path(data) / "split.hdd")),
            ("hyperv.vmcx", lambda: hyperv.HyperVFile(plain("test.vmcx")).as_dict()), ("hyperv.vmrs", lambda: hyperv.HyperVFile(plain("test.VMRS")).as_dict()),
            ("vmx", lambda: vmx.VMX.parse(plain("encrypted.vmx").read().decode())),
            ("vmtar", lambda: [m.name for m in vmtar.open(fileobj=gz("test.vgz"))]),
            ("envelope", lambda: envelope.Envelope(plain("local.tgz.ve"))),
            ("keystore", lambda: envelope.KeyStore.from_text(plain("encryption.info").read().decode())),
        ]
    ACTIVE = True
    for name, job in jobs:
        try:
            obj = job()
            fixtures += 1
            ops += 1
            if hasattr(obj, "read") and hasattr(obj, "seek"):
                for off in (0, 4096, 1 << 20):
                    obj.seek(off)
                    obj.read(8192)
                    ops += 1
            if isinstance(obj, hdd.HDD):
                st = None
                try:
                    st = obj.open()
                except Exception:  # noqa: BLE001  (fixtures are gz-compressed on disk: opening the image itself may fail; the path logic still ran)
                    pass
                if st is not None:
                    st.read(4096)
                ops += 1
        except Exception as e:  # noqa: BLE001
            ops += 1
            _ = e
    # generated images through the replay builders
    rng = random.Random(7)
    for fmt in ("vhd", "vdi", "hds"):
        import importlib

        mod = importlib.import_module(f"replay.fmt_{fmt}")
        for spec in mod.gen_specs(rng, 15):
            try:
                s = mod.open_real(mod.build(spec), spec)
                s.read(4096)
                s.seek(0)
                s.read()
                fixtures += 1
                ops += 3
            except Exception:  # noqa: BLE001
                ops += 1
    ACTIVE = False
    json.dump({"operations": ops, "fixtures": fixtures, "events": EVENTS[:20]}, sys.stdout)


if __name__ == "__main__":
    main()
