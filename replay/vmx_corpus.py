"""C15 bounded stand-in: encrypted VMX files built by an independent encoder (real AES-CBC / HMAC / PBKDF2 from pycryptodome and
hashlib), opened with the real `VMX.unlock_with_phrase`.

Encoder follows the format documented in vmx.py and observed in tests/data/encrypted.vmx:
  encryption.keySafe = vmware:key/list/(pair/(phrase/<q(id)>/<q(crypto dict)>,<q(mac name)>,<q(b64(blob))>),...)
  crypto dict        = k=<q(v)>:k=<q(v)>...            (q = percent-encoding of everything but alphanumerics)
  blob               = IV(16) || AES-CBC(key, IV, pkcs7(plaintext)) || trunc(HMAC(key, plaintext), mac size)
  pair plaintext     = type=key:cipher=<cipher>:key=<q(b64(data key))>
  encryption.data    = b64(blob over the configuration text with the data key and the pair's mac)

usage: python -m replay.vmx_corpus <seed> <tier> -> JSON on stdout"""
from __future__ import annotations

import base64
import hashlib
import hmac
import json
import random
import sys

CIPHERS = {"AES-128": 16, "AES-192": 24, "AES-256": 32}
MACS = {"HMAC-SHA-1": ("sha1", 20), "HMAC-SHA-1-128": ("sha1", 16), "HMAC-SHA-256": ("sha256", 32)}
KDFS = {"PBKDF2-HMAC-SHA-1": "sha1", "PBKDF2-HMAC-SHA-256": "sha256"}


def q(s: str) -> str:
    return "".join(c if c.isalnum() and c.isascii() else "".join(f"%{b:02x}" for b in c.encode()) for c in s)


def seal(key: bytes, plaintext: bytes, mac: str, iv: bytes) -> bytes:
    from Crypto.Cipher import AES

    alg, size = MACS[mac]
    pad = 16 - len(plaintext) % 16
    ct = AES.new(key, AES.MODE_CBC, iv=iv).encrypt(plaintext + bytes([pad]) * pad)
    return iv + ct + hmac.new(key, plaintext, alg).digest()[:size]


def pair_text(phrase_id, kdf, cipher, rounds, salt, mac, blob):
    cd = ":".join(f"{k}={q(v)}" for k, v in (("pass2key", kdf), ("cipher", cipher), ("rounds", str(rounds)), ("salt", base64.b64encode(salt).decode())))
    return f"pair/(phrase/{q(phrase_id)}/{q(cd)},{q(mac)},{q(base64.b64encode(blob).decode())})"


def make_pair(rng, passphrase, kdf, cipher, rounds, salt, mac, data_key):
    wrap_key = hashlib.pbkdf2_hmac(KDFS[kdf], passphrase.encode(), salt, rounds, CIPHERS[cipher])
    inner = f"type=key:cipher={cipher}:key={q(base64.b64encode(data_key).decode())}".encode()
    return seal(wrap_key, inner, mac, rng.randbytes(16))


def vmx_text(pairs_text, data_blob, plain_entries):
    lines = [f'{k} = "{v}"' for k, v in plain_entries.items()]
    lines.append(f'encryption.keySafe = "vmware:key/list/({",".join(pairs_text)})"')
    lines.append(f'encryption.data = "{base64.b64encode(data_blob).decode()}"')
    return "\n".join(lines) + "\n"


def config_text(entries):
    return "".join(f'{k} = "{v}"\n' for k, v in entries.items())


def gen_entries(rng, n_bytes):
    """configuration entries whose serialised text has exactly n_bytes bytes when possible (else close to it)"""
    entries = {}
    if n_bytes < 7:
        return entries
    i = 0
    while True:
        remaining = n_bytes - len(config_text(entries).encode())
        if remaining < 7:
            break
        key = f"k{i}"
        room = remaining - len(key) - 6
        if room < 0:
            break
        vlen = room if room <= 12 else rng.randrange(0, 12)
        alphabet = "abcXYZ019 ._-/é" if rng.random() < 0.3 else "abcXYZ019._-/"
        v = ""
        while len(v.encode()) < vlen:
            c = rng.choice(alphabet)
            if len((v + c).encode()) <= vlen:
                v += c
            else:
                v += "a"
        if v.endswith(" ") or v.startswith(" "):
            v = v.strip().ljust(vlen, "x") if vlen else ""
        entries[key] = v
        i += 1
    return entries


def attempt(text, passphrase):
    """-> (outcome, attr_before, attr_after)"""
    from dissect.hypervisor.descriptor.vmx import VMX

    v = VMX.parse(text)
    before = dict(v.attr)
    try:
        v.unlock_with_phrase(passphrase)
        return "ok", before, dict(v.attr)
    except Exception as e:  # noqa: BLE001
        return f"raise:{type(e).__name__}", before, dict(v.attr)


def main(seed, tier):
    rng = random.Random(seed)
    failures, evals, per = [], 0, {}
    combos = [(c, m, k) for c in CIPHERS for m in MACS for k in KDFS]

    def fail(kind, combo, detail, rec):
        failures.append({"kind": kind, "combo": "/".join(combo), "detail": detail, **rec})

    def build(combo, entries, passphrase, rounds, salt, n_decoys=0, plain=None):
        cipher, mac, kdf = combo
        data_key = rng.randbytes(CIPHERS[cipher])
        pairs = []
        for d in range(n_decoys):
            dc = rng.choice(combos)
            pairs.append(pair_text(f"decoy{d}", dc[2], dc[0], rounds, rng.randbytes(8), dc[1], make_pair(rng, passphrase + "x", dc[2], dc[0], rounds, rng.randbytes(8), dc[1], rng.randbytes(CIPHERS[dc[0]]))))
        blob = make_pair(rng, passphrase, kdf, cipher, rounds, salt, mac, data_key)
        match_at = rng.randrange(len(pairs) + 1)  # the matching pair is anywhere in the list, decoys (other passphrase, other MAC/cipher) around it
        pairs.insert(match_at, pair_text("id/1=", kdf, cipher, rounds, salt, mac, blob))
        data_blob = seal(data_key, config_text(entries).encode(), mac, rng.randbytes(16))
        plain = plain if plain is not None else {".encoding": "UTF-8", "displayName": "vm"}
        return plain, pairs, blob, data_blob, match_at

    lengths = list(range(0, 41)) + [47, 48, 49, 63, 64, 65, 200] if tier == "thorough" else [0, 7, 8, 14, 15, 16, 17, 31, 32, 33, 48, 100]
    round_set = [1, 2, 1000] if tier == "thorough" else [1, 3]
    for combo in combos:
        name = "/".join(combo)
        per[name] = 0
        for n in lengths:
            for rounds in round_set if n in (15, 16, 32) else round_set[:1]:
                entries = gen_entries(rng, n)
                # passphrases are used as given (UTF-8 of the exact code points): composed and decomposed spellings are different passphrases
                pw = rng.choice(["password", "pässwörd", "p w", "x" * 70, "", "cafe\u0301 Zu\u0308rich", "caf\u00e9", "\ufb01le\u2460", " Pass "])
                salt = rng.randbytes(rng.choice([0, 1, 8, 16, 33]))
                plain, pairs, blob, data_blob, match_at = build(combo, entries, pw, rounds, salt, n_decoys=rng.choice([0, 1, 2, 3]))
                text = vmx_text(pairs, data_blob, plain)
                rec = {"text": text, "passphrase": pw, "content_len": len(config_text(entries).encode())}
                # (a) round trip
                out, before, after = attempt(text, pw)
                evals += 1
                per[name] += 1
                expect = dict(before)
                expect.update({k.lower(): v for k, v in entries.items()})
                if out != "ok":
                    fail("roundtrip", combo, f"correct passphrase: {out}", rec)
                    continue
                if after != expect:
                    fail("roundtrip", combo, f"unlocked entries differ: {sorted(set(after.items()) ^ set(expect.items()))[:4]}", rec)
                    continue
                # (a') the same file unlocks again in the same process (no state kept between unlocks)
                out2, _, after2 = attempt(text, pw)
                evals += 1
                if out2 != "ok" or after2 != expect:
                    fail("repeat", combo, f"second unlock of the same file in one process: {out2}", rec)
                # (b) wrong passphrases: an appended character, and every spelling a normalising reader would confuse with the right one
                import unicodedata

                wrongs = {pw + "!"} | {unicodedata.normalize(f_, pw) for f_ in ("NFC", "NFD", "NFKC", "NFKD")} | {pw.strip(), pw.lower(), pw.upper(), pw + " "}
                for wpw in sorted(w_ for w_ in wrongs if w_.encode() != pw.encode()):
                    out, before, after = attempt(text, wpw)
                    evals += 1
                    if out == "ok" or after != before:
                        fail("wrong-passphrase", combo, f"{out}; attr changed={after != before}", {**rec, "passphrase": wpw})
                # (c) single-byte alterations
                if n in (14, 15, 16, 33) or tier == "thorough":
                    for which, b in (("pair", blob), ("data", data_blob)):
                        positions = range(len(b)) if (tier == "thorough" or len(b) < 140) else sorted(set(list(range(0, 34)) + list(range(len(b) - 50, len(b)))))
                        for pos in positions:
                            for x in (0x01, 0x80) if tier == "thorough" else (rng.choice([1, 2, 4, 8, 16, 32, 64, 128]),):
                                alt = bytearray(b)
                                alt[pos] ^= x
                                if which == "pair":
                                    t2 = vmx_text(pairs[:match_at] + [pair_text("id/1=", combo[2], combo[0], rounds, salt, combo[1], bytes(alt))] + pairs[match_at + 1:], data_blob, plain)
                                else:
                                    t2 = vmx_text(pairs, bytes(alt), plain)
                                out, before, after = attempt(t2, pw)
                                evals += 1
                                if out == "ok" or after != before:
                                    fail("tamper", combo, f"{which} blob byte {pos} of {len(b)} xor {x:#x}: {out}; attr changed={after != before}", {"text": t2, "passphrase": pw, "content_len": rec["content_len"]})
                    if salt:
                        s2 = bytearray(salt)
                        s2[0] ^= 1
                        t2 = vmx_text(pairs[:match_at] + [pair_text("id/1=", combo[2], combo[0], rounds, bytes(s2), combo[1], blob)] + pairs[match_at + 1:], data_blob, plain)
                        out, before, after = attempt(t2, pw)
                        evals += 1
                        if out == "ok" or after != before:
                            fail("tamper", combo, f"salt byte 0: {out}", {"text": t2, "passphrase": pw, "content_len": rec["content_len"]})
    # group failures
    groups = {}
    for f in failures:
        key = f"{f['kind']}:{f['combo'].split('/')[1] if f['kind'] == 'roundtrip' else ''}:{f['detail'].split(' byte ')[0][:40]}"
        groups.setdefault(key, []).append(f)
    print(json.dumps({"evaluations": evals, "per_combo": per, "n_failures": len(failures), "groups": {k: len(v) for k, v in groups.items()},
                      "failures": [v[0] for v in groups.values()][:20]}))


if __name__ == "__main__":
    main(int(sys.argv[1]) if len(sys.argv) > 1 else 1, sys.argv[2] if len(sys.argv) > 2 else "quick")
