"""Bounded block for C08: random operation histories on real streams against an immutable-byte-array model.
`python -m replay.history_real <fmt> <seed> <n_specs>` with DISSECT_STREAM_BUFFER_SIZE set by the caller.  JSON on stdout."""
from __future__ import annotations

import importlib
import io
import json
import random
import sys


def main():
    fmt, seed, n = sys.argv[1], int(sys.argv[2]), int(sys.argv[3])
    import dissect.util.stream as us

    align = us.STREAM_BUFFER_SIZE
    mod = importlib.import_module(f"replay.fmt_{fmt}")
    rng = random.Random(seed)
    specs = [sp for sp in mod.gen_specs(rng, n * 3) if sp.get("bs", 0) < (1 << 20)][:n]
    evals = 0
    distinct = 0
    fails = []
    for sp in specs:
        unit = sp.get("ss", 512)
        if align % unit:
            continue
        try:
            fh = mod.build(sp)
            s = mod.open_real(fh, sp)
        except Exception as e:  # noqa: BLE001
            fails.append({"kind": "open", "spec": sp, "detail": f"{type(e).__name__}: {e}"})
            continue
        size = sp["size"]
        A = mod.oracle(sp, 0, size)
        pos = 0
        hist = []
        distinct += 1
        for step in range(40):
            op = rng.choice(["seek_set", "seek_cur", "seek_end", "read", "read", "read", "peek", "readinto", "readoffset", "read_all", "sectors"])
            try:
                if op == "seek_set":
                    p = rng.choice([0, size, size + 7, rng.randint(0, size + 20)])
                    hist.append([op, p])
                    r = s.seek(p)
                    pos = p
                    ok = r == pos and s.tell() == pos
                elif op == "seek_cur":
                    d = rng.randint(-size, size)
                    hist.append([op, d])
                    r = s.seek(d, io.SEEK_CUR)
                    pos = max(0, pos + d)
                    ok = r == pos and s.tell() == pos
                elif op == "seek_end":
                    d = rng.randint(-size - 5, 5)
                    hist.append([op, d])
                    r = s.seek(d, io.SEEK_END)
                    pos = max(0, size + d)
                    ok = r == pos
                elif op in ("read", "read_all"):
                    nreq = -1 if op == "read_all" else rng.choice([0, 1, 3, unit - 1, unit, unit + 1, align - 1, align, align + 1, 2 * align + 5, size, size + 100, rng.randint(0, size + 10)])
                    hist.append([op, nreq])
                    got = s.read(nreq)
                    m = max(0, size - pos) if nreq == -1 else max(0, min(nreq, size - pos))
                    ok = got == A[pos:pos + m] and s.tell() == pos + m
                    pos += m
                elif op == "peek":
                    nreq = rng.randint(0, 3 * align)
                    hist.append([op, nreq])
                    got = s.peek(nreq)
                    m = max(0, min(nreq, size - pos))
                    ok = got == A[pos:pos + m] and s.tell() == pos
                elif op == "readinto":
                    nreq = rng.randint(0, 2 * align)
                    hist.append([op, nreq])
                    b = bytearray(nreq)
                    k = s.readinto(b)
                    m = max(0, min(nreq, size - pos))
                    ok = k == m and bytes(b[:k]) == A[pos:pos + m]
                    pos += m
                elif op == "readoffset":
                    o, nreq = rng.randint(0, size + 5), rng.randint(0, 2 * align)
                    hist.append([op, o, nreq])
                    got = s.readoffset(o, nreq)
                    m = max(0, min(nreq, size - o))
                    ok = got == A[o:o + m]
                    pos = o + m
                else:
                    if not hasattr(mod, "sector_api"):
                        continue
                    fn, u = mod.sector_api(s, sp)
                    ns = size // u
                    if ns == 0:
                        continue
                    a = rng.randint(0, ns - 1)
                    c = rng.randint(1, ns - a)
                    hist.append([op, a, c])
                    got = fn(a, c)
                    ok = got == A[a * u:(a + c) * u]
                evals += 1
                if not ok:
                    fails.append({"kind": "mismatch", "spec": sp, "history": hist[-12:], "align": align})
                    break
            except Exception as e:  # noqa: BLE001
                fails.append({"kind": "exception", "spec": sp, "history": hist[-12:], "align": align, "detail": f"{type(e).__name__}: {e}"})
                break
    json.dump({"evaluations": evals, "distinct": distinct, "failures": fails[:5], "n_failures": len(fails), "align": align}, sys.stdout)


if __name__ == "__main__":
    main()
