"""Bounded stand-in for C12: for every gate, an otherwise valid input with the gated field outside the accept set (every single-bit flip of
each magic, unsupported versions, out-of-range geometry, unsupported feature flags / identifiers) must be refused at open.  JSON on stdout."""
from __future__ import annotations

import importlib
import io
import json
import os
import random
import struct
import sys


def flips(data, off, n):
    for byte in range(n):
        for bit in range(8):
            b = bytearray(data)
            b[off + byte] ^= 1 << bit
            yield f"bitflip@{off + byte}.{bit}", bytes(b)


def setbytes(data, off, val):
    b = bytearray(data)
    b[off:off + len(val)] = val
    return bytes(b)


def main():
    seed = int(sys.argv[1]) if len(sys.argv) > 1 else 0
    rng = random.Random(seed)
    cases = []  # (gate, description, callable)

    def materialise(fmt, pick):
        mod = importlib.import_module(f"replay.fmt_{fmt}")
        for sp in mod.gen_specs(rng, 60):
            if pick(sp):
                f = mod.build(sp)
                if isinstance(f, tuple):
                    return mod, sp, f
                if f.size > (64 << 20):
                    continue
                f.seek(0)
                return mod, sp, f.read()
        raise RuntimeError(f"no base image for {fmt}")

    # ---- VDI
    from dissect.hypervisor.disk.vdi import VDI

    _m, _sp, vdi = materialise("vdi", lambda s: not s.get("parent"))
    for d, x in flips(vdi, 64, 4):
        cases.append(("vdi.signature", d, lambda x=x: VDI(io.BytesIO(x))))
    # ---- HDS
    from dissect.hypervisor.disk.hdd import HDS

    _m, _sp, hds = materialise("hds", lambda s: not s.get("parent"))
    for d, x in flips(hds, 0, 16):
        cases.append(("hds.signature", d, lambda x=x: HDS(io.BytesIO(x))))
    # ---- VMDK sparse headers
    from dissect.hypervisor.disk.vmdk import SparseDisk

    for kind in ("sparse", "cowd", "sesparse"):
        _m, _sp, v = materialise("vmdk", lambda s, kind=kind: s["mode"] == "single" and s["extents"][0]["kind"] == kind)
        for d, x in flips(v, 0, 4):
            cases.append((f"vmdk.{kind}.magic", d, lambda x=x: SparseDisk(io.BytesIO(x))))
    # footer copy of the header (grain directory "at end"): its magic is gated like the leading one
    try:
        _m, _sp, v = materialise("vmdk", lambda s: s["mode"] == "single" and s["extents"][0]["kind"] in ("footer", "compressed"))
        if len(v) >= 1024 and v[len(v) - 1024:len(v) - 1020] == b"KDMV":
            for d, x in flips(v, len(v) - 1024, 4):
                cases.append(("vmdk.footer.magic", d, lambda x=x: SparseDisk(io.BytesIO(x))))
    except Exception:  # noqa: BLE001 -- no such base in this corpus: the gate is then covered by the shape obligation only
        pass
    # ---- VHDX
    from dissect.hypervisor.disk.vhdx import VHDX

    _m, sp, vx = materialise("vhdx", lambda s: not s.get("parent") and s["bs"] < (1 << 20))
    act = 64 * 1024 if sp.get("seq", [1, 2])[0] > sp.get("seq", [1, 2])[1] else 128 * 1024
    for name, off, n in (("vhdx.identifier", 0, 8), ("vhdx.header", act, 4), ("vhdx.region_table", 192 * 1024, 4), ("vhdx.metadata_table", 1 << 20, 8)):
        for d, x in flips(vx, off, n):
            cases.append((name, d, lambda x=x: VHDX(io.BytesIO(x))))
    for i in range(2):  # required regions: wipe each region entry's GUID
        cases.append(("vhdx.required_region", f"region entry {i} GUID zeroed", lambda x=setbytes(vx, 192 * 1024 + 16 + 32 * i, b"\x00" * 16): VHDX(io.BytesIO(x))))
    # ---- QCOW2
    from dissect.hypervisor.disk import qcow2 as q

    mod, sp, (img, _data, backing) = materialise("qcow2", lambda s: s["version"] == 3 and not s["datafile"] and s.get("backing") is None and not s["ext"] and s["cb"] <= 12 and not s.get("big_base"))
    img.seek(0)
    qi = img.read()
    for d, x in flips(qi, 0, 4):
        cases.append(("qcow2.magic", d, lambda x=x: q.QCow2(io.BytesIO(x))))
    for ver in (0, 1, 4, 5, 255, 0x10003, 0x10002, 0x80000003, 0x0300, 0x03000000):  # also values whose low byte / half word is a supported version
        cases.append(("qcow2.version", f"version={ver}", lambda x=setbytes(qi, 4, struct.pack(">I", ver)): q.QCow2(io.BytesIO(x))))
    for cb in (0, 1, 8, 22, 31, 32, 64, 0xFFFFFFFF):
        cases.append(("qcow2.cluster_bits", f"cluster_bits={cb}", lambda x=setbytes(qi, 20, struct.pack(">I", cb)): q.QCow2(io.BytesIO(x))))
    for cm in (1, 2, 0xFF):
        cases.append(("qcow2.crypt_method", f"crypt_method={cm}", lambda x=setbytes(qi, 32, struct.pack(">I", cm)): q.QCow2(io.BytesIO(x))))
    inc = struct.unpack(">Q", qi[72:80])[0]
    cases.append(("qcow2.data_file_required", "incompatible bit 2 set, no data_file given", lambda x=setbytes(qi, 72, struct.pack(">Q", inc | 4)): q.QCow2(io.BytesIO(x))))
    cases.append(("qcow2.subcluster_size", "extended L2 with 4 KiB clusters (128-byte sub-clusters)", lambda x=setbytes(setbytes(qi, 72, struct.pack(">Q", inc | 16)), 20, struct.pack(">I", 12)): q.QCow2(io.BytesIO(x))))
    cases.append(("qcow2.backing_required", "backing file name present, no backing_file given", lambda x=setbytes(setbytes(qi, 8, struct.pack(">Q", 200)), 16, struct.pack(">I", 4)): q.QCow2(io.BytesIO(x))))
    # ---- Hyper-V
    from dissect.hypervisor.descriptor.hyperv import HyperVFile

    root = os.path.join(os.path.dirname(os.path.dirname(os.path.dirname(os.path.abspath(importlib.import_module("dissect.hypervisor").__file__)))), "tests", "data")
    for name in ("test.vmcx", "test.VMRS"):
        p = os.path.join(root, name)
        if not os.path.exists(p):
            continue
        hv = open(p, "rb").read()
        s1, s2 = struct.unpack_from("<H", hv, 8)[0], struct.unpack_from("<H", hv, 0x1000 + 8)[0]
        act = 0 if s1 > s2 else 0x1000
        for d, x in flips(hv, act, 4):
            cases.append((f"hyperv.header.signature[{name}]", d, lambda x=x: HyperVFile(io.BytesIO(x))))
        for ver in (0, 0x300, 0x401, 0x500, 0x10400, 0x80000400, 0x4):
            cases.append((f"hyperv.version[{name}]", f"version={ver:#x}", lambda x=setbytes(hv, act + 10, struct.pack("<I", ver)): HyperVFile(io.BytesIO(x))))
        for d, x in flips(hv, 0x2000, 4):
            cases.append((f"hyperv.object_table.signature[{name}]", d, lambda x=x: HyperVFile(io.BytesIO(x))))
        rlo = struct.unpack_from("<Q", hv, act + 26)[0]
        for d, x in flips(hv, rlo, 4):
            cases.append((f"hyperv.replay_log.signature[{name}]", d, lambda x=x: HyperVFile(io.BytesIO(x))))
        # first key table: object table entries of type 2
        n = struct.unpack_from("<I", hv, 0x2004)[0]
        for i in range(n):
            t, _c, off, _sz, alloc = struct.unpack_from("<BIQIB", hv, 0x2008 + 18 * i)
            if t == 2 and alloc:
                for d, x in flips(hv, off, 2):
                    cases.append((f"hyperv.key_table.signature[{name}]", d, lambda x=x: HyperVFile(io.BytesIO(x))))
                break
    # ---- envelope / keystore / key safe
    from dissect.hypervisor.descriptor.vmx import KeySafe
    from dissect.hypervisor.util.envelope import Envelope, KeyStore

    ve = os.path.join(root, "local.tgz.ve")
    if os.path.exists(ve):
        e = open(ve, "rb").read()
        for d, x in flips(e, 0, 21):
            cases.append(("envelope.magic", d, lambda x=x: Envelope(io.BytesIO(x))))
        for ver in (0, 1, 3, 0x100, 0x10002, 0x80000002, 0x02000000, 0x0202):
            cases.append(("envelope.version", f"version={ver}", lambda x=setbytes(e, 508, struct.pack("<I", ver)): Envelope(io.BytesIO(x))))
        for ver in (0, 2, 7, 0x10001, 0x80000001):
            cases.append(("envelope.footer_version", f"footer version={ver}", lambda x=setbytes(e, len(e) - 4, struct.pack("<I", ver)): Envelope(io.BytesIO(x))))
        idx = e.find(b"AES-256-GCM")
        if idx > 0:
            for repl in (b"AES-128-GCM", b"AES-256-CBC", b"aes-256-gcm"):
                cases.append(("envelope.cipher", f"cipher={repl.decode()}", lambda x=setbytes(e, idx, repl): Envelope(io.BytesIO(x))))
        for nm in (b"vmware.keyInfo", b"vmware.cipherName", b"vmware.keyHash"):
            j = e.find(nm)
            if j > 0:
                cases.append(("envelope.required_attribute", f"{nm.decode()} renamed", lambda x=setbytes(e, j, b"x" + nm[1:]): Envelope(io.BytesIO(x))))
    for mode in ("TPM", "none", "", "None", "NONE2"):
        cases.append(("keystore.mode", f"mode={mode!r}", lambda mode=mode: KeyStore({"mode": mode, "ConfigEncData": "keyId=AAAAAAAAAAAAAAAAAAAAAA%3d%3d:data1=AAAA:data2=AAAA"})))
    for ident in ("vmware:keys", "vmware", "VMWARE:KEY", "", "vmware:key2"):
        cases.append(("keysafe.identifier", f"identifier={ident!r}", lambda ident=ident: KeySafe.from_text(ident + "/list/(pair/(phrase/a/pass2key%3dPBKDF2%2dHMAC%2dSHA%2d1%3acipher%3dAES%2d256%3arounds%3d1%3asalt%3dAAAA,HMAC%2dSHA%2d1,AAAA))")))
    for kind in ("rawkey", "ldap", "script", "role", "fqid", "PAIR", ""):
        cases.append(("keysafe.locator_kind", f"locator kind={kind!r}", lambda kind=kind: KeySafe.from_text("vmware:key/list/(" + kind + "/(phrase/a/b,HMAC%2dSHA%2d1,AAAA))")))
    # ---- Parallels HDD
    import tempfile
    from pathlib import Path

    from dissect.hypervisor.disk.hdd import HDD

    d = tempfile.mkdtemp(prefix="c12_")
    (Path(d) / "empty.hdd").mkdir()
    cases.append(("hdd.descriptor_present", "directory without DiskDescriptor.xml", lambda: HDD(Path(d) / "empty.hdd")))
    G = "{5fbaabe3-6958-40ff-92a7-860e329aab41}"
    for typ in ("Raw", "compressed", "PLAIN", ""):
        root_ = Path(d) / f"t{len(cases)}.hdd"
        root_.mkdir()
        (root_ / "DiskDescriptor.xml").write_text(f'<?xml version="1.0"?><Parallels_disk_image><StorageData><Storage><Start>0</Start><End>8</End><Image><GUID>{G}</GUID><Type>{typ}</Type><File>x.hds</File></Image></Storage></StorageData><Snapshots><Shot><GUID>{G}</GUID><ParentGUID>{{00000000-0000-0000-0000-000000000000}}</ParentGUID></Shot></Snapshots></Parallels_disk_image>')
        (root_ / "x.hds").write_bytes(b"\x00" * 4096)
        cases.append(("hdd.image_type", f"image type={typ!r}", lambda r=root_: HDD(r).open()))
    fails = []
    per_gate = {}
    for gate, desc, fn in cases:
        per_gate[gate] = per_gate.get(gate, 0) + 1
        try:
            fn()
            fails.append({"gate": gate, "mutation": desc, "problem": "accepted (no exception at open)"})
        except BaseException:  # noqa: BLE001
            pass
    import shutil

    shutil.rmtree(d, ignore_errors=True)
    json.dump({"evaluations": len(cases), "distinct": len(per_gate), "per_gate": per_gate, "failures": fails[:8], "n_failures": len(fails),
               "rule": "per gate: an otherwise valid input with the gated field outside the accept set (all single-bit flips of each magic, unsupported versions, out-of-range cluster bits, unsupported flags/identifiers/types) must raise at open; distinct = number of gates exercised"}, sys.stdout)


if __name__ == "__main__":
    main()
