"""QCOW2 builder + executable specification (docs/interop/qcow2.txt).

spec: {"cb": cluster_bits, "version": 2|3, "ext": bool, "nclusters", "size", "l1_size",
       "clusters": [c,...] one per guest cluster:  None | "z" | ["n", slot] | ["za", slot] | ["c", slot] | ["x", slot|None, [sub,...]]
           ("x" = extended-L2 cluster: sub in "a" (allocated), "z" (zero), "u" (unallocated) per sub-cluster; slot None = no host cluster)
       "backing": length|None, "datafile": bool, "l1_holes": [l1 indices with no L2 table], "ext_hdr": [[magic, hexdata],...], "v2_garbage": bool}"""
from __future__ import annotations

import random
import struct
import zlib

from .sparsefile import SparseFile

SPC = 32


def pattern(slot, j):
    if slot >= 1000:
        return (slot % 250) + 1  # "flat" payload: a compressed cluster of it takes a few dozen bytes
    return ((37 * (slot + 1) + j + 3 * (j >> 9) + 5 * (j >> 16)) & 0xFF) or 1


def slot_bytes(slot, start, n):
    return bytes(pattern(slot, j) for j in range(start, start + n))


def backing_byte(j):
    return ((j * 7 + 3 + (j >> 10)) & 0xFF) or 2


def l2_entries(spec):
    return (1 << spec["cb"]) // (16 if spec["ext"] else 8)


def build_all(spec):
    """returns (image SparseFile, data SparseFile | None, backing SparseFile | None)"""
    cb = spec["cb"]
    cs = 1 << cb
    per_l2 = l2_entries(spec)
    ncl = spec["nclusters"]
    nl1 = (ncl + per_l2 - 1) // per_l2
    l1_size = spec.get("l1_size", nl1)
    holes = set(spec.get("l1_holes", []))
    img = SparseFile()
    data = SparseFile() if spec.get("datafile") else None
    target = data if data is not None else img
    # cluster map: 0 header, 1.. L1 (may span several clusters), then L2 tables, then data slots
    l1_clusters = max(1, (l1_size * 8 + cs - 1) // cs)
    l1_off = cs * spec.get("l1_at", 1)
    l2_base = spec.get("l1_at", 1) + l1_clusters
    l2_pos = {}
    nxt = l2_base
    order = list(range(nl1))
    if spec.get("l2_reverse"):
        order.reverse()
    for i in order:
        if i in holes or i >= l1_size:
            continue
        l2_pos[i] = nxt * cs
        nxt += 1
    data_base = (nxt + spec.get("data_gap", 0)) * cs if data is None else 0
    big = spec.get("big_base", 0)  # moves the data area above 4 GiB (host offsets beyond 2^32)
    data_base += big

    def host(slot):
        return data_base + slot * cs

    l1 = bytearray(l1_size * 8)
    for i, p in l2_pos.items():
        struct.pack_into(">Q", l1, i * 8, p | (1 << 63))
    img.put(l1_off, bytes(l1))
    cpos = {}
    # compressed clusters are packed after the last slot of the image file
    slots = [c[1] for c in spec["clusters"] if isinstance(c, list) and c[0] in ("n", "za", "x") and c[1] is not None]
    comp_cursor = (nxt + spec.get("data_gap", 0)) * cs + big + ((max(slots) + 1) if (slots and data is None) else 0) * cs + 64
    for i in range(nl1):
        if i not in l2_pos:
            continue
        tbl = bytearray(cs)
        for j in range(per_l2):
            g = i * per_l2 + j
            if g >= ncl:
                break
            c = spec["clusters"][g]
            ent, bm = 0, 0
            if c is None:
                pass
            elif c == "z":
                if spec["ext"]:
                    bm = 0xFFFFFFFF << 32
                else:
                    ent = 1
            elif c[0] == "n":
                ent = host(c[1]) | (1 << 63)
                bm = 0xFFFFFFFF
                target.put_fn(host(c[1]), cs, lambda s, n, sl=c[1]: slot_bytes(sl, s, n))
            elif c[0] == "za":
                ent = host(c[1]) | 1 | (1 << 63)
                target.put_fn(host(c[1]), cs, lambda s, n, sl=c[1]: slot_bytes(sl, s, n))
            elif c[0] == "c":
                raw = slot_bytes(c[1], 0, cs)
                co = zlib.compressobj(6, zlib.DEFLATED, -12)
                blob = co.compress(raw) + co.flush()
                coff = comp_cursor + (spec.get("cmisalign", 0) if not (spec.get("cpack") and cpos) else 0)
                img.put(coff, blob)
                cpos[g] = coff
                nsec = ((coff & 511) + len(blob) + 511) // 512
                x = 62 - (cb - 8)
                ent = (1 << 62) | ((nsec - 1) << x) | coff
                # "cpack": compressed clusters back to back at byte granularity, as qemu-img convert -c writes them (several may share a 512-byte sector)
                comp_cursor = coff + len(blob) if spec.get("cpack") else ((coff + len(blob) + 511) // 512) * 512 + 512
            elif c[0] == "x":
                subs = c[2]
                if c[1] is not None:
                    ent = host(c[1]) | (1 << 63)
                    target.put_fn(host(c[1]), cs, lambda s, n, sl=c[1]: slot_bytes(sl, s, n))
                for k, sb in enumerate(subs):
                    if sb == "a":
                        bm |= 1 << k
                    elif sb == "z":
                        bm |= 1 << (32 + k)
            if spec["ext"]:
                struct.pack_into(">QQ", tbl, j * 16, ent, bm)
            else:
                struct.pack_into(">Q", tbl, j * 8, ent)
        img.put(l2_pos[i], bytes(tbl))
    # header
    incompat = (0x10 if spec["ext"] else 0) | (0x4 if data is not None else 0)
    bname = b"backing.img" if spec.get("backing") is not None else b""
    exts = b""
    for magic, hexd in spec.get("ext_hdr", []):
        d = bytes.fromhex(hexd)
        exts += struct.pack(">II", magic, len(d)) + d + b"\x00" * ((8 - len(d) % 8) % 8)
    exts += struct.pack(">II", 0, 0)
    hlen = 72 if spec["version"] == 2 else (104 if spec.get("hlen104") else 112)
    boff = hlen + len(exts) if bname else 0
    hdr = struct.pack(">IIQIIQIIQQIIQ", 0x514649FB, spec["version"], boff, len(bname), cb, spec["size"], 0, l1_size, l1_off, 0, 0, 0, 0)
    if spec["version"] == 3:
        hdr += struct.pack(">QQQII", incompat, 0, 0, 4, hlen) + (struct.pack(">B7x", 0) if hlen == 112 else b"")
    img.put(0, hdr + exts + bname)
    if spec["version"] == 2 and spec.get("v2_garbage") and False:
        pass
    top = max(img.size, comp_cursor)
    img.set_size((top + cs - 1) // cs * cs)
    backing = None
    if spec.get("backing") is not None:
        backing = SparseFile()
        backing.put_fn(0, spec["backing"], lambda s, n: bytes(backing_byte(j) for j in range(s, s + n)))
        backing.set_size(spec["backing"])
    if data is not None:
        data.set_size(max(data.size, cs))
    return img, data, backing


def build(spec):
    return build_all(spec)


def open_real(fhs, spec):
    from dissect.hypervisor.disk import qcow2

    img, data, backing = fhs
    kw = {}
    if data is not None:
        kw["data_file"] = data
    if spec.get("backing") is not None:
        kw["backing_file"] = backing if not spec.get("no_backing") else qcow2.ALLOW_NO_BACKING_FILE
    q = qcow2.QCow2(img, **kw)
    return q


def guest_byte_source(spec, g, o):
    """what guest byte `o` of guest cluster g is: ('data', slot) | ('zero',) | ('back',)"""
    c = spec["clusters"][g] if g < len(spec["clusters"]) else None
    per_l2 = l2_entries(spec)
    i = g // per_l2
    if i >= spec.get("l1_size", 1 << 60) or i in set(spec.get("l1_holes", [])):
        return ("back",)
    if c is None:
        return ("back",)
    if c == "z" or c[0] == "za":
        return ("zero",)
    if c[0] in ("n", "c"):
        return ("data", c[1])
    if c[0] == "x":
        sub = c[2][o // ((1 << spec["cb"]) // SPC)]
        if sub == "a":
            return ("data", c[1])
        return ("zero",) if sub == "z" else ("back",)
    raise ValueError(c)


def oracle(spec, off, length):
    cs = 1 << spec["cb"]
    end = min(off + length, spec["size"])
    out = bytearray()
    x = off
    bl = spec.get("backing") if not spec.get("no_backing") else None
    while x < end:
        g, o = divmod(x, cs)
        scs = cs // SPC if spec["ext"] else cs
        take = min(end - x, scs - o % scs)
        src = guest_byte_source(spec, g, o)
        if src[0] == "data":
            out += slot_bytes(src[1], o, take)
        elif src[0] == "zero":
            out += b"\x00" * take
        else:
            out += bytes(backing_byte(j) if (bl is not None and j < bl) else 0 for j in range(x, x + take))
        x += take
    return bytes(out)


def gen_specs(rng: random.Random, n, hints=None):
    out = []
    for i in range(n):
        ext = rng.random() < 0.35
        cb = rng.choice([14, 15, 16] if ext else [9, 9, 10, 12, 16])
        cs = 1 << cb
        per_l2 = cs // (16 if ext else 8)
        ncl = rng.randint(1, 6) if cb >= 12 else rng.choice([1, 3, per_l2 - 1, per_l2, per_l2 + 2, 2 * per_l2 + 3, 3 * per_l2 + 5])
        # extended L2 "stretch" family: host-contiguous clusters whose allocated sub-clusters form a prefix, so that runs continue across
        # cluster boundaries and end inside a cluster (stale host bytes lie under the unallocated tail)
        stretch = ext and rng.random() < 0.3
        if stretch:
            ncl = max(ncl, 3)
        size = ncl * cs - (rng.randint(0, cs - 1) if rng.random() < 0.3 else 0)
        slots = list(range(ncl))
        if not stretch:
            rng.shuffle(slots)
        clusters = []
        for g in range(ncl):
            r = rng.random()
            if ext:
                if stretch:
                    r = max(r, 0.5) if rng.random() < 0.8 else r
                if r < 0.2:
                    clusters.append(None)
                elif r < 0.3:
                    clusters.append("z")
                elif r < 0.45:
                    clusters.append(["c", slots[g] + (1000 if rng.random() < 0.5 else 0)])
                elif stretch:
                    m_ = rng.choice([SPC, SPC, 20, 28, 31, 12, 1])
                    tail = rng.choice("uz")
                    clusters.append(["x", slots[g], ["a"] * m_ + [tail] * (SPC - m_)])
                else:
                    mode = rng.random()
                    subs = ["a"] * SPC if mode < 0.2 else [rng.choice("azu") for _ in range(SPC)] if mode < 0.6 else [("a" if (k // rng.choice([1, 3, 8])) % 2 else rng.choice("zu")) for k in range(SPC)]
                    has_host = any(s == "a" for s in subs) or rng.random() < 0.5
                    clusters.append(["x", slots[g] if has_host else None, subs])
            else:
                clusters.append(None if r < 0.2 else "z" if r < 0.3 else ["za", slots[g]] if r < 0.4 else ["c", slots[g] + (1000 if rng.random() < 0.5 else 0)] if r < 0.55 else ["n", slots[g]])
        if not ext and rng.random() < 0.2:
            # "convert -c" family: (almost) every cluster compressed, tiny and ordinary ones mixed, packed back to back
            clusters = [["c", slots[g] + (1000 if rng.random() < 0.6 else 0)] if rng.random() < 0.85 else clusters[g] for g in range(ncl)]
        version = 3 if (ext or rng.random() < 0.7) else 2
        if version == 2:
            clusters = [c if not (c == "z" or (isinstance(c, list) and c[0] == "za")) else None for c in clusters]
        sp = {"cb": cb, "version": version, "ext": ext, "nclusters": ncl, "size": max(512, size), "clusters": clusters,
              "backing": rng.choice([None, None, size, max(1, size // 2), size + 4096]), "datafile": version == 3 and rng.random() < 0.2,
              "data_gap": rng.choice([0, 0, 1]), "cmisalign": rng.choice([0, 0, 17, 300]), "cpack": rng.random() < 0.5, "l2_reverse": rng.random() < 0.3}
        nl1 = (ncl + per_l2 - 1) // per_l2
        sp["l1_size"] = nl1 + rng.choice([0, 0, 1])
        if nl1 > 1 and rng.random() < 0.5:
            sp["l1_holes"] = sorted(rng.sample(range(nl1), rng.randint(1, nl1 - 1)))
        if sp["datafile"]:
            sp["clusters"] = [c if not (isinstance(c, list) and c[0] == "c") else None for c in sp["clusters"]]
        if rng.random() < 0.15:
            sp["big_base"] = 5 << 30
        if rng.random() < 0.3:
            sp["ext_hdr"] = [[0xE2792ACA, b"raw".hex()]] + ([[0x6803F857, (b"\x00" * 48).hex()]] if rng.random() < 0.5 else [])
        # version-3 header of exactly 104 bytes (QEMU < 5.1: no compression_type field; byte 104 is the first byte of the first header
        # extension).  Decided by a private generator so that the main random stream -- every other generated image -- stays as it was
        r2 = random.Random(repr((i, sp["size"], sp["cb"], version)))
        if version == 3 and r2.random() < 0.35:
            sp["hlen104"] = True
            if "ext_hdr" not in sp and r2.random() < 0.7:
                sp["ext_hdr"] = [[0x6803F857, (b"\x00" * 48).hex()]] if r2.random() < 0.5 else [[0xE2792ACA, b"qcow2".hex()]]
        if version == 2 and r2.random() < 0.5:
            # version-2 image whose first header extension has a length with bit 4 set (16..31 / 48..63): in a version-3 header those
            # bytes (72..79) would be the incompatible-feature bits, 0x10 = extended L2 entries; a version-2 header has no such field
            sp["ext_hdr"] = [[0x6803F857, (b"\x00" * 48).hex()]] if r2.random() < 0.5 else [[0x0BADC0DE, (b"\x01" * r2.choice([16, 20, 31])).hex()]]
        out.append(sp)
    return out


def requests(spec, rng, limit=40):
    size = spec["size"]
    cs = 1 << spec["cb"]
    reqs = [(0, min(size, 4 * cs)), (max(0, size - 3000), 5000), (size, 10)]
    if size <= (1 << 20):
        reqs += [(0, size), (rng.randint(0, size), size)]  # whole-disk reads: runs that cross L2-table (L1 entry) boundaries
    for _ in range(limit):
        o = rng.randint(0, size)
        ln = rng.choice([1, 511, 512, 513, cs // SPC, cs // SPC + 1, cs - 1, cs, cs + 1, rng.randint(0, 3 * cs)])
        reqs.append((o, ln))
        reqs.append((o // 512 * 512, (ln + 511) // 512 * 512))
    return reqs
