"""Bounded stand-in for C11: mutations of valid inputs on the real code under a watchdog.  `python -m replay.fuzz_real <fmt> <seed> <n>`"""
from __future__ import annotations

import importlib
import io
import json
import os
import random
import resource
import signal
import sys
import time


class Timeout(Exception):
    pass


def _alarm(_s, _f):
    raise Timeout()


WORDS = [0, 1, 0xFFFFFFFF, 0x7FFFFFFF, 0x80000000]


def mutations(data: bytes, regions, rng):
    """(description, mutated bytes)"""
    n = len(data)
    for lo, hi in regions:
        for off in range(lo, min(hi, n) - 3, 4):
            cur = int.from_bytes(data[off:off + 4], "little")
            curb = int.from_bytes(data[off:off + 4], "big")
            vals = {("le", v) for v in WORDS + [(cur + 1) & 0xFFFFFFFF, (cur - 1) & 0xFFFFFFFF, off & 0xFFFFFFFF, (off // 512) & 0xFFFFFFFF]}
            vals |= {("be", v) for v in [(curb + 1) & 0xFFFFFFFF, (curb - 1) & 0xFFFFFFFF, off & 0xFFFFFFFF, (off // 512) & 0xFFFFFFFF, 0xFFFFFFFF]}
            for end, v in vals:
                b = v.to_bytes(4, "little" if end == "le" else "big")
                if b != data[off:off + 4]:
                    yield f"word@{off}={end}:{v:#x}", data[:off] + b + data[off + 4:]
    for i in range(24):
        cut = rng.randint(0, n) if i > 8 else [0, 1, 4, 64, 511, 512, 513, 1024, 4096][i]
        if cut < n:
            yield f"truncate@{cut}", data[:cut]
    for i in range(40):
        b = bytearray(data)
        for _ in range(rng.randint(1, 8)):
            pos = rng.randrange(0, max(1, min(n, 8192)))
            b[pos] = rng.randrange(256)
        yield f"random#{i}", bytes(b)


def run_one(opener, data, limit_s=5.0):
    signal.setitimer(signal.ITIMER_REAL, limit_s)
    t = time.time()
    try:
        s = opener(io.BytesIO(data))
        if hasattr(s, "read"):
            size = getattr(s, "size", 0) or 0
            s.seek(0)
            s.read(min(size, 65536) if size else 65536)
            if size > 70000:
                s.seek(max(0, size - 9000))
                s.read(20000)
        elif hasattr(s, "as_dict"):
            s.as_dict()
        return "ok", ""
    except Timeout:
        return "timeout", f"no return within {limit_s}s"
    except MemoryError:
        return "memory", "MemoryError under the 1.5 GiB address-space limit"
    except RecursionError as e:
        return "exception-ok", f"RecursionError {e}"
    except BaseException as e:  # noqa: BLE001  (any exception is an acceptable outcome for C11)
        return "exception-ok", type(e).__name__
    finally:
        signal.setitimer(signal.ITIMER_REAL, 0)
        if time.time() - t > limit_s * 0.8:
            pass


def still_hangs(fn, limit_s=60.0):
    """second opinion for a watchdog hit: does the same call still not return within a 12x longer limit?"""
    signal.setitimer(signal.ITIMER_REAL, limit_s)
    try:
        fn()
        return False
    except Timeout:
        return True
    except BaseException:  # noqa: BLE001
        return False
    finally:
        signal.setitimer(signal.ITIMER_REAL, 0)


def main():
    fmt, seed, n = sys.argv[1], int(sys.argv[2]), int(sys.argv[3])
    budget = float(sys.argv[4]) if len(sys.argv) > 4 else 400.0
    resource.setrlimit(resource.RLIMIT_AS, (1536 << 20, 1536 << 20))
    signal.signal(signal.SIGALRM, _alarm)
    rng = random.Random(seed)
    bases = []
    if fmt in ("vhd", "vdi", "hds", "vhdx", "vmdk"):
        mod = importlib.import_module(f"replay.fmt_{fmt}")
        specs = [sp for sp in mod.gen_specs(rng, n * 6) if not sp.get("parent") and sp.get("mode", "single") == "single" and sp.get("bs", 0) < (1 << 20)][:n]
        for sp in specs:
            f = mod.build(sp)
            if f is None or f.size > (6 << 20):
                continue  # the harness copies the image once per mutation under its own 1.5 GiB address-space limit: keep the bases small
            f.seek(0)
            data = f.read()
            regions = []
            for off, d in f._ext:
                regions.append((off, off + min(len(d), 2048 if len(d) <= 65536 else 64)))
            bases.append((json.dumps(sp)[:300], data, regions, lambda fh, sp=sp, mod=mod: mod.open_real(fh, sp)))
    elif fmt == "qcow2":
        # QCOW2 images (standard and extended L2) without external files: the unmutated image first (run computation over every bitmap pattern
        # the generator produces), then the word mutations of header and tables
        mod = importlib.import_module("replay.fmt_qcow2")
        from dissect.hypervisor.disk.qcow2 import QCow2

        specs = [sp for sp in mod.gen_specs(rng, n * 8) if not sp.get("datafile") and sp.get("backing") is None and not sp.get("big_base")][:n * 2]
        for sp in specs:
            img = mod.build(sp)[0]
            if img.size > (6 << 20):
                continue
            img.seek(0)
            data = img.read()
            regions = [(0, 112)] + [(off, off + min(len(d), 512)) for off, d in img._ext if off > 0 and not callable(d)][:6]
            bases.append((json.dumps(sp)[:300], data, regions, QCow2))
    elif fmt == "hyperv":
        from dissect.hypervisor.descriptor.hyperv import HyperVFile

        root = os.path.join(os.path.dirname(os.path.dirname(os.path.dirname(os.path.abspath(importlib.import_module("dissect.hypervisor").__file__)))), "tests", "data")
        for name in ("test.vmcx", "test.VMRS"):
            p = os.path.join(root, name)
            if os.path.exists(p):
                data = open(p, "rb").read()
                regions = [(0, 64), (0x1000, 0x1040), (0x2000, 0x2000 + 18 * 12 + 8)]
                # first key table: located through the object table of the unmutated file
                bases.append((name, data, regions, HyperVFile))
        # generated containers with a chained object table that also lists the first one again (mutual reference): must open (or raise), never loop
        from replay import hyperv_corpus as hc

        for _ in range(3):
            tree = hc.gen_tree(rng, 2, 3, big_ok=False)
            opts = {"free_rate": 0.2, "stale_rate": 0.5, "second_object_table": True, "distractors": 2, "other_header": "older", "active_slot": rng.choice([0, 1]), "back_reference": True}
            data = hc.build(rng, tree, rng.choice([1, 2]), opts)
            bases.append(("generated tree with mutually referencing object tables", data, [(0x2000, 0x2000 + 8 + 18 * 6)], HyperVFile))
    elif fmt == "bombs":
        # decompression bombs: a well-formed QCOW2 image whose one compressed cluster carries a deflate stream that inflates to the
        # cluster's content followed by 96 MiB of zeros.  Every read of that cluster -- in particular one that ends exactly at the
        # cluster boundary -- must return the cluster's bytes while allocating no more than a small multiple of the cluster size.
        import struct
        import tracemalloc
        import zlib
        from io import BytesIO

        from dissect.hypervisor.disk.qcow2 import QCow2

        evals, fails = 0, []
        for cb in (16, 12):
            cs = 1 << cb
            content = bytes((7 * i + (i >> 8)) & 0xFF or 1 for i in range(cs))
            co = zlib.compressobj(9, zlib.DEFLATED, -12)
            stream = co.compress(content) + co.compress(bytes(96 << 20 if cb == 16 else 3 << 20)) + co.flush()
            x = 62 - (cb - 8)
            nsect = (len(stream) + 511) // 512
            if nsect - 1 >= (1 << (62 - x)):
                continue
            hdr = struct.pack(">4sIQIIQIIQQIIQQQQII", b"QFI\xfb", 3, 0, 0, cb, 4 * cs, 0, 1, cs, 0, 0, 0, 0, 0, 0, 0, 4, 104)
            img = bytearray(3 * cs + nsect * 512)
            img[: len(hdr)] = hdr
            img[cs : cs + 8] = struct.pack(">Q", 2 * cs)
            img[2 * cs : 2 * cs + 8] = struct.pack(">Q", (1 << 62) | ((nsect - 1) << x) | (3 * cs))
            img[3 * cs : 3 * cs + len(stream)] = stream
            limit = 8 * cs + (6 << 20)
            for off, ln in ((0, cs // 2), (0, cs), (cs - 1, 1), (cs // 2, cs // 2), (100, 4096), (0, 2 * cs)):
                evals += 1
                q = QCow2(BytesIO(bytes(img)))
                tracemalloc.start()
                try:
                    got = q._read(off, ln) if (off % 512 == 0 and ln % 512 == 0) else (q.seek(off), q.read(ln))[1]
                    peak = tracemalloc.get_traced_memory()[1]
                except MemoryError:
                    got, peak = None, 1 << 40
                finally:
                    tracemalloc.stop()
                want = (content + bytes(3 * cs))[off : off + ln]
                if got is not None and got != want:
                    fails.append({"kind": "mismatch", "mutation": f"qcow2 cluster_bits={cb} compressed cluster with an over-long deflate stream, read({off}, {ln})", "detail": "wrong bytes returned"})
                if peak > limit:
                    fails.append({"kind": "memory", "mutation": f"qcow2 cluster_bits={cb} compressed cluster whose deflate stream inflates to cluster + {96 if cb == 16 else 3} MiB of zeros, read({off}, {ln})",
                                  "detail": f"peak allocation {peak} bytes for a {ln}-byte read (bound {limit}): the stream was inflated beyond the cluster it fills"})
                    break
        json.dump({"evaluations": evals, "distinct": evals, "failures": fails[:5]}, sys.stdout)
        return
    elif fmt == "hddxml":
        import tempfile
        from pathlib import Path

        from dissect.hypervisor.disk.hdd import HDD

        G = ["{%08x-0000-0000-0000-000000000000}" % i for i in range(1, 6)]
        NULLG = "{00000000-0000-0000-0000-000000000000}"
        evals = 0
        fails = []
        d = tempfile.mkdtemp(prefix="c11_")
        for case in range(max(n * 4, 24)):
            if fails:
                break  # one confirmed hang is the verdict; every further one would cost another 65 s
            k = rng.randint(1, 5)
            parents = [rng.choice(G[:k] + [NULLG]) for _ in range(k)]
            shots = "".join(f"<Shot><GUID>{G[i]}</GUID><ParentGUID>{parents[i]}</ParentGUID></Shot>" for i in range(k))
            imgs = "".join(f"<Image><GUID>{G[i]}</GUID><Type>Plain</Type><File>x{i}.hds</File></Image>" for i in range(k))
            root = Path(d) / f"c{case}.hdd"
            root.mkdir()
            (root / "DiskDescriptor.xml").write_text(f'<?xml version="1.0"?><Parallels_disk_image><StorageData><Storage><Start>0</Start><End>8</End>{imgs}</Storage></StorageData><Snapshots>{shots}</Snapshots></Parallels_disk_image>')
            for i in range(k):
                (root / f"x{i}.hds").write_bytes(b"\x01" * 4096)
            evals += 1
            signal.setitimer(signal.ITIMER_REAL, 5.0)
            try:
                HDD(root).open(rng.choice(G[:k]))
            except Timeout:
                if still_hangs(lambda: HDD(root).open(rng.choice(G[:k]))):
                    fails.append({"kind": "timeout", "mutation": f"snapshot parents {parents}", "detail": "HDD.open did not return within 5s and again not within 60s"})
            except MemoryError:
                fails.append({"kind": "memory", "mutation": f"snapshot parents {parents}", "detail": "MemoryError"})
            except BaseException:  # noqa: BLE001
                pass
            finally:
                signal.setitimer(signal.ITIMER_REAL, 0)
            # the same graph on ONE HDD object, every snapshot in turn: what an earlier (successful or refused) open left behind must not
            # switch off the protection of a later one
            if not fails:
                hobj = None
                for gi in range(k):
                    evals += 1
                    signal.setitimer(signal.ITIMER_REAL, 5.0)
                    try:
                        hobj = hobj or HDD(root)
                        hobj.open(G[gi])
                    except Timeout:
                        def again_seq(upto=gi):
                            h2 = HDD(root)
                            for gj in range(upto + 1):
                                try:
                                    h2.open(G[gj])
                                except Timeout:
                                    raise
                                except BaseException:  # noqa: BLE001
                                    pass

                        if still_hangs(again_seq):
                            fails.append({"kind": "timeout", "mutation": f"snapshot parents {parents}, snapshots opened in turn on one HDD object up to #{gi}", "detail": "HDD.open did not return within 5s and again not within 60s"})
                        break
                    except MemoryError:
                        fails.append({"kind": "memory", "mutation": f"snapshot parents {parents} (one object)", "detail": "MemoryError"})
                        break
                    except BaseException:  # noqa: BLE001
                        pass
                    finally:
                        signal.setitimer(signal.ITIMER_REAL, 0)
        # storages with holes, overlaps, empty and reversed ranges: open and read across every boundary
        for case in range(max(n * 6, 30)):
            if fails:
                break
            k = rng.randint(1, 4)
            ranges = []
            for _ in range(k):
                a = rng.randint(0, 40)
                ranges.append((a, a + rng.randint(-3, 24)))
            root = Path(d) / f"s{case}.hdd"
            root.mkdir()
            sts = "".join(f"<Storage><Start>{a}</Start><End>{b}</End><Image><GUID>{G[0]}</GUID><Type>Plain</Type><File>y{i}.hds</File></Image></Storage>" for i, (a, b) in enumerate(ranges))
            (root / "DiskDescriptor.xml").write_text(f'<?xml version="1.0"?><Parallels_disk_image><StorageData>{sts}</StorageData><Snapshots><Shot><GUID>{G[0]}</GUID><ParentGUID>{NULLG}</ParentGUID></Shot></Snapshots></Parallels_disk_image>')
            for i, (a, b) in enumerate(ranges):
                (root / f"y{i}.hds").write_bytes(bytes([i + 1]) * (max(b - a, 0) * 512))
            points = sorted({p for a, b in ranges for p in (a, b, a - 1, b - 1) if p >= 0})
            for pt in points[:10]:
                evals += 1
                signal.setitimer(signal.ITIMER_REAL, 5.0)
                try:
                    s_ = HDD(root).open(G[0])
                    s_.align = 512
                    s_.seek(pt * 512)
                    s_.read(2048)
                except Timeout:
                    def again(pt=pt):
                        s2 = HDD(root).open(G[0])
                        s2.align = 512
                        s2.seek(pt * 512)
                        s2.read(2048)

                    if still_hangs(again):
                        fails.append({"kind": "timeout", "mutation": f"storages {ranges} read at sector {pt}", "detail": "no return within 5s and again not within 60s"})
                        break
                except MemoryError:
                    fails.append({"kind": "memory", "mutation": f"storages {ranges} read at sector {pt}", "detail": "MemoryError"})
                    break
                except BaseException:  # noqa: BLE001
                    pass
                finally:
                    signal.setitimer(signal.ITIMER_REAL, 0)
        import shutil

        shutil.rmtree(d, ignore_errors=True)
        json.dump({"evaluations": evals, "distinct": evals, "failures": fails[:5]}, sys.stdout)
        return
    evals = 0
    distinct = 0
    slow = 0
    fails = []
    t0 = time.time()
    for desc, data, regions, opener in bases:
        import itertools

        for mdesc, mdata in itertools.chain([("unmutated", data)], mutations(data, regions, rng)):
            if time.time() - t0 > budget or any(f["kind"] == "timeout" for f in fails):
                break
            evals += 1
            distinct += 1
            kind, detail = run_one(opener, mdata)
            if kind == "memory":
                # second opinion with the collector run first: the limit also counts what the harness itself holds
                import gc

                gc.collect()
                kind, detail = run_one(opener, mdata)
            if kind == "timeout":
                # a count field set to 2**31 makes cstruct parse entries until the end of the file: work proportional to the file size
                # is bounded work, and 5 s is a heuristic that a loaded machine can exceed -- a timeout only counts when the same input still
                # does not return within 12x the limit (a genuinely unbounded loop never does)
                kind, detail = run_one(opener, mdata, limit_s=60.0)
                slow += 1
                if kind != "timeout":
                    continue
            if kind in ("timeout", "memory"):
                fails.append({"kind": kind, "base": desc, "mutation": mdesc, "detail": detail})
    json.dump({"evaluations": evals, "distinct": distinct, "slow_but_returned_or_retried": slow, "failures": fails[:10]}, sys.stdout)


if __name__ == "__main__":
    main()
