"""Contracts for dissect/hypervisor/disk/qcow2.py and c_qcow2.py (C01; also C07 backing, C11, C13).

Specification source: QEMU docs/interop/qcow2.txt.  cluster_bits is a *case parameter* over its complete specified domain 9..21
(and extended L2 over {off, on}, on only for cluster_bits >= 14), so every shift and mask is a constant inside a case and the
encoding stays linear; table contents, offsets and requests are symbolic mathematical integers (host offsets beyond 4 GiB are the
default domain).

Standard L2 entry (qcow2.txt "L2 table entry"): bit 62 = compressed; for standard clusters bit 0 = reads as zeros (version 3),
bits 9..55 = host cluster offset, bit 63 = COPIED; offset 0 means unallocated -- except with an external data file, where bit 63
set means "allocated at offset 0"."""
from __future__ import annotations

import importlib

import z3

from .common import *

FILE = "dissect/hypervisor/disk/qcow2.py"
CFILE = "dissect/hypervisor/disk/c_qcow2.py"
OFFMASK_LO, OFFMASK_HI = 9, 56  # bits 9..55


def cq():
    return importlib.import_module("dissect.hypervisor.disk.c_qcow2")


def bits(e, lo, hi):
    """value of bits [lo, hi) of e as an integer shifted down (SPEC helper, raw div/mod by constants)"""
    return (e / (1 << lo)) % (1 << (hi - lo))


def spec_offset(e):
    """host cluster offset field: bits 9..55, in bytes"""
    return bits(e, OFFMASK_LO, OFFMASK_HI) * (1 << OFFMASK_LO)


class GeomModel(Model):
    """the `qcow2` object as seen by the module-level helper functions, for one geometry case"""

    def __init__(self, cb, ext):
        super().__init__()
        c = cq()
        self.cb, self.ext = cb, ext
        spc = 32 if ext else 1
        l2e = 16 if ext else 8
        self.cs = 1 << cb
        self.l2_bits = cb - (4 if ext else 3)
        self.scb = cb - (5 if ext else 0)
        vals = {"cluster_bits": cb, "cluster_size": 1 << cb, "subclusters_per_cluster": spc, "subcluster_size": (1 << cb) // spc, "subcluster_bits": self.scb,
                "_l2_entry_size": l2e, "l2_bits": self.l2_bits, "l2_size": 1 << self.l2_bits}
        for k, v in vals.items():
            self.fields[f"qcow2.{k}"] = IntV(z3.IntVal(v))
        self.fields["qcow2.has_subclusters"] = BoolV(z3.BoolVal(ext))
        self.has_data_file = z3.Bool("has_data_file")
        self.fields["qcow2.has_data_file"] = BoolV(self.has_data_file)
        self.globals["c_qcow2"] = ObjV("c_qcow2")
        for nm in ("QCOW_OFLAG_COMPRESSED", "QCOW_OFLAG_ZERO", "QCOW_OFLAG_COPIED", "L2E_OFFSET_MASK", "L1E_OFFSET_MASK", "L2E_COMPRESSED_OFFSET_SIZE_MASK"):
            self.fields[f"c_qcow2.{nm}"] = IntV(z3.IntVal(int(getattr(c.c_qcow2, nm))))
        self.globals["QCow2ClusterType"] = ObjV("CT")
        self.globals["QCow2SubclusterType"] = ObjV("SCT")
        self.CT = {k: int(v) for k, v in c.QCow2ClusterType.__members__.items()}
        self.SCT = {k: int(v) for k, v in c.QCow2SubclusterType.__members__.items()}
        for k, v in self.CT.items():
            self.fields[f"CT.{k}"] = IntV(z3.IntVal(v))
        for k, v in self.SCT.items():
            self.fields[f"SCT.{k}"] = IntV(z3.IntVal(v))
        for nm in ("NORMAL_SUBCLUSTER_TYPES", "ZERO_SUBCLUSTER_TYPES", "UNALLOCATED_SUBCLUSTER_TYPES"):
            self.globals[nm] = TupleV([IntV(z3.IntVal(int(x))) for x in getattr(c, nm)])
        self.global_calls["get_cluster_type"] = self.c_get_cluster_type
        self.global_calls["get_subcluster_type"] = self.c_get_subcluster_type

    # ---- SPEC: cluster type of a standard / extended L2 entry (qcow2.txt)
    def spec_cluster_type(self, e):
        CT = self.CT
        off0 = bits(e, OFFMASK_LO, OFFMASK_HI) == 0
        compressed = bits(e, 62, 63) == 1
        zero = bits(e, 0, 1) == 1
        copied = bits(e, 63, 64) == 1
        unalloc_or_datafile = z3.If(z3.And(self.has_data_file, copied), CT["QCOW2_CLUSTER_NORMAL"], CT["QCOW2_CLUSTER_UNALLOCATED"])
        plain = z3.If(off0, unalloc_or_datafile, CT["QCOW2_CLUSTER_NORMAL"])
        if self.ext:
            return z3.If(compressed, CT["QCOW2_CLUSTER_COMPRESSED"], plain)
        return z3.If(compressed, CT["QCOW2_CLUSTER_COMPRESSED"], z3.If(zero, z3.If(off0, CT["QCOW2_CLUSTER_ZERO_PLAIN"], CT["QCOW2_CLUSTER_ZERO_ALLOC"]), plain))

    def spec_subcluster_type_std(self, e):
        CT, SCT = self.CT, self.SCT
        ct = self.spec_cluster_type(e)
        return z3.If(ct == CT["QCOW2_CLUSTER_COMPRESSED"], SCT["QCOW2_SUBCLUSTER_COMPRESSED"],
                     z3.If(ct == CT["QCOW2_CLUSTER_ZERO_PLAIN"], SCT["QCOW2_SUBCLUSTER_ZERO_PLAIN"],
                           z3.If(ct == CT["QCOW2_CLUSTER_ZERO_ALLOC"], SCT["QCOW2_SUBCLUSTER_ZERO_ALLOC"],
                                 z3.If(ct == CT["QCOW2_CLUSTER_NORMAL"], SCT["QCOW2_SUBCLUSTER_NORMAL"], SCT["QCOW2_SUBCLUSTER_UNALLOCATED_PLAIN"]))))

    # ---- callee contracts
    def c_get_cluster_type(self, eng, st, args, node):
        e = eng.as_int(args[1], st, node)
        eng.pre(st, z3.And(e >= 0, e <= U64), node)
        return IntV(self.spec_cluster_type(e))

    def c_get_subcluster_type(self, eng, st, args, node):
        e = eng.as_int(args[1], st, node)
        eng.pre(st, z3.And(e >= 0, e <= U64), node)
        if self.ext:
            raise Unsupported("extended L2: get_subcluster_type contract not available in this case")
        return IntV(self.spec_subcluster_type_std(e))


def _cases():
    return [(cb, False) for cb in range(9, 22)] + [(cb, True) for cb in range(14, 22)]


def _case_name(cb, ext):
    return f"cb={cb}" + (",extl2" if ext else "")


def _index_helpers(cb, ext):
    x0 = z3.Int("x0")
    out = []

    def mk(name, spec_fn, what):
        return FnContract(FILE, name, ["C01", "C13"], lambda: GeomModel(cb, ext),
                          params=lambda m: {"qcow2": ObjV("qcow2"), ("size" if name == "size_to_clusters" else "offset"): IntV(x0)},
                          requires=lambda m: [x0 >= 0], post=lambda eng, st, rv: [(what, eng.as_int(rv, st, None) == spec_fn(eng.model))],
                          case=_case_name(cb, ext), note="wide offsets: x0 ranges over all non-negative integers")

    out.append(mk("offset_into_cluster", lambda m: x0 % m.cs, "x mod cluster_size"))
    out.append(mk("size_to_clusters", lambda m: (x0 + m.cs - 1) / m.cs, "ceil(size / cluster_size)"))
    out.append(mk("offset_to_l1_index", lambda m: x0 / (1 << (m.l2_bits + m.cb)), "x div (l2_size * cluster_size)"))
    # the same index in the nested form the read-path contracts use (contracts/qcow2_read.py: RunModel.c_l1i)
    c2 = mk("offset_to_l1_index", lambda m: (x0 / m.cs) / (1 << m.l2_bits), "(x div cluster_size) div l2_size")
    c2.case += ",nested"
    out.append(c2)
    out.append(mk("offset_to_l2_index", lambda m: (x0 / m.cs) % (1 << m.l2_bits), "(x div cluster_size) mod l2_size"))
    out.append(mk("offset_to_sc_index", lambda m: (x0 / (1 << m.scb)) % (32 if ext else 1), "(x div subcluster_size) mod subclusters_per_cluster"))
    return out


def _get_cluster_type(cb, ext):
    e0 = z3.Int("l2_entry0")
    return FnContract(FILE, "get_cluster_type", ["C01", "C07"], lambda: GeomModel(cb, ext),
                      params=lambda m: {"qcow2": ObjV("qcow2"), "l2_entry": IntV(e0)},
                      requires=lambda m: [e0 >= 0, e0 <= U64],
                      post=lambda eng, st, rv: [("cluster_type_per_qcow2_txt", eng.as_int(rv, st, None) == eng.model.spec_cluster_type(e0))],
                      case=_case_name(cb, ext), note="entry is any 64-bit value; with/without external data file symbolic")


def _get_subcluster_type_std(cb):
    e0, b0, i0 = z3.Ints("l2_entry0 l2_bitmap0 sc_index0")
    return FnContract(FILE, "get_subcluster_type", ["C01", "C07"], lambda: GeomModel(cb, False),
                      # without sub-clusters the only sub-cluster index is 0 and the bitmap is 0 (L2Table.bitmap): concrete parameters
                      params=lambda m: {"qcow2": ObjV("qcow2"), "l2_entry": IntV(e0), "l2_bitmap": IntV(z3.IntVal(0)), "sc_index": IntV(z3.IntVal(0))},
                      requires=lambda m: [e0 >= 0, e0 <= U64],
                      post=lambda eng, st, rv: [("subcluster_type", eng.as_int(rv, st, None) == eng.model.spec_subcluster_type_std(e0))],
                      raises={}, case=_case_name(cb, False))


def _get_subcluster_range_type_std(cb):
    e0, b0, i0 = z3.Ints("l2_entry0 l2_bitmap0 sc_from0")

    def post(eng, st, rv):
        m = eng.model
        t, n = rv.items
        return [("type", eng.as_int(t, st, None) == m.spec_subcluster_type_std(e0)), ("whole_cluster", eng.as_int(n, st, None) == 1)]

    return FnContract(FILE, "get_subcluster_range_type", ["C01", "C07"], lambda: GeomModel(cb, False),
                      params=lambda m: {"qcow2": ObjV("qcow2"), "l2_entry": IntV(e0), "l2_bitmap": IntV(z3.IntVal(0)), "sc_from": IntV(z3.IntVal(0))},
                      requires=lambda m: [e0 >= 0, e0 <= U64], post=post, case=_case_name(cb, False))


replay = make_replay("qcow2", n_specs=120)
bounded = make_bounded("qcow2", "qcow2.small_scope", quick_specs=80, thorough_specs=600)


def trusted(pid):
    return ["A3 zlib.decompressobj(-12).decompress(buf, cluster_size) == first cluster_size bytes of inflate(buf); zstd not installed (assumed, listed)",
            "A3 cstruct array reads for L1/L2 tables; lru_cache/cached_property transparency", "A6 well-formed image (tables inside the file, L1 covers the virtual size)"]


def contracts(repo):
    out = []
    for cb, ext in _cases():
        out += _index_helpers(cb, ext)
        out.append(_get_cluster_type(cb, ext))
        if not ext:
            out.append(_get_subcluster_type_std(cb))
            out.append(_get_subcluster_range_type_std(cb))
    return out
