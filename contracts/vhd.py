"""Contracts for dissect/hypervisor/disk/vhd.py (C04; also C08, C11, C13, C14).

Specification source: Microsoft "Virtual Hard Disk Image Format Specification" 1.0 --
  * dynamic disk: BAT entry (uint32, big endian) = sector offset of the block, 0xFFFFFFFF = unallocated; each block
    starts with a sector bitmap of ceil(sectors_per_block / 8) bytes padded to a 512-byte sector boundary;
  * fixed disk: data at the same offset;  footer in the last 512 bytes (511 for pre-2004 images).
Guest(x) below is written from that text, not from the code."""
from __future__ import annotations

import z3

from pyvc import cstruct_ext
from .common import *

FILE = "dissect/hypervisor/disk/vhd.py"


# ------------------------------------------------------------------------------------------------ dynamic disk
class DynModel(Model):
    def __init__(self, wf=True):
        super().__init__()
        self.hyps = []
        self.fsize, self.farr = self.file_field("self.fh", "fh")
        self.spb = self.int_field("self._sectors_per_block")
        self.bm = self.int_field("self._sector_bitmap_size")
        self.size = self.int_field("self.size")
        self.obj_field("self.bat")
        self.obj_field("self.header")
        self.obj_field("self.footer")
        self.max_entries = self.int_field("self.bat.max_entries", 0, U32, self.hyps)
        self.block_size = self.int_field("self.header.block_size", 0, U32, self.hyps)
        self.int_field("self.header.max_table_entries", 0, U32, self.hyps)
        self.int_field("self.header.table_offset", 0, U64, self.hyps)
        self.int_field("self.footer.current_size", 0, U64, self.hyps)
        self.int_field("self.footer.data_offset", 0, U64, self.hyps)
        self.globals["SECTOR_SIZE"] = IntV(z3.IntVal(512))
        self.BAT = z3.Function("BAT", I, I)  # raw big-endian uint32 entry
        self.BM = z3.Int("BM_spec")  # bitmap sectors per the specification
        self.G = z3.Function("Guest", I, I)
        register_opaque("Guest", self.guest_def)
        self.items["self.bat"] = self.bat_getitem
        self.wf = wf
        self.hyps.append(z3.ForAll([T], z3.And(self.BAT(T) >= 0, self.BAT(T) <= U32)))
        self.hyps.append(byte_range_axiom(self.farr))
        if not wf:
            # holds for every file: fields are machine integers, and __init__ computes both from a uint32
            self.hyps += [self.spb >= 0, self.spb <= U32, self.bm >= 0, self.bm <= U32]
        if wf:
            # class invariant established by DynamicDisk.__init__ (proved there) + well-formedness of the image (A6)
            self.hyps += [self.spb > 0, self.bm == self.BM, self.BM >= 0, self.max_entries >= 0,
                          z3.ForAll([T], z3.Implies(z3.And(0 <= T, T < self.max_entries, self.BAT(T) != U32),
                                                    z3.And(self.BAT(T) != 0, (self.BAT(T) + self.BM + self.spb) * 512 <= self.fsize)))]

    def guest_def(self, x):  # SPEC
        s, b, f1 = ediv(x, z3.IntVal(512))
        blk, off, f2 = ediv(s, self.spb)
        e = self.BAT(blk)
        return z3.If(e == U32, 0, z3.Select(self.farr, (e + self.BM + off) * 512 + b)), [f1, f2]

    def bat_getitem(self, eng, st, idx, node):
        # contract of BlockAllocationTable.__getitem__ / get (proved below): ValueError unless 0 <= block < max_entries;
        # None iff the raw entry is 0xFFFFFFFF
        i = eng.as_int(idx, st, node)
        eng.pre(st, i >= 0, node)
        eng.may_raise("ValueError", st, i + 1 <= self.max_entries, node)
        e = self.BAT(i)
        st.ghost["io"] = st.ghost.get("io", z3.IntVal(0)) + 4
        return OptV(e == U32, IntV(e))


def _dyn_read_sectors(mode):
    sector0, count0 = z3.Ints("sector0 count0")

    def mk():
        return DynModel(wf=(mode == "functional"))

    def inv(eng, st):
        m = eng.model
        sector, count, res = st.env["sector"].e, st.env["count"].e, st.env["result"].joined
        done = (sector - sector0) * 512
        parts = [sector >= sector0, count == count0 - (sector - sector0), count >= 0]
        if mode == "functional":
            parts += [res.n == done, bytes_eq_guest(res, m.G, sector0 * 512),
                      st.ghost["io"] <= 516 * (sector - sector0)]  # C13: 512 data bytes + one 4-byte BAT entry per sector at most
        return z3.And(*parts)

    def post(eng, st, rv):
        m = eng.model
        r = ret_bytes(rv)
        if mode != "functional":
            return []
        return [("len", r.n == count0 * 512), ("content", bytes_eq_guest(r, m.G, sector0 * 512)),
                ("cost", st.ghost["io"] <= 516 * count0)]

    def requires(m):
        base = m.hyps + [sector0 >= 0, count0 >= 0]
        if mode == "functional":
            base.append(sector0 + count0 <= m.max_entries * m.spb)
        return base

    return FnContract(
        FILE, "DynamicDisk.read_sectors", ["C04", "C08", "C13"] if mode == "functional" else ["C11"], mk,
        params=lambda m: {"self": ObjV("self"), "sector": IntV(sector0), "count": IntV(count0)},
        requires=requires, post=post,
        loops={("While", 0): LoopSpec(inv, lambda eng, st: st.env["count"].e)},
        shifts=r"^(result_len)!", mode=mode, allow_any_exception=(mode != "functional"),
        note="block size, bitmap size, BAT contents, placement and request all symbolic")


class BatModel(Model):
    def __init__(self):
        super().__init__()
        self.hyps = []
        self.fsize, self.farr = self.file_field("self.fh", "fh")
        self.offset = self.int_field("self.offset", 0, U64, self.hyps)
        self.max_entries = self.int_field("self.max_entries", 0, U32, self.hyps)
        self.obj_field("self.ENTRY")
        self.methods[("self.ENTRY", "unpack")] = self.unpack
        self.methods[("self", "get")] = self.get
        self.hyps.append(byte_range_axiom(self.farr))

    def raw(self, block):  # SPEC: big-endian uint32 at table_offset + 4*block
        return be(lambda i: z3.Select(self.farr, i), self.offset + 4 * block, 4)

    def unpack(self, eng, st, args, node):
        # assumed contract of struct.Struct(">I").unpack: struct.error unless len == 4; big-endian value
        (b,) = args
        eng.may_raise("error", st, b.n == 4, node)
        return TupleV([IntV(be(b.at, z3.IntVal(0), 4))])

    def get(self, eng, st, args, node):
        (blk,) = args
        i = eng.as_int(blk, st, node)
        eng.pre(st, i >= 0, node)
        eng.may_raise("ValueError", st, i + 1 <= self.max_entries, node)
        e = self.raw(i)
        return OptV(e == U32, IntV(e))


def _bat_get():
    block0 = z3.Int("block0")

    def post(eng, st, rv):
        m = eng.model
        isn, val = eng.opt_parts(rv)
        goals = [("none_iff_unallocated", isn == (m.raw(block0) == U32))]
        if val is not None:
            goals.append(("value", z3.Implies(z3.Not(isn), val.e == m.raw(block0))))
        goals.append(("cost", st.ghost["io"] <= 4))
        return goals

    return FnContract(
        FILE, "BlockAllocationTable.get", ["C04", "C13"], BatModel,
        params=lambda m: {"self": ObjV("self"), "block": IntV(block0)},
        requires=lambda m: m.hyps + [block0 >= 0, m.offset + 4 * m.max_entries <= m.fsize],  # wf: table inside the file
        post=post, raises={"ValueError": lambda eng, st: block0 + 1 > eng.model.max_entries})


def _bat_getitem():
    block0 = z3.Int("block0")

    def post(eng, st, rv):
        m = eng.model
        isn, val = eng.opt_parts(rv)
        return [("none_iff_unallocated", isn == (m.raw(block0) == U32)),
                ("value", z3.Implies(z3.Not(isn), val.e == m.raw(block0)) if val is not None else z3.BoolVal(True))]

    return FnContract(
        FILE, "BlockAllocationTable.__getitem__", ["C04"], BatModel,
        params=lambda m: {"self": ObjV("self"), "block": IntV(block0)},
        requires=lambda m: m.hyps + [block0 >= 0], post=post,
        raises={"ValueError": lambda eng, st: block0 + 1 > eng.model.max_entries})


# ------------------------------------------------------------------------------------------------ fixed disk
class FixedModel(Model):
    def __init__(self):
        super().__init__()
        self.hyps = []
        self.fsize, self.farr = self.file_field("self.fh", "fh")
        self.size = self.int_field("self.size", 0, U64, self.hyps)
        self.globals["SECTOR_SIZE"] = IntV(z3.IntVal(512))
        self.hyps += [self.fsize >= 0, byte_range_axiom(self.farr)]


def _fixed_read_sectors():
    sector0, count0 = z3.Ints("sector0 count0")

    def post(eng, st, rv):
        m = eng.model
        r = ret_bytes(rv)
        # SPEC: a fixed disk is the file content followed by the footer: Guest(x) == file[x]
        return [("len", z3.Implies((sector0 + count0) * 512 <= m.fsize, r.n == count0 * 512)),
                ("len_tail", r.n >= zmin(count0 * 512, m.fsize - sector0 * 512)),
                ("content", forall_k(r.n, lambda k: r.at(k) == z3.Select(m.farr, sector0 * 512 + k))),
                ("cost", st.ghost["io"] <= 512 * count0)]

    return FnContract(
        FILE, "FixedDisk.read_sectors", ["C04", "C08", "C13"], FixedModel,
        params=lambda m: {"self": ObjV("self"), "sector": IntV(sector0), "count": IntV(count0)},
        requires=lambda m: m.hyps + [sector0 >= 0, count0 >= 0, sector0 * 512 <= m.fsize], post=post)


# ------------------------------------------------------------------------------------------------ VHD._read
class VhdModel(Model):
    """VHD stream over an abstract Disk: `read_sectors` is used through the class contract that both FixedDisk and
    DynamicDisk satisfy (proved above): for sector + count <= cover, exactly count*512 bytes equal to Guest."""

    def __init__(self):
        super().__init__()
        self.hyps = []
        self.size = self.int_field("self.size")
        self.obj_field("self.disk")
        self.cover = z3.Int("disk.cover_sectors")
        self.G = z3.Function("DiskGuest", I, I)
        self.globals["SECTOR_SIZE"] = IntV(z3.IntVal(512))
        self.methods[("self.disk", "read_sectors")] = self.read_sectors
        self.hyps += [self.size >= 0, self.cover >= 0, self.size <= self.cover * 512]

    def read_sectors(self, eng, st, args, node):
        s, c = (eng.as_int(a, st, node) for a in args)
        eng.pre(st, z3.And(s >= 0, c >= 0, s + c <= self.cover), node)
        r = fresh("rs_len")
        arr = fresh("rs_arr", z3.ArraySort(I, I))
        st.hyps.append(z3.And(r == c * 512, z3.ForAll([K], z3.Implies(z3.And(0 <= K, K < r), z3.Select(arr, K) == self.G(s * 512 + K)))))
        st.ghost["io"] = st.ghost.get("io", z3.IntVal(0)) + 516 * c
        return BytesV(r, lambda i, arr=arr: z3.Select(arr, i))


def _vhd_read():
    offset0, length0 = z3.Ints("offset0 length0")

    def post(eng, st, rv):
        m = eng.model
        return lstream_post(rv, m.G, offset0, length0, m.size) + [("cost", st.ghost["io"] <= 516 * ((length0 + 511) / 512))]

    # L-stream precondition (DESIGN.md 7): any sector-aligned request that starts inside the virtual disk, *including*
    # requests that run past its end (AlignedStream fills its buffer with _read(pos_align, align))
    A, N = z3.Ints("A N")
    return FnContract(
        FILE, "VHD._read", ["C04", "C08", "C13"], VhdModel,
        params=lambda m: {"self": ObjV("self"), "offset": IntV(offset0), "length": IntV(length0)},
        requires=lambda m: m.hyps + [A >= 0, N >= 1, offset0 == 512 * A, length0 == 512 * N, offset0 < m.size],
        post=post)


# ------------------------------------------------------------------------------------------------ constructors
class InitModel(Model):
    """DynamicDisk.__init__: the class invariant used by read_sectors is established here."""

    def __init__(self):
        super().__init__()
        from dissect.hypervisor.disk.c_vhd import c_vhd

        self.c_vhd = c_vhd
        self.hyps = []
        self.fsize, self.farr = self.file_field("fh", "fh")
        self.hyps += [self.fsize >= 0, byte_range_axiom(self.farr)]
        self.globals["SECTOR_SIZE"] = IntV(z3.IntVal(512))
        self.globals["c_vhd"] = ObjV("c_vhd")
        self.globals["BlockAllocationTable"] = FuncRef_("BlockAllocationTable")
        self.methods[("c_vhd", "dynamic_header")] = lambda eng, st, args, node: cstruct_ext.parse_struct(eng, st, self, c_vhd.dynamic_header, ">", args[0], node)
        self.methods[("c_vhd", "footer")] = lambda eng, st, args, node: cstruct_ext.parse_struct(eng, st, self, c_vhd.footer, ">", args[0], node)
        self.truthy["footer"] = z3.BoolVal(True)
        self.obj_field("self.footer")
        cstruct_ext.struct_fields_symbolic(self, "footer", c_vhd.footer, self.hyps)
        self.global_calls["BlockAllocationTable"] = self.mk_bat
        self.global_calls["super"] = lambda eng, st, args, node: ObjV("super")
        self.methods[("super", "__init__")] = self.disk_init

    def disk_init(self, eng, st, args, node):
        # contract of Disk.__init__ (3 assignments, proved as its own function below): fh, footer (given or read), size
        fh, footer = args
        st.attrs["self.fh"] = fh
        st.attrs["self.footer"] = footer
        st.attrs["self.size"] = self.fields["footer.current_size"]
        return NoneV()

    def mk_bat(self, eng, st, args, node):
        fh, off, n = args
        self.fields["bat!.offset"] = off
        self.fields["bat!.max_entries"] = n
        return ObjV("bat!")

    def attr(self, eng, st, path, name, node):
        if path == "self.footer":
            path = "footer"
        return super().attr(eng, st, path, name, node)


def FuncRef_(name):
    from pyvc.engine import FuncRef

    return FuncRef(name)


def _dyn_init():
    def post(eng, st, rv):
        m = eng.model
        hdr = st.attrs.get("self.header")
        if hdr is None:
            raise Unsupported("self.header is not assigned")
        bs = m.fields[f"{hdr.path}.block_size"].e
        spb = st.attrs["self._sectors_per_block"].e
        bm = st.attrs["self._sector_bitmap_size"].e
        # SPEC: sectors per block = block_size / 512; bitmap = ceil(spb / 8) bytes, padded to whole sectors
        spec_spb = bs / 512
        spec_bm = ((spec_spb + 7) / 8 + 511) / 512
        bat = st.attrs["self.bat"]
        return [("sectors_per_block", spb == spec_spb),
                ("bitmap_sectors", bm == spec_bm),
                ("bat_offset", m.fields[f"{bat.path}.offset"].e == m.fields[f"{hdr.path}.table_offset"].e),
                ("bat_entries", m.fields[f"{bat.path}.max_entries"].e == m.fields[f"{hdr.path}.max_table_entries"].e),
                ("header_at_data_offset", m.struct_pos[hdr.path] == m.fields["footer.data_offset"].e),
                ("size", st.attrs["self.size"].e == m.fields["footer.current_size"].e),
                ("cost", st.ghost["io"] <= 1024)]

    return FnContract(
        FILE, "DynamicDisk.__init__", ["C04", "C13", "C14"], InitModel,
        params=lambda m: {"self": ObjV("self"), "fh": FileV("fh"), "footer": ObjV("footer")},
        requires=lambda m: m.hyps, post=post, raises={"EOFError": None},
        note="footer given by the caller (VHD.__init__ passes the one it read)")


# ------------------------------------------------------------------------------------------------ footer location and disk-type dispatch
class FooterModel(InitModel):
    def __init__(self):
        super().__init__()
        self.globals["io"] = ObjV("io")
        self.fields["io.SEEK_END"] = IntV(z3.IntVal(2))
        self.fields["io.SEEK_SET"] = IntV(z3.IntVal(0))
        self.fields["io.SEEK_CUR"] = IntV(z3.IntVal(1))


def _read_footer():
    """VHD specification 1.0, "Hard Disk Footer Format": the footer is the last 512 bytes of the file; images written before Microsoft
    Virtual PC 2004 have a 511-byte footer.  The two are told apart by the reserved feature bit 0x2, which is always set in a footer."""
    def post(eng, st, rv):
        m = eng.model
        if not isinstance(rv, ObjV) or rv.path not in getattr(m, "struct_pos", {}):
            return [("returns_a_parsed_footer", z3.BoolVal(False))]
        # SPEC: features is the big-endian uint32 at bytes 8..11 of the footer; bit 1 (0x2) is the reserved bit that is always 1
        feat512 = be(lambda i: z3.Select(m.farr, i), m.fsize - 512 + 8, 4)
        q, r, fact = ediv(feat512, z3.IntVal(2))
        q2, r2, fact2 = ediv(q, z3.IntVal(2))
        st.hyps += [fact, fact2]
        return [("footer_is_the_last_512_bytes_when_its_reserved_bit_is_set_else_the_last_511", m.struct_pos[rv.path] == z3.If(r2 == 1, m.fsize - 512, m.fsize - 511)),
                ("cost", st.ghost["io"] <= 2 * 512)]

    return FnContract(FILE, "read_footer", ["C04", "C12", "C13", "C14"], FooterModel, params=lambda m: {"fh": FileV("fh")},
                      requires=lambda m: m.hyps + [m.fsize >= 512], post=post,
                      note="file contents and size symbolic; the structure size is the one computed by cstruct from c_vhd.py")


class VhdInitModel(InitModel):
    def __init__(self):
        super().__init__()
        self.global_calls["read_footer"] = lambda eng, st, args, node: (eng.pre(st, z3.BoolVal(isinstance(args[0], FileV) and args[0].name == "fh"), node, tag="footer_read_from_the_image"), ObjV("footer"))[1]
        self.globals["FixedDisk"] = FuncRef_("FixedDisk")
        self.globals["DynamicDisk"] = FuncRef_("DynamicDisk")
        self.global_calls["FixedDisk"] = lambda eng, st, args, node: self.mk_disk(eng, st, "fixed", args, node)
        self.global_calls["DynamicDisk"] = lambda eng, st, args, node: self.mk_disk(eng, st, "dynamic", args, node)
        self.methods[("super", "__init__")] = lambda eng, st, args, node, **kw: (st.ghost.__setitem__("stream_size", args[0] if args else None), NoneV())[1]

    def mk_disk(self, eng, st, kind, args, node):
        ok = len(args) == 2 and isinstance(args[0], FileV) and args[0].name == "fh" and isinstance(args[1], ObjV) and args[1].path == "footer"
        eng.pre(st, z3.BoolVal(ok), node, tag="disk_built_from_the_image_and_the_footer_that_was_read")
        path = f"{kind}_disk!"
        self.fields[f"{path}.size"] = self.fields["footer.current_size"]  # contract of Disk.__init__ / DynamicDisk.__init__ (post[size])
        self.truthy[path] = z3.BoolVal(True)
        return ObjV(path)


def _vhd_init():
    def post(eng, st, rv):
        m = eng.model
        disk = st.attrs.get("self.disk")
        size = st.ghost.get("stream_size")
        fixed = m.fields["footer.data_offset"].e == U64  # SPEC: "Data Offset ... for fixed disks, this field should be set to 0xFFFFFFFFFFFFFFFF"
        is_fixed = z3.BoolVal(isinstance(disk, ObjV) and disk.path == "fixed_disk!")
        is_dyn = z3.BoolVal(isinstance(disk, ObjV) and disk.path == "dynamic_disk!")
        return [("fixed_disk_iff_data_offset_is_all_ones_else_dynamic", z3.And(z3.Implies(fixed, is_fixed), z3.Implies(z3.Not(fixed), is_dyn))),
                ("stream_size_is_the_footer_current_size", eng.as_int(size, st, None) == m.fields["footer.current_size"].e if isinstance(size, IntV) else z3.BoolVal(False)),
                ("image_handle_kept", z3.BoolVal(isinstance(st.attrs.get("self.fh"), FileV) and st.attrs["self.fh"].name == "fh"))]

    return FnContract(FILE, "VHD.__init__", ["C04", "C14"], VhdInitModel, params=lambda m: {"self": ObjV("self"), "fh": FileV("fh")},
                      requires=lambda m: m.hyps, post=post, note="footer fields symbolic; read_footer / FixedDisk / DynamicDisk by their contracts")


replay = make_replay("vhd")
bounded = make_bounded("vhd", "vhd.small_scope")


def trusted(pid):
    return ["A3 file objects: seek/read/tell semantics with short reads at EOF", "A3 struct.Struct('>I').unpack: big-endian uint32 of exactly 4 bytes",
            "A3 dissect.cstruct parse = computed layout (one-hot probed every run)", "A3 functools.lru_cache transparent for BlockAllocationTable.get (result depends only on the block index and the immutable file)",
            "A6 well-formedness of the image (tables and allocated blocks inside the file, no block at sector 0) is a precondition of the functional contracts"]


def contracts(repo):
    return [_dyn_read_sectors("functional"), _bat_get(), _bat_getitem(), _fixed_read_sectors(), _vhd_read(), _dyn_init(),
            _dyn_read_sectors("termination"), _read_footer(), _vhd_init()]
