"""Contracts for dissect/hypervisor/disk/hdd.py (C06; also C07, C08, C10, C11, C13).

Specification source: QEMU docs/interop/parallels.txt + ploop1_image.h -- BAT of little-endian uint32 entries after the
64-byte header; entry 0 = cluster not allocated (read from the parent image if there is one, else zeros); otherwise the
cluster's data starts at file offset entry * 512 for "WithoutFreeSpace" (v1) images and entry * cluster_sectors * 512 for
"WithouFreSpacExt" (v2); cluster size = m_Sectors * 512 bytes."""
from __future__ import annotations

import z3

from .common import *

FILE = "dissect/hypervisor/disk/hdd.py"


class HdsModel(Model):
    def __init__(self, wf=True):
        super().__init__()
        self.hyps = []
        self.fsize, self.farr = self.file_field("self.fh", "fh")
        self.psize, self.parr = self.file_field("self.parent", "parent")  # the parent is a stream: seek/read
        self.has_parent = z3.Bool("has_parent")
        self.truthy["parent"] = self.has_parent
        self.cs = self.int_field("self.cluster_size")
        self.mult = self.int_field("self._bat_multiplier")
        self.step = self.int_field("self._bat_step")
        self.spc = self.int_field("self.header.m_Sectors", 0, U32, self.hyps)
        self.is_v1 = z3.Bool("is_v1")
        self.obj_field("self.header")
        # class invariant established by HDS.__init__: v1 entries are in sectors, v2 entries in clusters
        self.hyps += [self.cs == self.spc * 512, self.mult == z3.If(self.is_v1, 1, self.spc), self.step == z3.If(self.is_v1, self.spc, 1)]
        self.size = self.int_field("self.size")
        self.obj_field("self.bat")
        self.nbat = z3.Int("len(self.bat)")
        self.BAT = z3.Function("BAT", I, I)
        self.G = z3.Function("Guest", I, I)
        register_opaque("Guest", self.guest_def)
        self.globals["SECTOR_SIZE"] = IntV(z3.IntVal(512))
        self.items["self.bat"] = self.bat_getitem
        self.methods[("self", "_iter_runs")] = self.iter_runs
        self.hyps += [z3.ForAll([T], z3.And(self.BAT(T) >= 0, self.BAT(T) <= U32)), self.nbat >= 0, self.nbat <= U32,
                      self.cs >= 0, self.mult >= 0, self.mult <= U32, self.size >= 0, byte_range_axiom(self.farr)]
        if wf:
            self.hyps += [self.cs > 0, self.mult > 0, self.size <= self.nbat * self.cs, self.psize >= self.size,
                          z3.ForAll([T], z3.Implies(z3.And(0 <= T, T < self.nbat, self.BAT(T) != 0), self.BAT(T) * self.mult * 512 + self.cs <= self.fsize))]

    def pz(self, x):  # parent byte or zero
        return z3.If(self.has_parent, z3.Select(self.parr, x), 0)

    def guest_def(self, x):  # SPEC
        q, r, fact = ediv(x, self.cs)
        e = self.BAT(q)
        return z3.If(e == 0, self.pz(x), z3.Select(self.farr, e * self.mult * 512 + r)), [fact]

    def bat_getitem(self, eng, st, idx, node):
        i = eng.as_int(idx, st, node)
        eng.pre(st, i >= 0, node)
        eng.may_raise("IndexError", st, i < self.nbat, node)
        return IntV(self.BAT(i))

    # -- per-element contract of the run sequence produced by _iter_runs(offset0, length0) (proved on the generator)
    def run_ok(self, isnone, off, size, plen, offset0):
        g0 = offset0 + plen
        return z3.And(size > 0, z3.Implies(z3.Not(isnone), z3.And(off > 0, off + size <= self.fsize)),
                      forall_k(size, lambda k: self.G(g0 + k) == z3.If(isnone, self.pz(g0 + k), z3.Select(self.farr, off + k))))

    def iter_runs(self, eng, st, args, node):
        o, n = (eng.as_int(a, st, node) for a in args)
        eng.pre(st, z3.And(o >= 0, n >= 0), node)

        def elem():
            return TupleV([OptV(fresh("run_isnone", B), IntV(fresh("run_off"))), IntV(fresh("run_size"))])

        def ok(el, plen):
            return self.run_ok(el.items[0].is_none, el.items[0].val.e, el.items[1].e, plen, o)

        total = fresh("runs_total")
        st.hyps.append(self.total_ok(total, o, n))
        return SeqV(elem, ok, lambda el: el.items[1].e, total)

    def total_ok(self, total, o, n):
        """bytes covered by all runs: the whole request when it lies inside the disk, else at least up to the disk's end
        (the last run may extend to the end of its cluster) and never more than requested"""
        return z3.And(total >= 0, total <= n, z3.Implies(o + n <= self.size, total == n),
                      z3.Implies(z3.And(o + n > self.size, o < self.size), total >= self.size - o))


def _iter_runs(mode):
    offset0, length0 = z3.Ints("offset0 length0")

    def parts_of(eng, st):
        ro = st.env["run_offset"]
        isn, val = eng.opt_parts(ro)
        rov = val.e if val is not None else z3.IntVal(0)
        return z3.Not(isn), rov

    def inv(eng, st):
        m = eng.model
        offset, length, rs = st.env["offset"].e, st.env["length"].e, st.env["run_size"].e
        has_run, rov = parts_of(eng, st)
        plen = st.ghost["plen"]
        g0 = offset0 + plen
        parts = [offset >= offset0, offset + length == offset0 + length0]
        if mode == "functional":
            parts += [plen >= 0, length >= 0, z3.Implies(has_run, rov >= 0),
                      z3.Implies(z3.Not(has_run), z3.And(offset == offset0, plen == 0)),
                      z3.Implies(has_run, z3.And(rs > 0, plen + rs == offset - offset0)),
                      # "the pending run, if flushed now, is right": the statement the run_offset == 0 sentinel can break
                      z3.Implies(has_run, z3.And(z3.Implies(rov != 0, rov + rs <= m.fsize),
                                                 forall_k(rs, lambda k: m.G(g0 + k) == z3.If(rov == 0, m.pz(g0 + k), z3.Select(m.farr, rov + k)))))]
        return z3.And(*parts)

    def on_yield(eng, st, v, node):
        m = eng.model
        off, size = v.items
        isn, val = eng.opt_parts(off)
        plen = st.ghost["plen"]
        if mode == "functional":
            eng.ob("yield.run_ok", st, m.run_ok(isn, val.e if val is not None else z3.IntVal(0), size.e, plen, offset0), node)
        st.ghost["plen"] = plen + size.e

    def post(eng, st, rv):
        m = eng.model
        if mode != "functional":
            return []
        return [("covers_request", m.total_ok(st.ghost["plen"], offset0, length0))]

    return FnContract(
        FILE, "HDS._iter_runs", ["C06", "C07", "C08"] if mode == "functional" else ["C11"], lambda: HdsModel(wf=(mode == "functional")),
        params=lambda m: {"self": ObjV("self"), "offset": IntV(offset0), "length": IntV(length0)},
        requires=lambda m: m.hyps + [offset0 >= 0, length0 >= 0],
        post=post, on_yield=on_yield, ghost=lambda m: {"plen": z3.IntVal(0)},
        loops={("While", 0): LoopSpec(inv, lambda eng, st: st.env["length"].e, ghost_havoc={"plen": "int"})},
        shifts=r"^(plen|run_size)!", mode=mode, allow_any_exception=(mode != "functional"),
        note="generator: per-yield obligation run_ok relative to the ghost position plen; cluster size, BAT unit (v1/v2), BAT contents, parent presence symbolic")


def _hds_read():
    offset0, length0 = z3.Ints("offset0 length0")

    def inv(eng, st):
        m = eng.model
        offset, acc = st.env["offset"].e, st.env["result"].joined
        plen = st.ghost["plen0"]
        # only the last run can extend past the end of the disk (to the end of its cluster); a parent stream clamps there
        return z3.And(offset == offset0 + plen, z3.Implies(offset <= m.size, acc.n == plen),
                      z3.Implies(offset > m.size, z3.And(acc.n >= m.size - offset0, acc.n <= plen)),
                      forall_k(zmin(acc.n, m.size - offset0), lambda k: acc.at(k) == m.G(offset0 + k)),
                      st.ghost["io"] <= plen)

    def post(eng, st, rv):
        m = eng.model
        return lstream_post(rv, m.G, offset0, length0, m.size) + [("cost", st.ghost["io"] <= length0)]

    return FnContract(
        FILE, "HDS._read", ["C06", "C07", "C08", "C13"], HdsModel,
        params=lambda m: {"self": ObjV("self"), "offset": IntV(offset0), "length": IntV(length0)},
        requires=lambda m: m.hyps + [offset0 >= 0, length0 > 0, offset0 < m.size],
        post=post, loops={("For", 0): LoopSpec(inv)}, shifts=r"^(result_len|run_size|plen0)!",
        note="consumer of the run sequence: each element satisfies run_ok (callee contract); parent stream modelled as a file holding the parent's guest bytes")


# ------------------------------------------------------------------------------------------------ StorageStream (C10)
class StorageModel(Model):
    """StorageStream over n storages (struct-of-arrays).  Class invariant (StorageStream.__init__ sorts by start):
    contiguous ascending sector ranges [START(i), END(i)), _lookup[i] == START(i), size == 512 * END(n-1)."""

    def __init__(self):
        super().__init__()
        self.hyps = []
        self.n = z3.Int("len(self.streams)")
        self.START = z3.Function("storage_start", I, I)
        self.END = z3.Function("storage_end", I, I)
        self.SSZ = z3.Function("stream_size", I, I)
        self.SG = z3.Function("StorageGuest", I, I, I)
        self.G = z3.Function("Guest", I, I)
        self.size = self.int_field("self.size")
        self.obj_field("self.streams")
        self.obj_field("self._lookup")
        self.items["self.streams"] = self.stream_item
        self.lens["self.streams"] = IntV(self.n)
        self.global_calls["bisect_right"] = self.bisect_right
        self.globals["SECTOR_SIZE"] = IntV(z3.IntVal(512))
        self._k = 0
        self.hyps += [self.n >= 1, self.START(0) == 0, self.size == self.END(self.n - 1) * 512,
                      z3.ForAll([T], z3.Implies(z3.And(0 <= T, T < self.n), z3.And(self.START(T) < self.END(T), self.SSZ(T) >= (self.END(T) - self.START(T)) * 512,
                                                                                    z3.Implies(T + 1 < self.n, self.END(T) == self.START(T + 1)))))]

    def guest_of_storage(self, i):
        """SPEC (prl-xml.txt: storages cover consecutive sector ranges), instantiated at storage i"""
        return z3.ForAll([K], z3.Implies(z3.And(self.START(i) * 512 <= K, K < self.END(i) * 512), self.G(K) == self.SG(i, K - self.START(i) * 512)))

    def bisect_right(self, eng, st, args, node):
        x = eng.as_int(args[1], st, node)
        r = fresh("bisect")
        st.hyps.append(z3.And(0 <= r, r <= self.n, z3.Implies(r > 0, self.START(r - 1) <= x), z3.Implies(r < self.n, x < self.START(r))))
        return IntV(r)

    def stream_item(self, eng, st, idx, node):
        i = eng.as_int(idx, st, node)
        eng.pre(st, i >= 0, node)  # a negative index would silently address the last storage
        eng.may_raise("IndexError", st, i < self.n, node)
        self._k += 1
        p = f"storage!{self._k}"
        self.fields[p + ".start"] = IntV(self.START(i))
        self.fields[p + ".end"] = IntV(self.END(i))
        name = f"stream!{self._k}"
        self.files[name] = (self.SSZ(i), lambda x, i=i: self.SG(i, x))
        st.hyps.append(self.guest_of_storage(i))
        return TupleV([ObjV(p), FileV(name)])


def _storage_read_termination():
    """C11: no well-formedness of the storages (holes, overlaps, empty or reversed ranges): the loop still terminates"""
    offset0, length0 = z3.Ints("offset0 length0")

    def mk():
        m = StorageModel()
        m.hyps = [m.n >= 0]
        return m

    def inv(eng, st):
        m = eng.model
        si = st.env["stream_idx"].e
        return z3.And(si >= -1, si <= m.n)

    return FnContract(FILE, "StorageStream._read", ["C11"], mk,
                      params=lambda m: {"self": ObjV("self"), "offset": IntV(offset0), "length": IntV(length0)},
                      requires=lambda m: m.hyps + [offset0 >= 0, length0 >= 0], post=lambda eng, st, rv: [],
                      loops={("While", 0): LoopSpec(inv, lambda eng, st: eng.model.n - st.env["stream_idx"].e)},
                      mode="termination", allow_any_exception=True,
                      note="variant: number of storages not yet visited (the step in sectors is descriptor-derived and may be zero or negative)")


def _storage_read():
    offset0, length0 = z3.Ints("offset0 length0")
    A, N = z3.Ints("A N")

    def inv(eng, st):
        m = eng.model
        sector, count, acc, si = st.env["sector"].e, st.env["count"].e, st.env["result"].joined, st.env["stream_idx"].e
        st.anchor(offset0, cls="byte")
        return z3.And(sector >= A, sector + count == A + N, count >= 0, acc.n == (sector - A) * 512,
                      forall_k(acc.n, lambda k: acc.at(k) == m.G(offset0 + k)), 0 <= si, si <= m.n,
                      z3.Implies(z3.And(si < m.n, count > 0), z3.And(m.START(si) <= sector, sector < m.END(si))), z3.Implies(z3.And(si == m.n, count > 0), sector * 512 >= m.size),
                      st.ghost["io"] <= 512 * (sector - A))

    def post(eng, st, rv):
        m = eng.model
        return lstream_post(rv, m.G, offset0, length0, m.size) + [("cost", st.ghost["io"] <= length0)]

    return FnContract(FILE, "StorageStream._read", ["C06", "C08", "C10", "C13"], StorageModel,
                      params=lambda m: {"self": ObjV("self"), "offset": IntV(offset0), "length": IntV(length0)},
                      requires=lambda m: m.hyps + [A >= 0, N >= 1, offset0 == 512 * A, length0 == 512 * N, offset0 < m.size],
                      post=post, loops={("While", 0): LoopSpec(inv, lambda eng, st: st.env["count"].e)}, shifts=r"^(result_len)!", units=(512,),
                      note="number of storages, their ranges and the request symbolic; includes requests that straddle storages and run past the last one")


class StorageInitModel(Model):
    """StorageStream.__init__(streams): `streams` is a list of (Storage, stream) in arbitrary order (struct-of-arrays over the
    input order: IN_START/IN_END); `sorted(..., key=start)` is an assumed extern returning the start-ascending permutation."""

    def __init__(self):
        super().__init__()
        import ast as _ast

        self._ast = _ast
        self.n = z3.Int("len(streams)")
        self.IN_START, self.IN_END = z3.Function("in_start", I, I), z3.Function("in_end", I, I)
        self.S_START, self.S_END = z3.Function("sorted_start", I, I), z3.Function("sorted_end", I, I)
        self.global_calls["sorted"] = self.sorted_
        self.global_calls["super"] = lambda eng, st, args, node: ObjV("super")
        self.methods[("super", "__init__")] = self.super_init
        self.globals["SECTOR_SIZE"] = IntV(z3.IntVal(512))
        self.iters["streams"] = lambda eng, st, node: ("indexed", self.n, lambda st_, i: self.elem("in", i))
        self.iters["sorted!"] = lambda eng, st, node: ("indexed", self.n, lambda st_, i: self.elem("sorted", i))
        self._k = 0
        self.size_arg = None
        # assumed contract of sorted(key=start): ascending starts (and it is a permutation of the input: same multiset of ranges)
        self.hyps = [self.n >= 1, z3.ForAll([T], z3.Implies(z3.And(0 <= T, T + 1 < self.n), self.S_START(T) <= self.S_START(T + 1)))]

    def elem(self, which, i):
        self._k += 1
        p = f"storage!{self._k}"
        self.fields[p + ".start"] = IntV((self.IN_START if which == "in" else self.S_START)(i))
        self.fields[p + ".end"] = IntV((self.IN_END if which == "in" else self.S_END)(i))
        return TupleV([ObjV(p), ObjV(f"stream!{self._k}")])

    def sorted_(self, eng, st, args, node, key=None):
        if not (isinstance(args[0], ObjV) and args[0].path == "streams"):
            raise Unsupported("sorted() of something other than the `streams` argument")
        if not isinstance(key, LambdaV) or self._ast.unparse(key.node.body) != f"{key.node.args.args[0].arg}[0].start":
            raise Unsupported("sorted() key is not the storage start")
        return ObjV("sorted!")

    def super_init(self, eng, st, args, node):
        self.size_arg = eng.as_int(args[0], st, node)
        st.ghost["size_arg"] = self.size_arg
        return NoneV()

    def on_attr_store(self, eng, st, path, name, v, node):
        if name == "_lookup":
            return "skip"  # modelled as the ghost array LOOKUP (appends go through the contract of list.append below)


def _storage_init():
    def inv(eng, st):
        m = eng.model
        i = st.env["$i0"].e
        size = st.env["size"].e
        lk, ln = st.ghost["LOOKUP"], st.ghost["LOOKUPN"]
        return z3.And(0 <= i, i <= m.n, ln == i, z3.ForAll([T], z3.Implies(z3.And(0 <= T, T < i), z3.Select(lk, T) == m.S_START(T))),
                      z3.Implies(i > 0, size == m.S_END(i - 1)))

    def post(eng, st, rv):
        m = eng.model
        streams = st.attrs.get("self.streams")
        lk = st.ghost["LOOKUP"]
        # SPEC (prl-xml.txt: storages are consecutive ranges; the reader stitches them in ascending start order):
        return [("streams_sorted_by_start", z3.BoolVal(isinstance(streams, ObjV) and streams.path == "sorted!")),
                ("lookup_is_sorted_starts", z3.And(st.ghost["LOOKUPN"] == m.n, z3.ForAll([T], z3.Implies(z3.And(0 <= T, T < m.n), z3.Select(lk, T) == m.S_START(T))))),
                ("size_is_end_of_last_storage", st.ghost["size_arg"] == m.S_END(m.n - 1) * 512)]

    def mk():
        m = StorageInitModel()
        m.fields["self._lookup"] = ObjV("self._lookup")

        def append(eng, st, args, node):
            st.ghost["LOOKUP"] = z3.Store(st.ghost["LOOKUP"], st.ghost["LOOKUPN"], eng.as_int(args[0], st, node))
            st.ghost["LOOKUPN"] = st.ghost["LOOKUPN"] + 1
            return NoneV()

        m.methods[("self._lookup", "append")] = append
        return m

    return FnContract(FILE, "StorageStream.__init__", ["C10", "C14"], mk,
                      params=lambda m: {"self": ObjV("self"), "streams": ObjV("streams")},
                      requires=lambda m: m.hyps, post=post, ghost=lambda m: {"LOOKUP": z3.K(I, z3.IntVal(0)), "LOOKUPN": z3.IntVal(0)},
                      loops={("For", 0): LoopSpec(inv, ghost_havoc={"LOOKUP": "array", "LOOKUPN": "int"})},
                      note="establishes the class invariant used by StorageStream._read: streams sorted by start, _lookup[i] == start of the i-th, size == 512 * end of the last")


_replay_hds = make_replay("hds")
_replay_hdd = make_replay("hdd", n_specs=80)
_bounded_hds = make_bounded("hds", "hds.small_scope")
_bounded_hdd = make_bounded("hdd", "hdd.directories", quick_specs=40, thorough_specs=300)


def replay(rep, ob_name, qs):
    # StorageStream obligations are replayed on .hdd directories with several storages, everything else on single HDS images
    return (_replay_hdd if "StorageStream" in ob_name else _replay_hds)(rep, ob_name, qs)


def bounded(rep, pid, known):
    _bounded_hds(rep, pid, known)
    if pid in ("C06", "C10", "C08", "C07"):  # C07: the directories have snapshot chains (1..3 layers per storage), opened repeatedly
        _bounded_hdd(rep, pid, known)


def trusted(pid):
    return ["A3 file objects: seek/read/tell with short reads at EOF", "A3 cached_property HDS.bat transparent (list of uint32 loaded once from the immutable file)",
            "A6 well-formed image: BAT covers the virtual size, allocated clusters inside the file, parent stream at least as large as the child"]


def contracts(repo):
    return [_iter_runs("functional"), _hds_read(), _iter_runs("termination"), _storage_read(), _storage_init(), _storage_read_termination()]
