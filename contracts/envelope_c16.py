"""Contracts for dissect/hypervisor/util/envelope.py and tools/envelope.py (C16).

Specification (crypto-util layout, see replay/envelope_corpus.py): the data area (file bytes 4096 .. size-4096) is the AES-256-GCM
encryption, under the key whose SHA-256("AES-256-GCM" || key) is stored in vmware.keyHash and the nonce vmware.iv, with associated data
= serialised header block followed by the caller's aad, of   payload || padding || 4096-byte crypto footer block   whose last 8 bytes
are {padding u32, version u32}; the 16-byte tag is in the AEAD footer block.

Assumed callee contracts (A4): hashlib.sha256(x).digest() is a 32-byte function of x; AES.new(key, MODE_GCM, nonce) gives a cipher whose
decrypt(chunk) returns the plaintext stream PT at the positions of the ciphertext consumed so far (so the ciphertext must be fed in
order, without gaps -- call-site obligation), update(x) appends x to the associated data and is only legal before any decrypt, and
verify(tag) raises ValueError unless tag is the tag of (associated data, ciphertext).  _pack_envelope_header(self) is the
re-serialised header (its inverse relation to the parser is exercised by the bounded block only)."""
from __future__ import annotations

import ast
import importlib

import z3

from pyvc import cstruct_ext, driver
from pyvc.engine import find_function
from .common import *

FILE = "dissect/hypervisor/util/envelope.py"
TOOL = "dissect/hypervisor/tools/envelope.py"
MOD = "dissect.hypervisor.util.envelope"
CIPHER = "AES-256-GCM"


def fresh_bytes_(name):
    from pyvc.engine import fresh_bytes

    return fresh_bytes(name)


def same_bytes(a, b):
    if a is b:
        return z3.BoolVal(True)
    if not isinstance(a, BytesV) or not isinstance(b, BytesV):
        return z3.BoolVal(False)
    return z3.And(a.n == b.n, forall_k(a.n, lambda k: a.at(k) == b.at(k)))


class DecryptModel(Model):
    pymodule = MOD

    def __init__(self, mode):
        super().__init__()
        self.mode = mode
        mod = importlib.import_module(MOD)
        self.c_envelope = mod.c_envelope
        self.SIZE = z3.Int("self.size")
        self.CT = z3.Array("CT", I, I)
        self.PT = z3.Array("PT", I, I)
        self.SHA = z3.Array("SHA", I, I)
        self.key = fresh_bytes_("key")
        self.key_hash = fresh_bytes_("key_hash")
        self.iv = fresh_bytes_("iv")
        self.iv_none = z3.Bool("iv_is_none")
        self.digest = fresh_bytes_("digest")
        self.aad = fresh_bytes_("aad")
        self.aad_none = z3.Bool("aad_is_none")
        self.HDR = fresh_bytes_("packed_header")
        self.verify_flag = z3.Bool("self.verify")
        self.tag_ok = z3.Bool("tag_is_the_tag_of_aad_and_ciphertext")
        self.fields.update({"self.cipher_name": StrV(CIPHER), "self.key_hash": self.key_hash, "self.iv": OptV(self.iv_none, self.iv), "self.digest": self.digest,
                            "self.size": IntV(self.SIZE), "self.verify": BoolV(self.verify_flag), "self.data": FileV("data")})
        self.files["data"] = (self.SIZE, self.CT)
        self.truthy["data"] = z3.BoolVal(True)
        # environment: pycryptodome is the crypto module of this sandbox
        self.globals["HAS_PYSTANDALONE"] = BoolV(z3.BoolVal(False))
        self.globals["HAS_PYCRYPTODOME"] = BoolV(z3.BoolVal(True))
        self.globals["hashlib"] = ObjV("hashlib")
        self.methods[("hashlib", "sha256")] = self.sha256
        self.methods[("sha", "digest")] = lambda eng, st, args, node: BytesV(z3.IntVal(32), lambda i: z3.Select(self.SHA, i))
        self.globals["AES"] = ObjV("AES")
        self.fields["AES.MODE_GCM"] = IntV(z3.Int("AES.MODE_GCM"))
        self.methods[("AES", "new")] = self.aes_new
        self.methods[("cipher", "update")] = self.c_update
        self.methods[("cipher", "decrypt")] = self.c_decrypt
        self.methods[("cipher", "verify")] = self.c_verify
        self.global_calls["_pack_envelope_header"] = self.pack_header
        self.globals["c_envelope"] = ObjV("c_envelope")
        self.methods[("c_envelope", "DataTransformCryptoFooter")] = lambda eng, st, args, node: cstruct_ext.parse_bytes(eng, st, self, self.c_envelope.DataTransformCryptoFooter, "<", args[0], node)
        for p in ("cipher", "sha"):
            self.truthy[p] = z3.BoolVal(True)

    def padding(self):
        return le(lambda i: z3.Select(self.PT, i), self.SIZE - 8, 4)

    def requires(self):
        k = K
        hyps = [self.SIZE >= 0, z3.ForAll([k], z3.And(z3.Select(self.PT, k) >= 0, z3.Select(self.PT, k) <= 255)), z3.ForAll([k], z3.And(z3.Select(self.CT, k) >= 0, z3.Select(self.CT, k) <= 255)),
                self.key.n >= 0, self.iv.n >= 0, self.aad.n >= 0, self.digest.n >= 0, self.key_hash.n >= 0]
        if self.mode == "roundtrip":
            # well-formed envelope, right key, untouched file
            hyps += [self.key_hash.n == 32, forall_k(32, lambda kk: self.key_hash.at(kk) == z3.Select(self.SHA, kk)), z3.Not(self.iv_none), self.iv.n > 0,
                     self.SIZE >= 4096 + self.padding(), self.tag_ok]
        return hyps

    # ---- callee contracts with call-site obligations
    def sha256(self, eng, st, args, node):
        (x,) = args
        want = const_bytes_(CIPHER.encode())
        if not isinstance(x, BytesV):
            eng.ob("callsite.key_hash_is_over_cipher_name_and_key", st, z3.BoolVal(False), node, tag="")
        else:
            eng.ob("callsite.key_hash_is_over_cipher_name_and_key", st,
                   z3.And(x.n == want.n + self.key.n, forall_k(x.n, lambda k: x.at(k) == z3.If(k < want.n, want.at(k), self.key.at(k - want.n)))), node, tag="")
        st.ghost["sha_calls"] = st.ghost.get("sha_calls", 0) + 1
        return ObjV("sha")

    def aes_new(self, eng, st, args, node, **kw):
        ok = len(args) == 2 and set(kw) == {"nonce"} and args[0] is self.key
        eng.ob("callsite.gcm_cipher_with_the_given_key_and_stored_iv", st,
               z3.And(z3.BoolVal(ok), eng.as_int(args[1], st, node) == z3.Int("AES.MODE_GCM") if ok else z3.BoolVal(False),
                      z3.And(z3.Not(self.iv_none), same_bytes(kw["nonce"].val if isinstance(kw.get("nonce"), OptV) else kw.get("nonce"), self.iv)) if ok else z3.BoolVal(False)), node, tag="")
        st.ghost["cpos"] = z3.IntVal(0)
        st.ghost["aad_seq"] = ()
        return ObjV("cipher")

    def pack_header(self, eng, st, args, node):
        eng.ob("callsite.header_packed_from_this_envelope", st, z3.BoolVal(len(args) == 1 and isinstance(args[0], ObjV) and args[0].path == "self"), node, tag="")
        return self.HDR

    def c_update(self, eng, st, args, node):
        (x,) = args
        if isinstance(x, OptV):
            eng.may_raise("TypeError", st, z3.Not(x.is_none), node)
            x = x.val
        eng.ob("callsite.associated_data_only_before_any_ciphertext", st, st.ghost["cpos"] == 0, node, tag="")
        st.ghost["aad_seq"] = st.ghost["aad_seq"] + (x,)
        return NoneV()

    def c_decrypt(self, eng, st, args, node):
        (chunk,) = args
        cpos = st.ghost["cpos"]
        eng.ob("callsite.ciphertext_fed_in_order_without_gaps", st, z3.And(cpos + chunk.n <= self.SIZE, forall_k(chunk.n, lambda k: chunk.at(k) == z3.Select(self.CT, cpos + k))), node, tag="")
        st.ghost["cpos"] = cpos + chunk.n
        st.anchor(cpos, cls="byte")
        return BytesV(chunk.n, lambda i, cpos=cpos: z3.Select(self.PT, cpos + i), (cpos,))

    def c_verify(self, eng, st, args, node):
        (tag,) = args
        eng.ob("callsite.tag_verified_after_all_ciphertext", st, st.ghost["cpos"] == self.SIZE, node, tag="")
        eng.ob("callsite.verified_against_the_stored_tag", st, z3.BoolVal(tag is self.digest), node, tag="")
        eng.may_raise("ValueError", st, self.tag_ok, node)
        st.ghost["verify_calls"] = st.ghost.get("verify_calls", 0) + 1
        return NoneV()


def const_bytes_(b):
    from pyvc.engine import const_bytes

    return const_bytes(b)


def _decrypt(mode):
    def params(m):
        return {"self": ObjV("self"), "key": m.key, "aad": OptV(m.aad_none, m.aad)}

    def inv(eng, st):
        m = eng.model
        off = st.env["offset"].e
        dec = st.env["decrypted"]
        return z3.And(off >= 0, off <= m.SIZE, eng.file_pos(st, "data") == off, st.ghost["cpos"] == off, dec.n == m.SIZE,
                      forall_k(off, lambda k: dec.at(k) == z3.Select(m.PT, k)))

    def dec_shape(eng, st):
        m = eng.model
        arr = fresh("decrypted", z3.ArraySort(I, I))
        return BytesV(m.SIZE, lambda i, arr=arr: z3.Select(arr, i))

    loops = {("While", 0): LoopSpec(inv=inv, variant=lambda eng, st: eng.model.SIZE - st.env["offset"].e + 1, shapes={"decrypted": dec_shape, "chunk": "local", "chunk_size": "local", "offset": "int"},
                                    ghost_havoc={"cpos": "int"})}

    def post(eng, st, rv):
        m = eng.model
        if not isinstance(rv, BytesV):
            return [("returns_bytes", z3.BoolVal(False))]
        seq = st.ghost.get("aad_seq")
        if seq is None:
            return [("a_cipher_is_created", z3.BoolVal(False))]
        pad = m.padding()
        aad_ok = z3.And(z3.BoolVal(len(seq) >= 1 and seq[0] is m.HDR),
                        z3.If(z3.And(z3.Not(m.aad_none), m.aad.n > 0), z3.BoolVal(len(seq) == 2 and seq[1] is m.aad), z3.BoolVal(len(seq) == 1)))
        goals = [("key_hash_gate_passed", z3.And(z3.BoolVal(st.ghost.get("sha_calls") == 1), m.key_hash.n == 32, forall_k(32, lambda k: m.key_hash.at(k) == z3.Select(m.SHA, k)))),
                 ("associated_data_is_header_then_callers_aad", aad_ok),
                 ("all_ciphertext_decrypted", st.ghost["cpos"] == m.SIZE),
                 ("tag_verified_before_returning_when_verify_is_on", z3.Implies(m.verify_flag, z3.BoolVal(st.ghost.get("verify_calls", 0) == 1))),
                 ("result_is_plaintext_without_padding_and_footer", z3.And(rv.n == zmax(m.SIZE - 4096 - pad, z3.IntVal(0)), forall_k(rv.n, lambda k: rv.at(k) == z3.Select(m.PT, k))))]
        if mode == "roundtrip":
            goals.append(("payload_length", rv.n == m.SIZE - 4096 - pad))
        return goals

    c = FnContract(FILE, "Envelope.decrypt", ["C16"], lambda: DecryptModel(mode), params=params, requires=lambda m: m.requires(), post=post, loops=loops,
                   raises={} if mode == "roundtrip" else {"ValueError": None, "EOFError": None, "TypeError": None}, case=mode,
                   note={"roundtrip": "well-formed envelope (size >= 4096 + padding), matching key hash, valid tag: returns PT[0 : size-4096-padding], raises nothing; size, contents, aad, verify symbolic",
                         "auth": "arbitrary object state: every normal return passed the key-hash gate, fed header+aad then the whole ciphertext in order, and verified the stored tag when verify is on"}[mode])
    c.select_terms = True
    return c


# ------------------------------------------------------------------------------------------------ command-line tool
class MainModel(Model):
    def __init__(self):
        super().__init__()
        self.globals["argparse"] = ObjV("argparse")
        self.methods[("argparse", "ArgumentParser")] = lambda eng, st, args, node, **kw: ObjV("parser")
        self.methods[("parser", "add_argument")] = lambda eng, st, args, node, **kw: NoneV()
        self.methods[("parser", "parse_args")] = lambda eng, st, args, node: ObjV("args")
        self.methods[("parser", "exit")] = self.p_exit
        self.globals["Path"] = ObjV("Path")
        self.ex_env, self.ex_ks = z3.Bool("envelope_exists"), z3.Bool("keystore_exists")
        for a in ("envelope", "keystore", "output"):
            self.fields[f"args.{a}"] = ObjV(f"args.{a}")
        self.methods[("args.envelope", "exists")] = lambda eng, st, args, node: BoolV(self.ex_env)
        self.methods[("args.keystore", "exists")] = lambda eng, st, args, node: BoolV(self.ex_ks)
        self.methods[("args.envelope", "open")] = self.rec("open_envelope", lambda: ObjV("fh"))
        self.methods[("args.output", "open")] = self.rec("open_output", lambda: ObjV("fhout"))
        self.methods[("args.keystore", "read_text")] = self.rec("read_text", lambda: ObjV("kstext"))
        self.global_calls["Envelope"] = self.rec("Envelope", lambda: ObjV("envelope"))
        self.globals["KeyStore"] = ObjV("KeyStore")
        self.methods[("KeyStore", "from_text")] = self.rec("from_text", lambda: ObjV("keystore"))
        self.fields["keystore.key"] = ObjV("keystore.key")
        self.methods[("envelope", "decrypt")] = self.rec("decrypt", lambda: ObjV("plaintext"))
        self.methods[("fhout", "write")] = self.rec("write", lambda: IntV(fresh("written")))
        for p in ("parser", "args", "fh", "fhout", "envelope", "keystore", "plaintext", "kstext", "keystore.key"):
            self.truthy[p] = z3.BoolVal(True)

    def p_exit(self, eng, st, args, node, **kw):
        eng.may_raise("SystemExit", st, z3.BoolVal(False), node)  # parser.exit never returns: the continuation is infeasible
        return NoneV()

    def rec(self, name, result):
        def h(eng, st, args, node, **kw):
            st.ghost.setdefault("order", ())
            st.ghost["order"] = st.ghost["order"] + (name,)
            st.ghost[name] = (tuple(args), dict(kw))
            st.ghost[name + "#"] = st.ghost.get(name + "#", 0) + 1
            eng.may_raise("Exception", st, fresh("ok", B), node)
            return result()

        return h


def _main():
    def is_obj(v, path):
        return isinstance(v, ObjV) and v.path == path

    def post(eng, st, rv):
        m = eng.model
        g = st.ghost

        def one(name, n):
            return g.get(name) is not None and g.get(name + "#") == 1 and len(g[name][0]) == n and not g[name][1]

        def mode_of(name):
            a = g.get(name)
            return a[0][0].s if a and a[0] and isinstance(a[0][0], StrV) else None

        return [("both_inputs_exist", z3.And(m.ex_env, m.ex_ks)),
                ("envelope_opened_for_reading_only", z3.BoolVal(one("open_envelope", 1) and mode_of("open_envelope") == "rb")),
                ("envelope_parsed_from_that_file", z3.BoolVal(one("Envelope", 1) and is_obj(g["Envelope"][0][0], "fh"))),
                ("keystore_parsed_from_the_keystore_text", z3.BoolVal(one("read_text", 0) and one("from_text", 1) and is_obj(g["from_text"][0][0], "kstext"))),
                ("decrypted_with_the_keystore_key_and_no_extra_aad", z3.BoolVal(one("decrypt", 1) and is_obj(g["decrypt"][0][0], "keystore.key"))),
                ("output_opened_for_binary_writing", z3.BoolVal(one("open_output", 1) and mode_of("open_output") == "wb")),
                ("exactly_the_decrypted_bytes_are_written_once", z3.BoolVal(one("write", 1) and is_obj(g["write"][0][0], "plaintext"))),
                ("returns_0", eng.as_int(rv, st, None) == 0 if isinstance(rv, IntV) else z3.BoolVal(False))]

    nothing_written = lambda eng, st: z3.BoolVal(st.ghost.get("write#", 0) == 0 or st.ghost.get("order", ())[-1:] == ("write",))  # noqa: E731
    return FnContract(TOOL, "main", ["C16"], MainModel, params=lambda m: {}, requires=lambda m: [], post=post,
                      raises={"SystemExit": lambda eng, st: z3.And(z3.Not(z3.And(eng.model.ex_env, eng.model.ex_ks)), z3.BoolVal(st.ghost.get("open_output#", 0) == 0)), "Exception": nothing_written},
                      note="argparse, pathlib and the Envelope/KeyStore classes are callees; every callee may raise")


def contracts(repo):
    return [_decrypt("roundtrip"), _decrypt("auth"), _main(), _init_exposure(repo)]


# ------------------------------------------------------------------------------------------------ determinism of key derivation (effect obligation)
NONDET = {"time", "random", "secrets", "os.urandom", "os.environ", "os.getenv", "uuid.uuid1", "uuid.uuid4", "uuid1", "uuid4", "datetime", "getpass", "socket", "platform", "input"}


def extra_checks(rep, pid, ledger, known):
    """KeyStore.__init__ / from_text read nothing but their argument: no clock, randomness, environment or host identity (set inclusion
    over the names the two functions and the module's imports can reach)"""
    name = "envelope:KeyStore/deterministic.no_ambient_input"
    why = ""
    try:
        import os

        src = open(os.path.join(rep.repo, FILE)).read()
        tree = ast.parse(src)
        imported = set()
        for n in tree.body:
            if isinstance(n, ast.Import):
                imported |= {a.name for a in n.names}
            elif isinstance(n, ast.ImportFrom):
                imported |= {f"{n.module}.{a.name}" for a in n.names} | {a.name for a in n.names}
            elif isinstance(n, ast.Try):
                for b in n.body:
                    if isinstance(b, ast.Import):
                        imported |= {a.name for a in b.names}
                    elif isinstance(b, ast.ImportFrom):
                        imported |= {f"{b.module}.{a.name}" for a in b.names}
        bad = sorted(x for x in imported if x.split(".")[0] in {"time", "random", "secrets", "datetime", "getpass", "socket", "platform"} or x in NONDET)
        used = set()
        for qual in ("KeyStore.__init__", "KeyStore.from_text"):
            node, _ = find_function(rep.repo, FILE, qual)
            for n in ast.walk(node):
                if isinstance(n, (ast.Name, ast.Attribute)):
                    used.add(ast.unparse(n))
        bad_used = sorted(u for u in used if u in NONDET or u.split(".")[0] in {"time", "random", "secrets", "os", "datetime", "socket", "platform"} or u.endswith((".uuid4", ".uuid1")))
        from pyvc.model import module_state_mutations

        muts = []
        for qual in ("KeyStore.__init__", "KeyStore.from_text", "KeyStore.key", "KeyStore.id"):
            node, _ = find_function(rep.repo, FILE, qual)
            muts += module_state_mutations(rep.repo, FILE, node)
        ok = not bad and not bad_used and not muts
        why = f"ambient inputs reachable: imports {bad}, names {bad_used}; module-level state mutated (the derived key may depend on earlier keystores): {muts}"
    except Unsupported as e:
        rep.unsupported.append(f"{name}: unsupported({e})")
        return
    rep.functions.append({"function": f"{FILE}:KeyStore.__init__, KeyStore.from_text", "contract": "reads only its argument (no clock / randomness / environment / host identity) and keeps no module-level state between calls", "props": ["C16"]})
    rep.obligations[name] = {"verdict": "discharged" if ok else "undischarged", "atoms": 1, "ms": 0, "backends": {"set-inclusion"}, "stages": set(), "line": 0, "props": ["C16"]}
    if not ok:
        p = driver.write_replay(pid, name, {"property": pid, "obligation": name, "verifier_output": why})
        rep.violations.append((p, why, True))


def _corpus(rep):
    import json
    import os
    import subprocess

    from replay.harness import PY, VERIF

    if getattr(rep, "_env_corpus", None) is None:
        env = dict(os.environ, PYTHONPATH=f"{rep.repo}:{VERIF}")
        try:
            p = subprocess.run([PY, "-m", "replay.envelope_corpus", str(rep.seed), rep.tier], capture_output=True, text=True, timeout=1500, env=env, cwd=VERIF)
            rep._env_corpus = json.loads(p.stdout) if p.returncode == 0 else {"error": p.stderr[-400:]}
        except Exception as e:  # noqa: BLE001
            rep._env_corpus = {"error": f"{type(e).__name__}: {e}"}
    return rep._env_corpus


def replay(rep, ob_name, qs):
    res = _corpus(rep)
    if "error" in res:
        rep.notes.append(f"envelope corpus failed to run: {res['error']}")
        return None
    if not res["failures"]:
        return None
    f = res["failures"][0]
    return {"found": True, "finding_key": f"envelope:{f['kind']}", "text": f"envelope {f['kind']}: {f['detail']}", "record": {"envelope_case": f, "rerun": "PYTHONPATH=/repo:/verif python -m replay.envelope_corpus <seed> <tier>"}}


def bounded(rep, pid, known):
    res = _corpus(rep)
    if "error" in res:
        rep.errors.append(f"envelope corpus failed to run: {res['error']}")
        return
    rep.bounded.append({"block": "c16.envelopes", "level": "bounded (real AES-256-GCM / PBKDF2 on generated files; NOT counted as proved)", "evaluations": res["evaluations"],
                        "distinct_nontrivial": res["evaluations"], "rule": res["rule"], "failures": res["n_failures"], "groups": res["groups"],
                        "observations_not_demanded": res.get("observations_not_demanded", {})})
    if res.get("observations_not_demanded"):
        rep.notes.append("observation (not demanded by the property statement, which speaks of altered header *attributes*): alterations of header bytes that belong to no attribute "
                         f"(filler, reserved, size field, terminator) leave the parsed attributes, the associated data and the plaintext unchanged and are not detected: {res['observations_not_demanded']}")
    seen = set()
    for f in res["failures"]:
        if f["kind"] in seen:
            continue
        seen.add(f["kind"])
        p = driver.write_replay(pid, f"bounded.envelope.{f['kind'].replace(':', '_')}", {"property": pid, **f})
        rep.violations.append((p, f"envelope {f['kind']}: {f['detail']}", False))


def trusted(pid):
    return ["A4 AES-256-GCM (pycryptodome): decrypt is the keystream function of (key, nonce, position); verify raises unless the tag matches (associated data, ciphertext); forgery resistance",
            "A4 SHA-256 / PBKDF2 (hashlib) are functions of their arguments",
            "_pack_envelope_header / _pack_attributes vs _read_envelope_attributes (serialisation inverse), Envelope.__init__ field plumbing, KeyStore text parsing and key derivation arguments: bounded block only",
            "RangeStream(self.fh, 4096, size) is modelled as a file of `size` bytes (dissect.util, A3)", "environment: pycryptodome, not _pystandalone"]


# ------------------------------------------------------------------------------------------------ Envelope.__init__: exposed geometry (gate mode)
def _init_exposure(repo):
    from .gates import GateModel, fld, parsed

    def model():
        m = GateModel(MOD, FILE, "Envelope", repo=repo)
        m.globals["RangeStream"] = FuncRef_("RangeStream")
        m.global_calls["RangeStream"] = lambda eng, st, args, node, **kw: (st.ghost.__setitem__("range_stream", tuple(args)), ObjV("data_stream"))[1]
        m.truthy["data_stream"] = z3.BoolVal(True)
        return m

    def post(eng, st, rv):
        m = eng.model
        fsize, _arr = m.file("fh")
        foot = parsed(st, "DataTransformAeadFooter")
        size = eng.as_int(st.attrs["self.size"], st, None)
        dg = st.attrs.get("self.digest")
        data = fld(eng, st, foot, "data")
        n = fld(eng, st, foot, "size").e
        rs = st.ghost.get("range_stream")
        goals = [("size_is_the_file_size_minus_header_and_footer_block", size == fsize - 2 * 4096),
                 ("digest_is_the_first_footer_size_bytes_of_the_footer_data", z3.And(dg.n == zmin(n, data.n), forall_k(dg.n, lambda k: dg.at(k) == data.at(k))) if isinstance(dg, BytesV) else z3.BoolVal(False)),
                 ("data_area_starts_after_the_header_block_and_has_that_size", z3.And(z3.BoolVal(rs is not None and len(rs) == 3 and isinstance(rs[0], FileV)), eng.as_int(rs[1], st, None) == 4096, eng.as_int(rs[2], st, None) == size) if rs else z3.BoolVal(False))]
        return goals

    return FnContract(FILE, "Envelope.__init__", ["C16"], model, params=lambda m: {"self": ObjV("self"), "fh": FileV("fh"), "verify": OpaqueV("verify")}, requires=lambda m: m.hyps, post=post,
                      allow_any_exception=True, mode="exposure", note="gate mode: header, attributes and footer arbitrary; normal return => exposed size / digest / data stream as specified")


def FuncRef_(name):
    from pyvc.engine import FuncRef

    return FuncRef(name)
