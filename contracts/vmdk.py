"""Contracts for dissect/hypervisor/disk/vmdk.py (C02, C10; also C07 delta extents, C08, C11, C13).

Specification sources: VMware "Virtual Disk Format 5.0" technote (hosted sparse extents: grain directory -> grain table ->
grain; GTE 0 = not allocated, GTE 1 = zero grain, otherwise the sector at which the grain starts; stream-optimized:
grain marker + deflate), QEMU block/vmdk.c for SE-sparse (type nibble 0/1/2/3 = unallocated / scsi-unmapped / zero / allocated,
cluster sector = (e & 0x0fff000000000000) >> 48 | (e & 0x0000ffffffffffff) << 12, data at grains_offset + cluster * grain_size).
All quantities are in 512-byte sectors.  Guest(x) is a function of the extent-relative byte offset x."""
from __future__ import annotations

import importlib

import z3

from pyvc.engine import fresh_bytes
from .common import *

FILE = "dissect/hypervisor/disk/vmdk.py"
J = z3.Int("j")  # sector (unit) index in quantified contracts


def cvm():
    return importlib.import_module("dissect.hypervisor.disk.c_vmdk")


class SparseModel(Model):
    def __init__(self, wf=True):
        super().__init__()
        c = cvm()
        self.hyps = []
        self.fsize, self.farr = self.file_field("self.fh", "fh")
        self.obj_field("self.header")
        self.obj_field("self.parent")
        self.gsz = self.int_field("self.header.grain_size", 0, U64, self.hyps)
        self.capacity = self.int_field("self.header.capacity", 0, U64, self.hyps)
        self.flags = self.int_field("self.header.flags", 0, U64, self.hyps)
        self.sector_offset = self.int_field("self.sector_offset")
        self.has_parent = z3.Bool("has_parent")
        self.truthy["self.parent"] = self.has_parent
        self.GS = z3.Function("GS", I, I)  # contract of _lookup_grain(grain): 0 unallocated, 1 zero grain, > 1 first sector of the grain
        self.GSG = z3.Function("GSG", I, I)  # opaque: grain entry of extent-relative sector s  == GS(s div grain_size)
        self.GSO = z3.Function("GSO", I, I)  # opaque: s mod grain_size
        self.CGD = z3.Function("InflatedGrain", I, I, I)  # assumed inflate: byte j of the decompressed grain stored at sector g
        self.PG = z3.Function("ParentGuest", I, I)  # parent's guest byte at an absolute byte offset
        self.G = z3.Function("Guest", I, I)
        register_opaque("GSG", lambda s: self._gs(s)[0])
        register_opaque("GSO", lambda s: self._gs(s)[1])
        register_opaque("Guest", self.guest_def)
        self.globals["SECTOR_SIZE"] = IntV(z3.IntVal(c.SECTOR_SIZE))
        self.globals["c_vmdk"] = ObjV("c_vmdk")
        self.compressed_flag = int(c.c_vmdk.SPARSEFLAG_COMPRESSED)
        self.fields["c_vmdk.SPARSEFLAG_COMPRESSED"] = IntV(z3.IntVal(self.compressed_flag))
        self.fields["c_vmdk.SPARSEFLAG_EMBEDDED_LBA"] = IntV(z3.IntVal(int(c.c_vmdk.SPARSEFLAG_EMBEDDED_LBA)))
        self.is_compressed = z3.Bool("is_compressed")
        self.methods[("self", "_lookup_grain")] = self.lookup_grain
        self.methods[("self", "get_runs")] = self.get_runs
        self.methods[("self", "_read_compressed_grain")] = self.read_compressed_grain
        self.methods[("self.parent", "read_sectors")] = self.parent_read_sectors
        self.hyps += [self.sector_offset >= 0, z3.ForAll([T], self.GS(T) >= 0), byte_range_axiom(self.farr)]
        # flags bit 16 <=> compressed (definition used by the spec)
        fq, fr = z3.Ints("flags_hi flags_lo")
        cb = z3.Int("flags_cbit")
        self.hyps += [self.flags == fq * (2 * self.compressed_flag) + cb * self.compressed_flag + fr, 0 <= fr, fr < self.compressed_flag, 0 <= cb, cb <= 1, fq >= 0,
                      self.is_compressed == (cb == 1)]
        if wf:
            self.hyps += [self.gsz > 0,
                          z3.ForAll([T], z3.Implies(z3.And(0 <= T, T * self.gsz < self.capacity, self.GS(T) > 1, z3.Not(self.is_compressed)),
                                                    (self.GS(T) + self.gsz) * 512 <= self.fsize))]

    def _gs(self, s):
        q, r, fact = ediv(s, self.gsz)
        return (self.GS(q), [fact]), (r, [fact])

    def guest_def(self, x):  # SPEC; x = extent-relative byte offset
        s, b, f1 = ediv(x, z3.IntVal(512))
        e, o = self.GSG(s), self.GSO(s)
        data = z3.If(self.is_compressed, self.CGD(e, o * 512 + b), z3.Select(self.farr, (e + o) * 512 + b))
        return z3.If(e == 0, z3.If(self.has_parent, self.PG(self.sector_offset * 512 + x), 0), z3.If(e == 1, 0, data)), [f1]

    # ---- callee contracts
    def lookup_grain(self, eng, st, args, node):
        g = eng.as_int(args[0], st, node)
        eng.pre(st, z3.And(g >= 0, g * self.gsz < self.capacity), node)
        st.ghost["io"] = st.ghost.get("io", z3.IntVal(0)) + 0  # table reads are accounted in _lookup_grain_table's own contract
        return IntV(self.GS(g))

    def run_ok(self, t, off, cnt, par_none, par, start, ds0):
        """per-run contract of get_runs (`start` = sectors covered by earlier runs, ds0 = extent-relative first sector).
        Sectors are indexed absolutely (extent-relative sector number j), so no index shifting is needed between runs."""
        first = ds0 + start
        return z3.And(cnt >= 1, t >= 0, off >= 0,
                      z3.Implies(t == 0, z3.And(z3.Not(par_none), par == self.sector_offset + first)),
                      z3.Implies(t > 1, z3.And(self.GSO(first) == off, off < self.gsz)),  # run_offset is the first sector's offset inside its grain
                      z3.ForAll([J], z3.Implies(z3.And(first <= J, J < first + cnt),
                                                z3.And(z3.Implies(t == 0, self.GSG(J) == 0), z3.Implies(t == 1, self.GSG(J) == 1),
                                                       z3.Implies(t > 1, z3.And(self.GSG(J) > 1, self.GSG(J) + self.GSO(J) == t + off + (J - first)))))))

    def get_runs(self, eng, st, args, node):
        sector, count = (eng.as_int(a, st, node) for a in args)
        ds0 = sector - self.sector_offset
        eng.pre(st, z3.And(ds0 >= 0, count >= 0, ds0 + count <= self.capacity), node)

        def elem():
            return TupleV([IntV(fresh("run_type")), IntV(fresh("run_offset")), IntV(fresh("run_count")), OptV(fresh("run_parent_isnone", B), IntV(fresh("run_parent")))])

        def ok(el, plen):
            t, off, cnt, par = el.items
            return z3.And(self.run_ok(t.e, off.e, cnt.e, par.is_none, par.val.e, plen, ds0), plen + cnt.e <= count)

        return SeqV(elem, ok, lambda el: el.items[2].e, count)

    def read_compressed_grain(self, eng, st, args, node):
        # assumed contract (A3 inflate): the grain stored at `sector` inflates to exactly grain_size*512 bytes
        g = eng.as_int(args[0], st, node)
        eng.pre(st, g > 1, node)
        r = fresh_bytes("cg")
        st.hyps.append(z3.And(r.n == self.gsz * 512, forall_k(r.n, lambda k: r.at(k) == self.CGD(g, k))))
        st.ghost["io"] = st.ghost.get("io", z3.IntVal(0)) + self.gsz * 512 + 1024
        return r

    def parent_read_sectors(self, eng, st, args, node):
        s, c = (eng.as_int(a, st, node) for a in args)
        eng.pre(st, z3.And(s >= 0, c >= 0), node)
        r = fresh_bytes("pr")
        st.hyps.append(z3.And(r.n == c * 512, forall_k(r.n, lambda k: r.at(k) == self.PG(s * 512 + k))))
        return r


def _optparts(eng, v):
    isn, val = eng.opt_parts(v)
    return isn, (val.e if val is not None else z3.IntVal(0))


def _get_runs(mode):
    sector0, count0 = z3.Ints("sector0 count0")

    def mk():
        return SparseModel(wf=(mode == "functional"))

    def ds0(m):
        return sector0 - m.sector_offset

    def inv(eng, st):
        m = eng.model
        rs, rc = st.env["read_sector"].e, st.env["read_count"].e
        tn, tv = _optparts(eng, st.env["run_type"])
        pn, pv = _optparts(eng, st.env["run_parent"])
        ro, rcount, ngs = st.env["run_offset"].e, st.env["run_count"].e, st.env["next_grain_sector"].e
        plen = st.ghost["plen"]
        cov = rs - ds0(m)
        parts = [cov >= 0, rc == count0 - cov]
        if mode == "functional":
            q, r = eng.euclid(st, rs, m.gsz)
            parts += [rc >= 0, plen >= 0, rcount >= 0, ro >= 0,
                      z3.Implies(tn, z3.And(cov == 0, plen == 0, rcount == 0)),
                      z3.Implies(z3.Not(tn), z3.And(tv >= 0, cov == plen + rcount, m.run_ok(tv, ro, rcount, pn, pv, plen, ds0(m)))),
                      # a physically contiguous pending run ends at a grain boundary and next_grain_sector is the sector that would continue it
                      z3.Implies(z3.And(z3.Not(tn), tv > 1, rc > 0), z3.And(ngs == tv + ro + rcount, r == 0))]
        return z3.And(*parts)

    def on_append(eng, st, v, node):
        m = eng.model
        t, off, cnt, par = v.items
        tn, tv = _optparts(eng, t)
        pn, pv = _optparts(eng, par)
        plen = st.ghost["plen"]
        if mode == "functional":
            eng.ob("append.run_ok", st, z3.And(z3.Not(tn), m.run_ok(tv, eng.as_int(off, st, node), eng.as_int(cnt, st, node), pn, pv, plen, ds0(m))), node)
        st.ghost["plen"] = plen + eng.as_int(cnt, st, node)

    def post(eng, st, rv):
        if mode != "functional":
            return []
        return [("covers_request", st.ghost["plen"] == count0)]

    def requires(m):
        base = m.hyps + [count0 >= 0]
        if mode == "functional":
            base += [ds0(m) >= 0, ds0(m) + count0 <= m.capacity]
        return base

    return FnContract(
        FILE, "SparseDisk.get_runs", ["C02", "C07", "C08"] if mode == "functional" else ["C11"], mk,
        params=lambda m: {"self": ObjV("self"), "sector": IntV(sector0), "count": IntV(count0)},
        requires=requires, post=post, on_append=on_append, ghost=lambda m: {"plen": z3.IntVal(0)},
        loops={("While", 0): LoopSpec(inv, lambda eng, st: st.env["read_count"].e, ghost_havoc={"plen": "int"},
                                      shapes={"run_type": "optint", "run_parent": "optint"})},
        shifts=r"^$", mode=mode, allow_any_exception=(mode != "functional"),
        note="grain size, capacity, extent placement and every grain-table entry symbolic; list of runs treated as a sequence of append events with a per-run obligation")


def _read_sectors(repo="/repo"):
    import ast as _ast

    from pyvc.engine import find_function, stmt_ordinal

    sector0, count0 = z3.Ints("sector0 count0")

    def grain_bridge(eng, st):
        """bridging lemma (R5): the piece of the inflated grain that is about to be appended equals the guest bytes at the
        current position (proved as its own obligation from the run contract, then assumed by the content obligation)"""
        m = eng.model
        buf = st.env["buf"]
        offset, rcnt, rc = st.env["offset"].e, st.env["read_count"].e, st.env["run_count"].e
        done = st.ghost["@run_count"] - rc
        plen = st.ghost["plen0"]
        cur = (sector0 - m.sector_offset) + plen + done
        st.anchor(cur)
        st.anchor(offset, cls="byte")  # the inflate contract is indexed from the start of the grain
        return forall_k(rcnt * 512, lambda k: buf.at(offset + k) == m.G(cur * 512 + k))

    ghost = {}
    try:
        node, _ = find_function(repo, FILE, "SparseDisk.read_sectors")
        o = stmt_ordinal(node, lambda n: isinstance(n, _ast.Assign) and any(isinstance(t, _ast.Name) and t.id == "buf" for t in n.targets))
        if o is not None:
            ghost[o] = grain_bridge
    except Unsupported:
        pass

    def base(m):
        return (sector0 - m.sector_offset) * 512

    def inv(eng, st):
        m = eng.model
        acc = st.env["sectors_read"].joined
        plen = st.ghost["plen0"]
        st.anchor((sector0 - m.sector_offset) + plen)
        return z3.And(acc.n == plen * 512, forall_k(acc.n, lambda k: acc.at(k) == m.G(base(m) + k)))

    def inner_inv(eng, st):
        # compressed run: one grain per iteration; "run_type always points at the grain holding the next sector"
        m = eng.model
        acc0 = st.ghost["@sectors_read"]
        acc = st.env["sectors_read"].joined
        rt, ro, rc = st.env["run_type"].e, st.env["run_offset"].e, st.env["run_count"].e
        rc0 = st.ghost["@run_count"]
        done = rc0 - rc
        plen = st.ghost["plen0"]
        cur = (sector0 - m.sector_offset) + plen + done  # extent-relative sector of the next byte to produce
        st.anchor(cur)
        st.anchor(done * 512, cls="byte")  # the piece appended in this iteration starts at byte done*512 of the run
        return z3.And(rc >= 0, done >= 0, acc.n == acc0.n + done * 512, rt > 1, ro >= 0, ro < m.gsz,
                      forall_k(acc0.n, lambda k: acc.at(k) == acc0.at(k)),
                      forall_k(done * 512, lambda k: acc.at(acc0.n + k) == m.G(base(m) + plen * 512 + k)),
                      z3.Implies(rc > 0, z3.And(m.GSO(cur) == ro, m.GSG(cur) == rt)),
                      z3.ForAll([J], z3.Implies(z3.And(cur <= J, J < cur + rc), z3.And(m.GSG(J) > 1, m.GSG(J) + m.GSO(J) == rt + ro + (J - cur)))))

    def post(eng, st, rv):
        m = eng.model
        r = ret_bytes(rv)
        return [("len", r.n == count0 * 512), ("content", forall_k(r.n, lambda k: r.at(k) == m.G(base(m) + k)))]

    return FnContract(
        FILE, "SparseDisk.read_sectors", ["C02", "C07", "C08"], SparseModel,
        params=lambda m: {"self": ObjV("self"), "sector": IntV(sector0), "count": IntV(count0)},
        requires=lambda m: m.hyps + [sector0 - m.sector_offset >= 0, count0 >= 0, sector0 - m.sector_offset + count0 <= m.capacity],
        post=post, loops={("For", 0): LoopSpec(inv), ("While", 0): LoopSpec(inner_inv, lambda eng, st: st.env["run_count"].e)}, ghost_asserts=ghost,
        shifts={"loop.While0": r"^(sectors_read_len)!", "": r"^(sectors_read_len)!"}, units=(512,), last_terms={"loop.For0": r"^run_count!"},
        note="consumer of get_runs' run contract; compressed grains through the assumed inflate contract of _read_compressed_grain")


# ------------------------------------------------------------------------------------------------ flat extents
class RawModel(Model):
    def __init__(self):
        super().__init__()
        self.hyps = []
        self.fsize, self.farr = self.file_field("self.fh", "fh")
        self.sector_offset = self.int_field("self.sector_offset")
        self.start = self.int_field("self.start_sector")  # sector in the file where the extent's data begins (FLAT offset field)
        self.globals["SECTOR_SIZE"] = IntV(z3.IntVal(512))
        self.hyps += [self.sector_offset >= 0, self.fsize >= 0, self.start >= 0]


def _raw_read_sectors():
    sector0, count0 = z3.Ints("sector0 count0")

    def post(eng, st, rv):
        m = eng.model
        r = ret_bytes(rv)
        rel = (sector0 - m.sector_offset + m.start) * 512
        # SPEC: a flat extent is the file's bytes from its declared start offset: Guest(x) == file[start*512 + x]
        return [("len", z3.Implies(rel + count0 * 512 <= m.fsize, r.n == count0 * 512)),
                ("content", forall_k(r.n, lambda k: r.at(k) == z3.Select(m.farr, rel + k))), ("cost", st.ghost["io"] <= 512 * count0)]

    return FnContract(FILE, "RawDisk.read_sectors", ["C02", "C08", "C10", "C13"], RawModel,
                      params=lambda m: {"self": ObjV("self"), "sector": IntV(sector0), "count": IntV(count0)},
                      requires=lambda m: m.hyps + [sector0 >= m.sector_offset, count0 >= 0], post=post)


class RawInitModel(Model):
    def __init__(self):
        super().__init__()
        self.hyps = []
        self.fsize, self.farr = self.file_field("fh", "fh")
        self.globals["SECTOR_SIZE"] = IntV(z3.IntVal(512))
        self.globals["io"] = ObjV("io")
        self.fields["io.SEEK_END"] = IntV(z3.IntVal(2))
        self.fields["io.SEEK_SET"] = IntV(z3.IntVal(0))
        self.hyps += [self.fsize >= 0]


def _raw_init():
    """RawDisk.__init__: a flat extent covers `size` bytes when the descriptor states a size (FLAT/VMFS lines always do: sectors * 512),
    else the whole file; sector_count = size div 512; offset / sector_offset / start_sector are kept as given."""
    size_none = z3.Bool("size_is_None")
    size0, off0, so0, ss0 = z3.Ints("size0 offset0 sector_offset0 start_sector0")

    def post(eng, st, rv):
        m = eng.model
        a = st.attrs
        want = z3.If(z3.Or(size_none, size0 == 0), m.fsize, size0)
        def iv(k):
            v = a.get(k)
            return eng.as_int(v, st, None) if isinstance(v, (IntV, BoolV, OptV)) else None
        goals = []
        for k, w in (("self.size", want), ("self.offset", off0), ("self.sector_offset", so0), ("self.start_sector", ss0)):
            goals.append((k.replace("self.", "") + "_stored", iv(k) == w if iv(k) is not None else z3.BoolVal(False)))
        sc = iv("self.sector_count")
        q, r, fact = ediv(want, z3.IntVal(512))
        st.hyps.append(fact)
        goals.append(("sector_count_is_size_div_512", sc == q if sc is not None else z3.BoolVal(False)))
        goals.append(("handle_kept", z3.BoolVal(isinstance(a.get("self.fh"), FileV) and a["self.fh"].name == "fh")))
        return goals

    return FnContract(FILE, "RawDisk.__init__", ["C02", "C10", "C14"], RawInitModel,
                      params=lambda m: {"self": ObjV("self"), "fh": FileV("fh"), "size": OptV(size_none, IntV(size0)), "offset": IntV(off0), "sector_offset": IntV(so0), "start_sector": IntV(ss0)},
                      requires=lambda m: m.hyps + [size0 >= 0, off0 >= 0, so0 >= 0, ss0 >= 0], post=post,
                      note="size None / 0 / given; file size symbolic")


# ------------------------------------------------------------------------------------------------ VMDK extent walk
class VmdkModel(Model):
    """VMDK over a list of extents (struct-of-arrays): extent i covers sectors [OFF(i), OFF(i) + CNT(i)); each extent's
    read_sectors is used through the class contract proved above (exactly count*512 bytes of that extent's guest)."""

    def __init__(self):
        super().__init__()
        self.hyps = []
        self.n = z3.Int("len(self.disks)")
        self.OFF = z3.Function("disk_sector_offset", I, I)
        self.CNT = z3.Function("disk_sector_count", I, I)
        self.DG = z3.Function("ExtentGuest", I, I, I)  # (extent index, extent-relative byte) -> byte
        self.G = z3.Function("Guest", I, I)
        self.size = self.int_field("self.size")
        self.total = z3.Int("total_sectors")
        self.obj_field("self.disks")
        self.obj_field("self._disk_offsets")
        self.items["self.disks"] = self.disk_getitem
        self.lens["self.disks"] = IntV(self.n)
        self.global_calls["bisect_right"] = self.bisect_right
        self.globals["SECTOR_SIZE"] = IntV(z3.IntVal(512))
        # class invariant established by VMDK.__init__ (accounting loop; proved there): contiguous extents in declared order
        self.hyps += [self.n >= 1, self.OFF(0) == 0, self.total >= 0, self.size == self.total * 512,
                      z3.ForAll([T], z3.Implies(z3.And(0 <= T, T < self.n), z3.And(self.CNT(T) > 0, self.OFF(T + 1) == self.OFF(T) + self.CNT(T)))),
                      self.OFF(self.n) == self.total]
        self._k = 0

    def guest_of_extent(self, i):
        """SPEC (concatenation of the extents in declared order), instantiated at extent i: every byte of extent i's sector
        range reads as that extent's guest byte at the extent-relative offset"""
        return z3.ForAll([K], z3.Implies(z3.And(self.OFF(i) * 512 <= K, K < self.OFF(i + 1) * 512), self.G(K) == self.DG(i, K - self.OFF(i) * 512)))

    def bisect_right(self, eng, st, args, node):
        # assumed contract of bisect.bisect_right on the sorted list _disk_offsets == [OFF(1), ..., OFF(n-1)]
        lst, x = args
        xs = eng.as_int(x, st, node)
        r = fresh("bisect")
        st.hyps.append(z3.And(0 <= r, r <= self.n - 1, z3.Implies(r > 0, self.OFF(r) <= xs), z3.Implies(r < self.n - 1, xs < self.OFF(r + 1))))
        return IntV(r)

    def disk_getitem(self, eng, st, idx, node):
        i = eng.as_int(idx, st, node)
        eng.pre(st, i >= 0, node)
        eng.may_raise("IndexError", st, i < self.n, node)
        self._k += 1
        p = f"disk!{self._k}"
        self.fields[p + ".sector_count"] = IntV(self.CNT(i))
        self.fields[p + ".sector_offset"] = IntV(self.OFF(i))
        self.methods[(p, "read_sectors")] = lambda eng, st, args, node, i=i: self.disk_read_sectors(eng, st, i, args, node)
        self.truthy[p] = z3.BoolVal(True)
        return ObjV(p)

    def disk_read_sectors(self, eng, st, i, args, node):
        s, c = (eng.as_int(a, st, node) for a in args)
        eng.pre(st, z3.And(s >= self.OFF(i), c >= 0, s + c <= self.OFF(i) + self.CNT(i)), node)
        r = fresh_bytes("ds")
        st.hyps.append(z3.And(r.n == c * 512, forall_k(r.n, lambda k: r.at(k) == self.DG(i, (s - self.OFF(i)) * 512 + k))))
        st.hyps.append(self.guest_of_extent(i))
        st.ghost["io"] = st.ghost.get("io", z3.IntVal(0)) + 520 * c
        return r


def _vmdk_read_sectors():
    sector0, count0 = z3.Ints("sector0 count0")

    def inv(eng, st):
        m = eng.model
        sector, count, acc, di = st.env["sector"].e, st.env["count"].e, st.env["sectors_read"].joined, st.env["disk_idx"].e
        st.anchor(sector0 * 512, cls="byte")
        return z3.And(sector >= sector0, sector + count == sector0 + count0, count >= 0, acc.n == (sector - sector0) * 512,
                      forall_k(acc.n, lambda k: acc.at(k) == m.G(sector0 * 512 + k)),
                      0 <= di, di <= m.n, z3.Implies(count > 0, z3.And(di < m.n, m.OFF(di) <= sector, sector < m.OFF(di + 1))),
                      st.ghost["io"] <= 520 * (sector - sector0))

    def post(eng, st, rv):
        m = eng.model
        r = ret_bytes(rv)
        return [("len", r.n == count0 * 512), ("content", forall_k(r.n, lambda k: r.at(k) == m.G(sector0 * 512 + k))), ("cost", st.ghost["io"] <= 520 * count0)]

    return FnContract(FILE, "VMDK.read_sectors", ["C02", "C08", "C10", "C13"], VmdkModel,
                      params=lambda m: {"self": ObjV("self"), "sector": IntV(sector0), "count": IntV(count0)},
                      requires=lambda m: m.hyps + [sector0 >= 0, count0 >= 0, sector0 + count0 <= m.total],
                      post=post, loops={("While", 0): LoopSpec(inv, lambda eng, st: st.env["count"].e)},
                      shifts=r"^(sectors_read_len)!", units=(512,),
                      note="number of extents, their sizes and the request symbolic; reads that cross extent boundaries and that end exactly at the end of the last extent")


def _vmdk_read_sectors_termination():
    """C11: no well-formedness of the extents (zero or negative sector counts from the descriptor, any request, also one that starts at or
    runs past the end of the last extent): the extent walk still terminates -- every iteration moves to the next extent, and indexing
    past the last one raises"""
    sector0, count0 = z3.Ints("sector0 count0")

    def mk():
        m = VmdkModel()
        m.hyps = [m.n >= 1]  # (bisect_right's contract speaks about a list of n - 1 offsets)
        return m

    def inv(eng, st):
        m = eng.model
        di = st.env.get("disk_idx")
        if di is None:
            return z3.BoolVal(False)  # no extent cursor is live at the loop head: the termination argument of this contract does not apply
        return z3.And(di.e >= 0, di.e <= m.n)

    return FnContract(FILE, "VMDK.read_sectors", ["C11"], mk,
                      params=lambda m: {"self": ObjV("self"), "sector": IntV(sector0), "count": IntV(count0)},
                      requires=lambda m: m.hyps, post=lambda eng, st, rv: [],
                      loops={("While", 0): LoopSpec(inv, lambda eng, st: eng.model.n - st.env["disk_idx"].e if "disk_idx" in st.env else z3.IntVal(-1))},
                      mode="termination", allow_any_exception=True,
                      note="variant: number of extents not yet visited (the step in sectors is descriptor-derived and may be zero); sector and count arbitrary integers")


class VmdkStreamModel(Model):
    def __init__(self):
        super().__init__()
        self.hyps = []
        self.size = self.int_field("self.size")
        self.total = self.int_field("self.sector_count")  # class invariant of VMDK.__init__: sum of the extents' sector counts
        self.G = z3.Function("DiskGuest", I, I)
        self.globals["SECTOR_SIZE"] = IntV(z3.IntVal(512))
        self.methods[("self", "read_sectors")] = self.read_sectors
        self.hyps += [self.total >= 0, self.size == self.total * 512]

    def read_sectors(self, eng, st, args, node):
        s, c = (eng.as_int(a, st, node) for a in args)
        eng.pre(st, z3.And(s >= 0, c >= 0, s + c <= self.total), node)
        r = fresh_bytes("rs")
        st.hyps.append(z3.And(r.n == c * 512, forall_k(r.n, lambda k: r.at(k) == self.G(s * 512 + k))))
        return r


def _vmdk_read():
    offset0, length0 = z3.Ints("offset0 length0")
    A, N = z3.Ints("A N")
    return FnContract(FILE, "VMDK._read", ["C02", "C08", "C10"], VmdkStreamModel,
                      params=lambda m: {"self": ObjV("self"), "offset": IntV(offset0), "length": IntV(length0)},
                      requires=lambda m: m.hyps + [A >= 0, N >= 1, offset0 == 512 * A, length0 == 512 * N, offset0 < m.size],
                      post=lambda eng, st, rv: lstream_post(rv, eng.model.G, offset0, length0, eng.model.size))


# ------------------------------------------------------------------------------------------------ grain lookup
class LookupModel(Model):
    """SparseDisk._lookup_grain: the grain table comes from _lookup_grain_table (list of raw entries or None)."""

    def __init__(self, sesparse):
        super().__init__()
        c = cvm()
        self.hyps = []
        self.sesparse = sesparse
        self.fields["self.is_sesparse"] = BoolV(z3.BoolVal(sesparse))
        self.gts = self.int_field("self._grain_table_size")
        self.obj_field("self.header")
        self.grains_offset = self.int_field("self.header.grains_offset", 0, U64, self.hyps)
        self.gsz = self.int_field("self.header.grain_size", 0, U64, self.hyps)
        self.globals["c_vmdk"] = ObjV("c_vmdk")
        for nm in ("SESPARSE_GRAIN_TYPE_MASK", "SESPARSE_GRAIN_TYPE_UNALLOCATED", "SESPARSE_GRAIN_TYPE_FALLTHROUGH", "SESPARSE_GRAIN_TYPE_ZERO", "SESPARSE_GRAIN_TYPE_ALLOCATED"):
            self.fields[f"c_vmdk.{nm}"] = IntV(z3.IntVal(int(getattr(c.c_vmdk, nm))))
        self.HAS = z3.Function("table_present", I, B)  # _lookup_grain_table(d) is not None (and non-empty)
        self.GTE = z3.Function("GTE", I, I, I)  # raw entry (directory index, table index)
        self.methods[("self", "_lookup_grain_table")] = self.lookup_table
        self._n = 0
        d, t = z3.Ints("td tt")
        self.hyps += [self.gts > 0, z3.ForAll([d, t], z3.And(self.GTE(d, t) >= 0, self.GTE(d, t) <= (U64 if sesparse else U32)))]

    def lookup_table(self, eng, st, args, node):
        d = eng.as_int(args[0], st, node)
        eng.pre(st, d >= 0, node)
        self._n += 1
        p = f"table!{self._n}"
        self.truthy[p] = self.HAS(d)
        self.items[p] = lambda eng, st, idx, node, d=d: self.table_item(eng, st, d, idx, node)
        return ObjV(p)

    def table_item(self, eng, st, d, idx, node):
        i = eng.as_int(idx, st, node)
        eng.pre(st, z3.And(i >= 0, i < self.gts), node)
        e = self.GTE(d, i)
        st.hyps.append(z3.And(e >= 0, e <= (U64 if self.sesparse else U32)))
        return IntV(e)

    def spec(self, grain):
        """SPEC: value of the grain's table entry as the reader's three-way code (0 unallocated, 1 zero, else first sector)"""
        q, r, fact = ediv(grain, self.gts)
        e = self.GTE(q, r)
        if not self.sesparse:
            return z3.If(self.HAS(q), e, 0), [fact]
        typ = e / (1 << 60)  # top nibble
        lo = e % (1 << 48)  # bits 0..47  -> cluster bits 12..59
        hi = (e / (1 << 48)) % (1 << 12)  # bits 48..59 -> cluster bits 0..11
        cluster = lo * 4096 + hi
        val = z3.If(z3.Or(typ == 0, typ == 1), 0, z3.If(typ == 2, 1, self.grains_offset + cluster * self.gsz))
        return z3.If(self.HAS(q), val, 0), [fact], typ


def _cluster_bridge(eng, st):
    """bridging lemma (R5): the two masked/shifted halves recombine to the specification's cluster number"""
    ge, cs = st.env["grain_entry"].e, st.env["cluster_sector"].e
    return cs == (ge % (1 << 48)) * 4096 + (ge / (1 << 48)) % (1 << 12)


def _lookup_grain(sesparse, repo="/repo"):
    import ast as _ast

    from pyvc.engine import find_function, stmt_ordinal

    g0 = z3.Int("grain0")
    ghost = {}
    if sesparse:
        try:
            node, _ = find_function(repo, FILE, "SparseDisk._lookup_grain")
            o = stmt_ordinal(node, lambda n: isinstance(n, _ast.Assign) and any(isinstance(t, _ast.Name) and t.id == "cluster_sector" for t in n.targets))
            if o is not None:
                ghost[o] = _cluster_bridge
        except Unsupported:
            pass

    def post(eng, st, rv):
        m = eng.model
        sp = m.spec(g0)
        for f in sp[1]:
            st.hyps.append(f)
        return [("three_way_code", eng.as_int(rv, st, None) == sp[0])]

    def raises_cond(eng, st):
        m = eng.model
        sp = m.spec(g0)
        for f in sp[1]:
            st.hyps.append(f)
        q, r, _ = ediv(g0, m.gts)
        return z3.And(m.HAS(q), sp[2] > 3)  # ValueError only for a type nibble outside {0,1,2,3}

    return FnContract(FILE, "SparseDisk._lookup_grain", ["C02", "C07", "C13"], lambda: LookupModel(sesparse),
                      params=lambda m: {"self": ObjV("self"), "grain": IntV(g0)},
                      requires=lambda m: m.hyps + [g0 >= 0], post=post,
                      raises={"ValueError": raises_cond} if sesparse else {}, case="sesparse" if sesparse else "hosted/cowd", ghost_asserts=ghost,
                      note="SE-sparse entry decoding with 64-bit masks as constant-operand rewrites; cluster numbers above 2^32 are the default domain (mathematical integers)")


# ------------------------------------------------------------------------------------------------ grain table lookup
class TableModel(Model):
    def __init__(self, sesparse):
        super().__init__()
        self.hyps = []
        self.sesparse = sesparse
        self.fsize, self.farr = self.file_field("self.fh", "fh")
        self.fields["self.is_sesparse"] = BoolV(z3.BoolVal(sesparse))
        self.gts = self.int_field("self._grain_table_size")  # entries per grain table
        self.obj_field("self.header")
        self.gt_sectors = self.int_field("self.header.grain_table_size", 0, U64, self.hyps)  # SE-sparse: table size in sectors
        self.gto = self.int_field("self.header.grain_tables_offset", 0, U64, self.hyps)
        self.obj_field("self._grain_directory")
        self.obj_field("self._grain_entry_type")
        self.GD = z3.Function("GD", I, I)
        self.ngd = z3.Int("len(self._grain_directory)")
        self.items["self._grain_directory"] = self.gd_item
        self.items["self._grain_entry_type"] = self.array_type
        self.globals["SECTOR_SIZE"] = IntV(z3.IntVal(512))
        self.width = 8 if sesparse else 4
        self.reads = []  # (position, entries) of table reads
        self._k = 0
        self.hyps += [self.gts >= 0, self.ngd >= 0, z3.ForAll([T], z3.And(self.GD(T) >= 0, self.GD(T) <= (U64 if sesparse else U32)))]
        if sesparse:
            self.hyps.append(self.gts * 8 == self.gt_sectors * 512)  # class invariant of SparseDisk.__init__

    def gd_item(self, eng, st, idx, node):
        i = eng.as_int(idx, st, node)
        eng.pre(st, i >= 0, node)
        eng.may_raise("IndexError", st, i < self.ngd, node)
        return IntV(self.GD(i))

    def array_type(self, eng, st, idx, node):
        n = eng.as_int(idx, st, node)
        self._k += 1
        p = f"arraytype!{self._k}"
        self.methods[(p, "__call__")] = lambda eng, st, args, node, n=n: self.read_array(eng, st, n, args, node)
        from pyvc.engine import BoundMethod

        return BoundMethod(ObjV(p), "__call__")

    def read_array(self, eng, st, n, args, node):
        # assumed cstruct contract: T[n](fh) reads n*len(T) bytes at the current position (EOFError on short data)
        fv = args[0]
        pos = eng.file_pos(st, fv.name)
        eng.may_raise("EOFError", st, pos + n * self.width <= self.fsize, node)
        st.filepos[fv.name] = pos + n * self.width
        st.ghost["io"] = st.ghost.get("io", z3.IntVal(0)) + n * self.width
        self._k += 1
        p = f"table!{self._k}"
        self.reads.append((p, pos, n))
        self.truthy[p] = n > 0
        return ObjV(p)


def _lookup_grain_table(sesparse):
    d0 = z3.Int("directory0")

    def post(eng, st, rv):
        m = eng.model
        e = m.GD(d0)
        if sesparse:
            # SPEC (QEMU vmdk.c): a directory entry is valid iff its top 32 bits are 0x10000000; the low 32 bits index the table
            valid = z3.And(e != 0, e / (1 << 32) == 0x10000000)
            idx = e % (1 << 32)
            want_pos = (m.gto + idx * m.gt_sectors) * 512
        else:
            valid = e != 0
            want_pos = e * 512
        if isinstance(rv, NoneV):
            return [("none_iff_invalid", z3.Not(valid))]
        pos, n = next((p, n) for (path, p, n) in m.reads if path == rv.path)
        return [("none_iff_invalid", valid), ("table_position", pos == want_pos), ("table_entries", n == m.gts), ("cost", st.ghost["io"] <= m.gts * m.width)]

    return FnContract(FILE, "SparseDisk._lookup_grain_table", ["C02", "C13"], lambda: TableModel(sesparse),
                      params=lambda m: {"self": ObjV("self"), "directory": IntV(d0)},
                      requires=lambda m: m.hyps + [d0 >= 0, d0 < m.ngd], post=post, raises={"EOFError": None},
                      case="sesparse" if sesparse else "hosted/cowd",
                      note="grain directory entry -> grain table position (SE-sparse: 0x10000000 tag, table index * table size in sectors)")


# ------------------------------------------------------------------------------------------------ compressed grain fetch
class GrainModel(Model):
    def __init__(self, embedded_lba):
        super().__init__()
        from pyvc import cstruct_ext

        c = cvm()
        self.hyps = []
        self.embedded = embedded_lba
        self.fsize, self.farr = self.file_field("self.fh", "fh")
        self.obj_field("self.header")
        self.gsz = self.int_field("self.header.grain_size", 0, U64, self.hyps)
        # flags: only the EMBEDDED_LBA bit matters here -> case parameter
        lba_bit = int(c.c_vmdk.SPARSEFLAG_EMBEDDED_LBA)
        self.fields["self.header.flags"] = IntV(z3.IntVal(lba_bit if embedded_lba else 0))
        self.globals["SECTOR_SIZE"] = IntV(z3.IntVal(512))
        self.globals["c_vmdk"] = ObjV("c_vmdk")
        self.globals["zlib"] = ObjV("zlib")
        self.fields["c_vmdk.SPARSEFLAG_EMBEDDED_LBA"] = IntV(z3.IntVal(lba_bit))
        self.methods[("c_vmdk", "SparseGrainLBAHeaderOnDisk")] = lambda eng, st, args, node: cstruct_ext.parse_bytes(eng, st, self, c.c_vmdk.SparseGrainLBAHeaderOnDisk, "<", args[0], node)
        self.methods[("c_vmdk", "uint32")] = self.u32
        self.methods[("zlib", "decompressobj")] = lambda eng, st, args, node: ObjV("dobj")
        self.methods[("dobj", "decompress")] = self.inflate
        self.inflated = []
        self.hyps += [self.fsize >= 0, byte_range_axiom(self.farr)]

    def u32(self, eng, st, args, node):
        b = args[0]
        eng.may_raise("EOFError", st, b.n >= 4, node)
        return IntV(le(b.at, z3.IntVal(0), 4))

    def inflate(self, eng, st, args, node):
        data = args[0]
        mx = eng.as_int(args[1], st, node) if len(args) > 1 else None
        if mx is None:
            eng.ob("inflate.bounded", st, z3.BoolVal(False), node)
        r = fresh_bytes("inflated")
        st.hyps.append(z3.And(r.n >= 0, r.n <= (mx if mx is not None else z3.IntVal(1 << 62))))
        st.ghost["inflated"] = st.ghost.get("inflated", ()) + ((data, mx, r),)
        return r


def _read_compressed_grain(embedded):
    s0 = z3.Int("sector0")

    def post(eng, st, rv):
        m = eng.model
        hl = 12 if embedded else 4
        at = lambda i: z3.Select(m.farr, i)  # noqa: E731
        # SPEC (technote, stream-optimized grains): marker = [lba u64][size u32][deflate data] (or [size u32][data] without embedded LBA)
        cl = le(at, s0 * 512 + (8 if embedded else 0), 4)
        if not st.ghost.get("inflated"):
            raise Unsupported("no inflate call found on this path")
        data, mx, r = st.ghost["inflated"][-1]
        return [("input_length", data.n == cl), ("input_is_the_grain_payload", forall_k(data.n, lambda k: data.at(k) == at(s0 * 512 + hl + k))),
                ("output_bounded_by_grain", z3.And(mx == m.gsz * 512 if mx is not None else z3.BoolVal(False), ret_bytes(rv).n <= m.gsz * 512)),
                ("cost", st.ghost["io"] <= 512 + zmax(z3.IntVal(0), hl + cl - 512))]

    hl = 12 if embedded else 4
    return FnContract(FILE, "SparseDisk._read_compressed_grain", ["C02", "C08", "C11", "C13"], lambda: GrainModel(embedded),
                      params=lambda m: {"self": ObjV("self"), "sector": IntV(s0)},
                      # wf: the grain marker and its payload lie inside the file
                      requires=lambda m: m.hyps + [s0 >= 0, s0 * 512 + 512 <= m.fsize,
                                                   s0 * 512 + hl + le(lambda i: z3.Select(m.farr, i), s0 * 512 + (8 if embedded else 0), 4) <= m.fsize],
                      post=post, case="embedded-lba" if embedded else "plain-marker", shifts=r"^$",
                      note="proves what the assumed contract used by read_sectors relies on: the inflate input is exactly the stored payload, the output is bounded by the grain size, and the fetch costs one sector plus the payload")


replay = make_replay("vmdk")
bounded = make_bounded("vmdk", "vmdk.small_scope", quick_specs=40, thorough_specs=300)


def trusted(pid):
    return ["A3 file objects", "A3 zlib.decompress == inflate; a stored compressed grain inflates to exactly grain_size*512 bytes (assumed contract of _read_compressed_grain)",
            "A3 bisect.bisect_right on a sorted list", "A3 lru_cache transparent for _lookup_grain_table", "A6 well-formed extents (grain size > 0, allocated grains inside the file, extents contiguous in declared order)"]


def contracts(repo):
    return [_get_runs("functional"), _read_sectors(repo), _raw_read_sectors(), _vmdk_read_sectors(), _vmdk_read(), _get_runs("termination"), _vmdk_read_sectors_termination(),
            _lookup_grain(False, repo), _lookup_grain(True, repo), _lookup_grain_table(False), _lookup_grain_table(True), _read_compressed_grain(True), _read_compressed_grain(False), _raw_init()]




