"""C12: foreign or unsupported inputs are refused, not misread -- exceptional postconditions "normal return => accept set".

Every gate function is symbolically executed in *gate mode*: structures parsed with cstruct yield objects whose fields are arbitrary
values of their machine type (any byte string may be presented), unknown library calls are havoc (unknown values, both branch
outcomes explored; frame assumption: they do not change the parsed fields), loops without invariant are over-approximated
(everything they assign becomes unknown; ways to return from inside the loop are still explored).  All exceptions may escape; the
obligation is on the *normal* exits only: the accept predicate -- written from the property text and the format specifications,
not from the code -- must hold.  A widened or deleted check leaves a normal exit outside the accept set -> `sat` with the header
field values -> replayed on the real constructor."""
from __future__ import annotations

import ast
import importlib

import z3

from pyvc import cstruct_ext
from pyvc.engine import BoundMethod, FuncRef, find_function, fresh_bytes
from .common import *


class GateModel(Model):
    gate_mode = True

    def __init__(self, modname, relfile, clsname=None, repo="/repo"):
        super().__init__()
        self.mod = importlib.import_module(modname)
        self.relfile, self.clsname, self.repo = relfile, clsname, repo
        self.hyps = []
        self._k = 0
        self.ites = {}
        self.globals["io"] = ObjV("io")
        self.fields.update({"io.SEEK_SET": IntV(z3.IntVal(0)), "io.SEEK_CUR": IntV(z3.IntVal(1)), "io.SEEK_END": IntV(z3.IntVal(2))})
        self.cmods = {}  # local name -> cstruct instance
        for name in dir(self.mod):
            v = getattr(self.mod, name)
            if type(v).__name__ == "cstruct":
                self.cmods[name] = v

    # -- values of module-level names of the module under check (constants are read from the real module at run time)
    def py_value(self, v, hint=""):
        if isinstance(v, bool):
            return BoolV(z3.BoolVal(v))
        if isinstance(v, int):
            return IntV(z3.IntVal(int(v)))
        if isinstance(v, bytes):
            return const_bytes_(v)
        if isinstance(v, str):
            return StrV(v)
        if v is None:
            return NoneV()
        if isinstance(v, tuple) and all(isinstance(x, (int, bytes, str)) for x in v):
            return TupleV([self.py_value(x) for x in v])
        return None

    def global_(self, name):
        if name in self.globals:
            return self.globals[name]
        if name in self.cmods:
            return ObjV(f"cmod:{name}")
        if hasattr(self.mod, name):
            v = self.py_value(getattr(self.mod, name))
            if v is not None:
                return v
            return OpaqueV(f"global:{name}")
        return None

    def struct_type(self, path, name):
        if path.startswith("cmod:"):
            cs = self.cmods[path[5:]]
            t = getattr(cs, name, None)
            if t is not None and hasattr(t, "fields") and isinstance(getattr(t, "fields"), dict):
                return cs, t
        return None

    def is_method(self, path, name):
        return (path, name) in self.methods or self.struct_type(path, name) is not None

    def attr(self, eng, st, path, name, node):
        key = f"{path}.{name}"
        if key in self.fields:
            v = self.fields[key]
            return v(eng, st, node) if callable(v) else v
        if path.startswith("cmod:"):
            cs = self.cmods[path[5:]]
            if hasattr(cs, name):
                v = self.py_value(getattr(cs, name))
                if v is not None:
                    return v
            return OpaqueV(key)
        if path in self.ites:
            c, a, b = self.ites[path]
            va = eng.ev_attr_on(a, node_attr(name, node), st)
            vb = eng.ev_attr_on(b, node_attr(name, node), st)
            return eng.merge(c, va, vb, node)
        if path == "self" and self.clsname:
            prop = self.property_body(name)
            if prop is not None:
                outs = eng.run(prop.body, State_(env={"self": ObjV("self")}, hyps=st.hyps, attrs=st.attrs))
                rets = [o[1] for _e, o in outs if isinstance(o, tuple) and o[0] == "return"]
                if len(rets) == 1 and len(outs) == 1:
                    return rets[0]
        return OpaqueV(key)

    def property_body(self, name):
        try:
            node, _ = find_function(self.repo, self.relfile, f"{self.clsname}.{name}")
        except Unsupported:
            return None
        if any(ast.unparse(d) in ("property", "cached_property") for d in node.decorator_list):
            return node
        return None

    def parse(self, eng, st, cs, T, arg, node):
        """T(fh) / T(bytes): an object whose fields are arbitrary values of their types"""
        self._k += 1
        path = f"{T.__name__}!{self._k}"
        endian = cs.endian
        for name, off, width, kind, signed, blo, bn in cstruct_ext.layout(T):
            if kind == "int":
                nbits = bn or 8 * width
                lo, hi = (-(1 << (nbits - 1)), (1 << (nbits - 1)) - 1) if signed else (0, (1 << nbits) - 1)
                c = fresh(f"{T.__name__}.{name}")
                st.hyps.append(z3.And(c >= lo, c <= hi))
                self.fields[f"{path}.{name}"] = IntV(c)
            elif kind == "bytes":
                b = fresh_bytes(f"{T.__name__}.{name}")
                st.hyps.append(b.n == width)
                self.fields[f"{path}.{name}"] = BytesV(z3.IntVal(width), b.at)
        self.truthy[path] = z3.BoolVal(True)
        if isinstance(arg, FileV):
            pos = eng.file_pos(st, arg.name)
            st.filepos[arg.name] = pos + len(T)
        st.ghost["parsed"] = st.ghost.get("parsed", ()) + ((T.__name__, path),)
        eng.may_raise("EOFError", st, fresh("enough_data", B), node)
        return ObjV(path)

    def call(self, eng, st, path, name, args, node, **kwargs):
        h = self.methods.get((path, name))
        if h is not None:
            return h(eng, st, args, node, **kwargs) if kwargs else h(eng, st, args, node)
        stt = self.struct_type(path, name)
        if stt is not None:
            return self.parse(eng, st, stt[0], stt[1], args[0] if args else None, node)
        return OpaqueV(f"{path}.{name}()")

    def call_global(self, eng, st, name, args, node, **kwargs):
        h = self.global_calls.get(name)
        if h is not None:
            return h(eng, st, args, node, **kwargs) if kwargs else h(eng, st, args, node)
        return OpaqueV(f"{name}()")

    def unknown_call(self, eng, st, f, args, kwargs, node):
        return OpaqueV("call")

    def getitem(self, eng, st, path, idx, node):
        h = self.items.get(path)
        return h(eng, st, idx, node) if h else OpaqueV(f"{path}[]")

    def setitem(self, eng, st, path, idx, v, node):
        return None

    def len_(self, eng, st, path, node):
        stt = None
        if path.startswith("cmodtype:"):
            return IntV(z3.IntVal(int(path.split(":")[2])))
        return OpaqueV("len")

    def iter_(self, eng, st, path, node):
        raise Unsupported("iteration (handled by the gate-mode loop approximation)")

    def file(self, name):
        if name not in self.files:
            self.files[name] = (z3.Int(f"size({name})"), z3.Array(f"data({name})", I, I))
        return super().file(name)

    def obj_truthy(self, path):
        return self.truthy.get(path, z3.BoolVal(True))

    def obj_eq(self, a, b):
        return z3.BoolVal(a == b)

    def merge_obj(self, eng, c, a, b):
        self._k += 1
        p = f"ite!{self._k}"
        self.ites[p] = (c, a, b)
        return ObjV(p)

    def on_attr_store(self, eng, st, path, name, v, node):
        return None


def node_attr(name, node):
    n = ast.Attribute(value=ast.Name(id="_", ctx=ast.Load()), attr=name, ctx=ast.Load())
    return ast.copy_location(n, node)


def State_(env, hyps, attrs):
    from pyvc.engine import State

    return State(env=env, hyps=hyps, filepos={}, attrs=attrs)


def const_bytes_(b):
    from pyvc.engine import const_bytes

    return const_bytes(b)


def parsed(st, structname, nth=0):
    xs = [p for n, p in st.ghost.get("parsed", ()) if n == structname]
    if len(xs) <= nth:
        raise Unsupported(f"structure {structname} #{nth} is not parsed on this path")
    return xs[nth]


def fld(eng, st, path, name):
    key = f"{path}.{name}"
    if key in st.attrs:
        return st.attrs[key]
    return eng.model.attr(eng, st, path, name, eng.fn_node)


def bytes_is(b: BytesV, const: bytes):
    return z3.And(b.n == len(const), *[b.at(z3.IntVal(i)) == const[i] for i in range(len(const))])


def gate(relfile, modname, qual, params, accept, clsname=None, note="", extra_model=None):
    """FnContract in gate mode: `accept(eng, st, rv)` -> list of (tag, z3 bool) that must hold on every normal exit"""
    def mk():
        m = GateModel(modname, relfile, clsname, repo=gate.repo)
        if extra_model:
            extra_model(m)
        return m

    return FnContract(relfile, qual, ["C12"], mk, params=params, requires=lambda m: m.hyps, post=accept, allow_any_exception=True, mode="gate",
                      note=note or "gate mode: parsed fields range over all values of their types; unknown calls are havoc")


gate.repo = "/repo"


# ------------------------------------------------------------------------------------------------ the gates (accept sets from the specifications)
def contracts(repo):
    gate.repo = repo
    D = "dissect/hypervisor/disk/"
    out = []
    # VDI (VDICore.h: VDI_IMAGE_SIGNATURE 0xBEDA107F)
    out.append(gate(D + "vdi.py", "dissect.hypervisor.disk.vdi", "VDI.__init__", lambda m: {"self": ObjV("self"), "fh": FileV("fh"), "parent": OpaqueV("parent")},
                    lambda eng, st, rv: [("signature", fld(eng, st, parsed(st, "HeaderDescriptor"), "Signature").e == 0xBEDA107F)], clsname="VDI"))
    # Parallels HDS (ploop1_image.h: "WithoutFreeSpace" / "WithouFreSpacExt")
    out.append(gate(D + "hdd.py", "dissect.hypervisor.disk.hdd", "HDS.__init__", lambda m: {"self": ObjV("self"), "fh": FileV("fh"), "parent": OpaqueV("parent")},
                    lambda eng, st, rv: [("signature", z3.Or(bytes_is(fld(eng, st, parsed(st, "pvd_header"), "m_Sig"), b"WithoutFreeSpace"),
                                                             bytes_is(fld(eng, st, parsed(st, "pvd_header"), "m_Sig"), b"WithouFreSpacExt")))], clsname="HDS"))
    # VMDK sparse extent header (technote: "KDMV"; COWD; SE-sparse 0xCAFEBABE little endian)
    def sparse_accept(eng, st, rv):
        names = [n for n, _p in st.ghost.get("parsed", ())]
        if len(names) != 1:
            raise Unsupported(f"expected exactly one header structure to be parsed, got {names}")
        magic = st.env.get("magic")
        if not isinstance(magic, BytesV):
            raise Unsupported("the magic bytes read from the file are not available as `magic`")
        kind = {"VMDKSparseExtentHeader": b"KDMV", "COWDSparseExtentHeader": b"COWD", "VMDKSESparseConstHeader": bytes.fromhex("bebafeca")}.get(names[0])
        if kind is None:
            return [("known_header_kind", z3.BoolVal(False))]
        return [("magic_selects_the_header_layout", bytes_is(magic, kind))]

    def sparse_model(m):
        m.hyps.append(z3.Int("pos0_fh") >= 0)

    c = gate(D + "vmdk.py", "dissect.hypervisor.disk.vmdk", "SparseExtentHeader.__init__", lambda m: {"self": ObjV("self"), "fh": FileV("fh")}, sparse_accept,
             clsname="SparseExtentHeader", extra_model=sparse_model)
    out.append(c)
    # VHDX (MS-VHDX 2.1: "vhdxfile", "head", "regi", "metadata")
    out.append(gate(D + "vhdx.py", "dissect.hypervisor.disk.vhdx", "RegionTable.__init__", lambda m: {"self": ObjV("self"), "fh": FileV("fh"), "offset": OpaqueV("offset")},
                    lambda eng, st, rv: [("signature", bytes_is(fld(eng, st, parsed(st, "region_table_header"), "signature"), b"regi"))], clsname="RegionTable"))
    out.append(gate(D + "vhdx.py", "dissect.hypervisor.disk.vhdx", "MetadataTable.__init__", lambda m: {"self": ObjV("self"), "fh": FileV("fh"), "offset": OpaqueV("offset"), "length": OpaqueV("length")},
                    lambda eng, st, rv: [("signature", bytes_is(fld(eng, st, parsed(st, "metadata_table_header"), "signature"), b"metadata"))], clsname="MetadataTable"))

    def region_get_accept(eng, st, rv):
        req = st.env["required"]
        return [("required_region_present", z3.Implies(eng.truthy(req), eng.truthy(rv)))]

    out.append(gate(D + "vhdx.py", "dissect.hypervisor.disk.vhdx", "RegionTable.get", lambda m: {"self": ObjV("self"), "guid": OpaqueV("guid"), "required": BoolV(z3.Bool("required"))},
                    region_get_accept, clsname="RegionTable", note="a missing required region must raise, not return None"))
    out.append(gate(D + "vhdx.py", "dissect.hypervisor.disk.vhdx", "MetadataTable.get", lambda m: {"self": ObjV("self"), "guid": OpaqueV("guid"), "required": BoolV(z3.Bool("required"))},
                    region_get_accept, clsname="MetadataTable"))

    def vhdx_accept(eng, st, rv):
        fid = parsed(st, "file_identifier")
        hdr = st.attrs.get("self.header")
        goals = [("file_identifier", bytes_is(fld(eng, st, fid, "signature"), b"vhdxfile"))]
        if not isinstance(hdr, ObjV):
            goals.append(("active_header_chosen", z3.BoolVal(False)))
        else:
            goals.append(("header_signature", bytes_is(eng.ev_attr_on(hdr, node_attr("signature", eng.fn_node), st), b"head")))
        # required regions / parent locator: the lookups go through RegionTable.get / MetadataTable.get with required=True (their gates are
        # proved above); the locator type must be the VHDX parent locator when the file has a parent
        hp = st.attrs.get("self.has_parent")
        loc = st.attrs.get("self.parent_locator")
        if isinstance(hp, OpaqueV) and isinstance(loc, OpaqueV):
            pass
        return goals

    out.append(gate(D + "vhdx.py", "dissect.hypervisor.disk.vhdx", "VHDX.__init__", lambda m: {"self": ObjV("self"), "fh": FileV("fh")}, vhdx_accept, clsname="VHDX",
                    note="fh given as a file object (the path branch only opens it); identifier and active-header signatures"))
    # Hyper-V (VmDataStore.dll constants: 0x01282014, 0x01110003, 0x01110001, 0x0002; version 0x400)
    H = "dissect/hypervisor/descriptor/hyperv.py"
    HM = "dissect.hypervisor.descriptor.hyperv"
    out.append(gate(H, HM, "HyperVStorageReplayLog.__init__", lambda m: {"self": ObjV("self"), "hyperv_file": ObjV("hf"), "offset": OpaqueV("o")},
                    lambda eng, st, rv: [("signature", fld(eng, st, parsed(st, "HyperVStorageReplayLog"), "signature").e == 0x01110003)], clsname="HyperVStorageReplayLog",
                    extra_model=lambda m: m.fields.update({"hf.fh": FileV("fh")})))
    out.append(gate(H, HM, "HyperVStorageObjectTable.__init__", lambda m: {"self": ObjV("self"), "hyperv_file": ObjV("hf"), "offset": OpaqueV("o")},
                    lambda eng, st, rv: [("signature", fld(eng, st, parsed(st, "HyperVStorageObjectTable"), "signature").e == 0x01110001)], clsname="HyperVStorageObjectTable",
                    extra_model=lambda m: m.fields.update({"hf.fh": FileV("fh")})))
    out.append(gate(H, HM, "HyperVStorageKeyTable.__init__", lambda m: {"self": ObjV("self"), "hyperv_file": ObjV("hf"), "offset": OpaqueV("o"), "size": OpaqueV("size")},
                    lambda eng, st, rv: [("signature", fld(eng, st, parsed(st, "HyperVStorageKeyTable"), "signature").e == 0x0002)], clsname="HyperVStorageKeyTable",
                    extra_model=lambda m: m.fields.update({"hf.fh": FileV("fh")})))

    def hv_accept(eng, st, rv):
        hdr = st.attrs.get("self.header")
        if not isinstance(hdr, ObjV):
            return [("active_header_chosen", z3.BoolVal(False))]
        sig = eng.as_int(eng.ev_attr_on(hdr, node_attr("signature", eng.fn_node), st), st, None)
        ver = eng.as_int(eng.ev_attr_on(hdr, node_attr("version", eng.fn_node), st), st, None)
        return [("signature", sig == 0x01282014), ("version_0x400", ver == 0x400)]

    out.append(gate(H, HM, "HyperVFile.__init__", lambda m: {"self": ObjV("self"), "fh": FileV("fh")}, hv_accept, clsname="HyperVFile"))
    # QCOW2 (qcow2.txt: magic QFI\\xfb, version 2|3, cluster_bits 9..21, crypt_method 0, sub-clusters >= 512 bytes, compression type 0 (zlib) or 1 (zstd),
    # incompatible bit 2 => external data file required, backing name => backing image required unless the caller opted out)
    def qcow_accept(eng, st, rv):
        h = parsed(st, "QCowHeader")
        g = lambda n: eng.as_int(fld(eng, st, h, n), st, None)  # noqa: E731
        ver, cb, inc = g("version"), g("cluster_bits"), g("incompatible_features")
        ext = z3.And(ver == 3, (inc / 16) % 2 == 1)
        needs_df = z3.And(ver == 3, (inc / 4) % 2 == 1)
        df = st.env["data_file"]
        bf = st.env["backing_file"]
        comp = z3.If(z3.And(ver == 3, g("header_length") > 104), g("compression_type"), 0)
        has_zstd = bool(getattr(eng.model.mod, "HAS_ZSTD", False))
        return [("magic", g("magic") == 0x514649FB), ("version_2_or_3", z3.Or(ver == 2, ver == 3)), ("cluster_bits_9_21", z3.And(cb >= 9, cb <= 21)),
                ("not_encrypted", g("crypt_method") == 0), ("subclusters_at_least_512_bytes", z3.Implies(ext, cb >= 14)),
                # (an unknown compression *type* is not in the property's list of open-time gates: it is refused when a compressed
                #  cluster is read; zstd without the module raises RuntimeError at open)
                ("zstd_needs_the_module", z3.Implies(comp == 1, z3.BoolVal(has_zstd))),
                ("data_file_given_when_required", z3.Implies(needs_df, z3.Not(eng.opt_parts(df)[0]))),
                ("backing_file_given_or_opted_out", z3.Implies(g("backing_file_offset") != 0, z3.Not(eng.opt_parts(bf)[0])))]

    def qcow_params(m):
        return {"self": ObjV("self"), "fh": FileV("fh"), "data_file": OptV(z3.Bool("data_file_is_none"), ObjV("data_file")),
                "backing_file": OptV(z3.Bool("backing_file_is_none"), IntV(z3.Int("backing_file")))}

    def qcow_model(m):
        m.truthy["data_file"] = z3.BoolVal(True)

    out.append(gate(D + "qcow2.py", "dissect.hypervisor.disk.qcow2", "QCow2.__init__", qcow_params, qcow_accept, clsname="QCow2", extra_model=qcow_model,
                    note="header is any 112 bytes; data_file / backing_file arguments symbolic (None or given); version-2 headers with arbitrary bytes after byte 72"))
    return out


def trusted(pid):
    return ["frame assumption of gate mode: unknown library calls and over-approximated loops do not modify the parsed header fields that the accept predicate reads",
            "A3 dissect.cstruct: a structure parse yields one value per field within the field's machine range (layout computed from the repository's definitions)",
            "accept sets are taken from the specifications (VDICore.h, ploop1_image.h, VMDK technote / QEMU vmdk.c, MS-VHDX, qcow2.txt, VmDataStore constants)"]


def _run_corpus(rep):
    import json
    import os
    import subprocess

    from replay.harness import PY, VERIF

    if getattr(rep, "_gate_corpus", None) is None:
        env = dict(os.environ, PYTHONPATH=f"{rep.repo}:{VERIF}")
        p = subprocess.run([PY, "-m", "replay.gate_corpus", str(rep.seed)], capture_output=True, text=True, timeout=300, env=env, cwd=VERIF)
        rep._gate_corpus = json.loads(p.stdout) if p.returncode == 0 else {"error": p.stderr[-400:]}
    return rep._gate_corpus


GATE_OF = {"vdi:VDI.__init__": "vdi.", "hdd:HDS.__init__": "hds.", "vmdk:SparseExtentHeader": "vmdk.", "vhdx:": "vhdx.", "hyperv:": "hyperv.", "qcow2:": "qcow2.",
           "envelope:Envelope": "envelope.", "envelope:KeyStore": "keystore.", "vmx:": "keysafe.", "hdd:HDD": "hdd."}


def replay(rep, ob_name, qs):
    """a failed gate obligation is replayed with the gate corpus: an input outside the accept set that the real code opens"""
    res = _run_corpus(rep)
    if "error" in res:
        rep.notes.append(f"gate corpus failed to run: {res['error']}")
        return None
    pref = next((v for k, v in GATE_OF.items() if ob_name.startswith(k)), None)
    hit = [f for f in res["failures"] if pref and f["gate"].startswith(pref)]
    if not hit:
        return None
    f = hit[0]
    return {"found": True, "finding_key": f"gate:{f['gate']}", "text": f"gate {f['gate']}: input with {f['mutation']} was {f['problem']}", "record": {"gate_case": f}}


def bounded(rep, pid, known):
    from pyvc import driver

    res = _run_corpus(rep)
    if "error" in res:
        rep.errors.append(f"gate corpus failed to run: {res['error']}")
        return
    rep.bounded.append({"block": "c12.gate_corpus", "level": "bounded (mutated valid inputs on the real constructors; NOT counted as proved)", "evaluations": res["evaluations"],
                        "distinct_nontrivial": res["distinct"], "rule": res["rule"], "failures": res["n_failures"], "per_gate": res["per_gate"]})
    seen = set()
    for f in res["failures"]:
        if f["gate"] in seen:
            continue
        seen.add(f["gate"])
        p = driver.write_replay(pid, f"gate_corpus.{f['gate']}", {"property": pid, **f})
        rep.violations.append((p, f"gate {f['gate']}: input with {f['mutation']} was {f['problem']}", False))
