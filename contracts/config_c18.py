"""Contracts for the VM configuration descriptors (C18): descriptor/vmx.py (dictionary + disks), ovf.py, vbox.py, pvs.py.

The semantics of this property live in `str` methods and ElementTree XPath evaluation, for which neither z3 nor cvc5 decided the string
VCs (DESIGN A.13).  What *is* discharged deductively here is the plumbing around those library calls, on the real code, by symbolic
execution with *uninterpreted* strings/elements: every library call on an unknown value yields an unknown value named by the call
chain that produced it (e.g. line.strip().partition('=')#2.strip(' "')), branch conditions on unknown values are unknown Booleans,
and the obligations say which chain is stored/yielded under which condition, and that the XPath / namespace constants are the
specified ones.  So the proved statements are of the form "the value reported is exactly <spec chain> of the input, exactly when
<spec condition>", with str/ElementTree semantics assumed (A3).  The end-to-end statement over concrete configurations is the
bounded block (replay/config_corpus.py), labelled bounded."""
from __future__ import annotations

import ast
import importlib

import z3

from pyvc import driver
from pyvc.engine import Engine, State, find_function
from .common import *

VMXF = "dissect/hypervisor/descriptor/vmx.py"
OVFF = "dissect/hypervisor/descriptor/ovf.py"
VBOXF = "dissect/hypervisor/descriptor/vbox.py"
PVSF = "dissect/hypervisor/descriptor/pvs.py"
OVF_NS = {"ovf": "http://schemas.dmtf.org/ovf/envelope/1", "rasd": "http://schemas.dmtf.org/wbem/wscim/1/cim-schema/2/CIM_ResourceAllocationSettingData"}


class FragModel(Model):
    """uninterpreted strings / elements; records stores into unknown dicts, list appends and yields as ghost events"""

    def __init__(self, consts=None):
        super().__init__()
        self.events = []
        for k, v in (consts or {}).items():
            self.fields[k] = v

    def on_opaque_store(self, eng, st, base, idx, v, node):
        st.ghost["events"] = st.ghost.get("events", ()) + (("store", describe_(base), describe_(idx), describe_(v)),)

    def on_list_append(self, eng, st, name, x, node):
        st.ghost["events"] = st.ghost.get("events", ()) + (("append", name, describe_(x)),)

    def on_attr_store(self, eng, st, path, name, v, node):
        return None


def describe_(v):
    from pyvc.engine import describe

    return describe(v)


def sat(hyps):
    s = z3.Solver()
    s.add(*hyps)
    return s.check() != z3.unsat


def implies(hyps, goal):
    return not sat(list(hyps) + [z3.Not(goal)])


def run_body(repo, file, qual, body, env, model, allow="*"):
    node, _ = find_function(repo, file, qual)
    eng = Engine(model, f"{file.rsplit('/', 1)[-1][:-3]}:{qual}", node, allow_exc=allow, on_yield=lambda e, st, v, s: st.ghost.__setitem__("events", st.ghost.get("events", ()) + (("yield", describe_(v)),)))
    st = State(env=dict(env), hyps=[], filepos={})
    return node, eng, eng.run(body(node), st)


def truth_of(eng, tag):
    o = eng.opaque_calls.get(tag)
    return None if o is None else eng.truthy(o)


def record(rep, pid, name, ok, why, line, fn_desc=None):
    rep.obligations[name] = {"verdict": "discharged" if ok else "undischarged", "atoms": 1, "ms": 0, "backends": {"z3-5.1"}, "stages": set(), "line": line, "props": ["C18"]}
    if not ok:
        r = replay(rep, name, None)
        p = driver.write_replay(pid, name, {"property": pid, "obligation": name, "verifier_output": why, **({"replayed": r["record"]} if r else {})})
        rep.violations.append((p, f"{name}: {why}" + (f" -- replayed: {r['text']}" if r else ""), r is None))


def check_parse_dictionary(rep, pid):
    """_parse_dictionary, loop body for an arbitrary line: blank lines and lines starting with '#' are skipped; otherwise exactly one
    store  dictionary[<key part>.strip().lower()] = <value part>.strip(' "')  where (key, _, value) = line.strip().partition('=');
    the loop runs over string.split('\\n') and the dictionary is what is returned (a dict: the last store of a key wins)"""
    name = "vmx:_parse_dictionary/line_loop"
    node, _ = find_function(rep.repo, VMXF, "_parse_dictionary")
    loops = [n for n in node.body if isinstance(n, ast.For)]
    why = []
    if len(loops) != 1 or not isinstance(loops[0].target, ast.Name):
        raise Unsupported("expected one top-level for loop over the lines")
    loop = loops[0]
    m = FragModel()
    eng = Engine(m, "vmx:_parse_dictionary", node, allow_exc="*")
    st = State(env={"string": OpaqueV("string")}, hyps=[], filepos={})
    pre = [s_ for s_ in node.body if s_ is not loop and node.body.index(s_) < node.body.index(loop)]
    (st0, _o), = eng.run(pre, st)
    dname = next((t.id for s_ in pre if isinstance(s_, ast.Assign) and isinstance(s_.value, ast.Dict) for t in s_.targets if isinstance(t, ast.Name)), None)
    if dname is None or not (isinstance(node.body[-1], ast.Return) and ast.unparse(node.body[-1].value) == dname):
        why.append("the function does not return the dictionary it fills")
    it = eng.ev(loop.iter, st0)
    if describe_(it) != "string.split('\\n')":
        why.append(f"lines come from {describe_(it)}, specified: string.split('\\n')")
    st0.env[loop.target.id] = OpaqueV("line")
    L2 = "line.strip()"
    KEY, VAL = f"{L2}.partition('=')#0.strip().lower()", f"{L2}.partition('=')#2.strip(' \"')"
    n_store = 0
    for e, out in eng.run(loop.body, st0):
        ev = e.ghost.get("events", ())
        stripped = eng.opaque_calls.get(L2)
        comment = eng.opaque_calls.get(f"{L2}.startswith('#')")
        if stripped is None:
            why.append("the line is not stripped before it is examined")
            break
        blank_or_comment = z3.Or(z3.Not(eng.truthy(stripped)), eng.truthy(comment) if comment is not None else z3.BoolVal(False))
        if not ev:
            if not implies(e.hyps, blank_or_comment):
                why.append("a line that is neither blank nor a comment is dropped")
        elif len(ev) == 1 and ev[0][0] == "store":
            n_store += 1
            _, base, k, v = ev[0]
            if (k, v) != (KEY, VAL):
                why.append(f"stores [{k}] = {v}; specified [{KEY}] = {VAL}")
            if comment is None or not implies(e.hyps, z3.Not(blank_or_comment)):
                why.append("a blank line or a comment line is stored")
        else:
            why.append(f"unexpected effects for one line: {ev}")
    if n_store == 0:
        why.append("no path stores an entry")
    rep.functions.append({"function": f"{VMXF}:_parse_dictionary (line loop body + function shape)", "contract": check_parse_dictionary.__doc__.strip()[:200], "props": ["C18"]})
    record(rep, pid, name, not why, "; ".join(sorted(set(why))), node.lineno)


def check_vmx_disks(rep, pid):
    """VMX.disks: (a) grouping, for an arbitrary (key, value) and each of the four bus classes: a key is filed iff key.startswith(class)
    (and has a '.'), under devices[class][<device part>.lstrip(class)][<property part>] = value with (device, property) =
    key.split('.', 1), and the first matching class ends the search; (b) filter, for arbitrary device properties: the 'filename' is
    appended iff it is non-empty and ('devicetype' is absent/empty or contains 'disk' case-insensitively); (c) the result is
    sorted(disk_files)"""
    name_a, name_b = "vmx:VMX.disks/grouping", "vmx:VMX.disks/disk_filter"
    node, _ = find_function(rep.repo, VMXF, "VMX.disks")
    fors = [n for n in node.body if isinstance(n, ast.For)]
    if len(fors) != 2:
        raise Unsupported("expected the grouping loop and the filter loop")
    g_loop, f_loop = fors
    why = []
    # (a)
    classes = next((s_.value for s_ in node.body if isinstance(s_, ast.Assign) and ast.unparse(s_.targets[0]) == "dev_classes"), None)
    if classes is None or sorted(ast.literal_eval(classes)) != ["ide", "nvme", "sata", "scsi"]:
        why.append("the bus classes are not exactly scsi, sata, ide, nvme")
    if ast.unparse(g_loop.iter) != "self.attr.items()":
        why.append("the grouping loop does not run over self.attr.items()")
    inner = [n for n in g_loop.body if isinstance(n, ast.For)]
    if len(inner) != 1 or ast.unparse(inner[0].iter) != "dev_classes":
        raise Unsupported("expected `for dev_class in dev_classes` inside the grouping loop")
    for cls in (ast.literal_eval(classes) if classes is not None else ()):
        m = FragModel()
        eng = Engine(m, "vmx:VMX.disks", node, allow_exc="*")
        st = State(env={"self": ObjV("self"), "vm_setting": OpaqueV("key"), "value": OpaqueV("value"), "devices": OpaqueV("devices"), inner[0].target.id: StrV(cls)}, hyps=[], filepos={})
        want = ("store", f"devices.setdefault({cls!r}, dict).setdefault(key.split('.', 1)#0.lstrip({cls!r}), dict)", "key.split('.', 1)#1", "value")
        for e, out in eng.run(inner[0].body, st):
            ev = e.ghost.get("events", ())
            starts = truth_of(eng, f"key.startswith({cls!r})")
            if starts is None:
                why.append(f"{cls}: membership of a key in a bus class is not decided by key.startswith(class)")
                break
            if ev:
                if ev != (want,):
                    why.append(f"{cls}: files {ev}; specified {want}")
                if out != "break":
                    why.append(f"{cls}: after a key has been filed the remaining classes are still tried")
                if not implies(e.hyps, starts):
                    why.append(f"{cls}: a key that does not start with the class name is filed")
            else:
                dotted = OpaqueV  # noqa: F841
                # not filed: only if it does not start with the class name, or has no '.' (no device property)
                k = st.env["vm_setting"]
                has_dot = k.memo.get(("inr", "."))
                cond = z3.Not(starts) if has_dot is None else z3.Or(z3.Not(starts), z3.Not(has_dot))
                if not implies(e.hyps, cond):
                    why.append(f"{cls}: a key of this class with a device property is not filed")
    record(rep, pid, name_a, not why, "; ".join(sorted(set(why))), g_loop.lineno)
    # (b)
    why = []
    if not (isinstance(node.body[-1], ast.Return) and ast.unparse(node.body[-1].value) == "sorted(disk_files)"):
        why.append("the result is not sorted(disk_files)")
    inner2 = [n for n in f_loop.body if isinstance(n, ast.For)]
    if ast.unparse(f_loop.iter) != "devices.values()" or len(inner2) != 1 or ast.unparse(inner2[0].iter) != f"{f_loop.target.id}.values()":
        raise Unsupported("expected the two nested loops over devices.values() / <ids>.values()")
    m = FragModel()
    eng = Engine(m, "vmx:VMX.disks", node, allow_exc="*")
    props = OpaqueV("props")
    st = State(env={"self": ObjV("self"), inner2[0].target.id: props, "disk_files": ListV(EMPTY_())}, hyps=[], filepos={})
    n_app = 0
    for e, out in eng.run(inner2[0].body, st):
        ev = e.ghost.get("events", ())
        fn = eng.opaque_calls.get("props.get('filename')")
        dt = eng.opaque_calls.get("props.get('devicetype')")
        if fn is None:
            why.append("the file name is not taken from the 'filename' property")
            break
        low = dt.memo.get(("attr", "lower")).memo.get(("call0",)) if dt is not None and ("attr", "lower") in dt.memo and ("call0",) in dt.memo[("attr", "lower")].memo else None
        is_disk = low.memo.get(("inr", "disk")) if low is not None else None
        spec = z3.And(eng.truthy(fn), z3.Or(z3.Not(eng.truthy(dt)) if dt is not None else z3.BoolVal(True), is_disk if is_disk is not None else z3.BoolVal(False)))
        if ev:
            n_app += 1
            if ev != (("append", "disk_files", "props.get('filename')"),):
                why.append(f"reports {ev}; specified: append the 'filename' property once")
            if not implies(e.hyps, spec):
                why.append("a device is reported although it has no file name or its device type does not contain 'disk'")
        elif dt is not None or True:
            if not implies(e.hyps, z3.Not(spec)):
                why.append("a hard disk with a file name is not reported")
    if n_app == 0:
        why.append("no path reports a disk")
    rep.functions.append({"function": f"{VMXF}:VMX.disks (grouping body x 4 classes, filter body, result shape)", "contract": " ".join(check_vmx_disks.__doc__.split())[:240], "props": ["C18"]})
    record(rep, pid, name_b, not why, "; ".join(sorted(set(why))), f_loop.lineno)


def EMPTY_():
    from pyvc.engine import EMPTY

    return EMPTY


def check_constants(rep, pid):
    """XPath / namespace constants of the XML descriptors equal the specified ones (read from the classes of the repository under check)"""
    ovf = importlib.import_module("dissect.hypervisor.descriptor.ovf").OVF
    vbox = importlib.import_module("dissect.hypervisor.descriptor.vbox").VBox
    checks = {"ovf:OVF/constants.namespaces": (dict(ovf.NS) == OVF_NS, f"NS = {dict(ovf.NS)}"),
              "ovf:OVF/constants.file_xpath": (ovf.FILE_XPATH == "ovf:References/ovf:File", ovf.FILE_XPATH),
              "ovf:OVF/constants.disk_xpath": (ovf.DISK_XPATH == "ovf:DiskSection/ovf:Disk", ovf.DISK_XPATH),
              "ovf:OVF/constants.disk_drive_xpath_resource_type_17": (ovf.DISK_DRIVE_XPATH == 'ovf:VirtualSystem/ovf:VirtualHardwareSection/ovf:Item/[rasd:ResourceType="17"]', ovf.DISK_DRIVE_XPATH),
              "vbox:VBox/constants.namespace": (vbox.VBOX_XML_NAMESPACE == "{http://www.virtualbox.org/}", vbox.VBOX_XML_NAMESPACE)}
    for nm, (ok, got) in checks.items():
        record(rep, pid, nm, ok, f"constant differs from the specification: {got!r}", 0)


def check_ovf(rep, pid):
    """OVF.__init__: references[File@ovf:id] = File@ovf:href over findall(FILE_XPATH, NS); _disks[Disk@ovf:diskId] = references[Disk@ovf:fileRef]
    over findall(DISK_XPATH, NS).  OVF.disks, for an arbitrary hard-disk item: the host resource text without the 'ovf:' prefix selects
    _disks[last path segment] for /disk/..., references[last path segment] for /file/..., anything else raises"""
    ns = {"self.NS": OpaqueV("NS"), "self.FILE_XPATH": OpaqueV("FILE_XPATH"), "self.DISK_XPATH": OpaqueV("DISK_XPATH"), "self.DISK_DRIVE_XPATH": OpaqueV("DISK_DRIVE_XPATH"), "self.xml": OpaqueV("xml"),
          "self.references": OpaqueV("references"), "self._disks": OpaqueV("_disks")}
    # __init__
    why = []
    node, _ = find_function(rep.repo, OVFF, "OVF.__init__")
    fors = [n for n in node.body if isinstance(n, ast.For)]
    if len(fors) != 2:
        raise Unsupported("expected the File loop and the Disk loop")
    want_iter = ["xml.findall(FILE_XPATH, NS)", "xml.findall(DISK_XPATH, NS)"]
    AT = "'{{{%s}}}%s'.format(**NS)"
    want_store = [("store", "references", f"file.get({AT % ('ovf', 'id')})", f"file.get({AT % ('ovf', 'href')})"),
                  ("store", "_disks", f"disk.get({AT % ('ovf', 'diskId')})", f"references[disk.get({AT % ('ovf', 'fileRef')})]")]
    for i, loop in enumerate(fors):
        m = FragModel(ns)
        eng = Engine(m, "ovf:OVF.__init__", node, allow_exc="*")
        st = State(env={"self": ObjV("self")}, hyps=[], filepos={})
        it = describe_(eng.ev(loop.iter, st))
        if it != want_iter[i]:
            why.append(f"loop {i} runs over {it}; specified {want_iter[i]}")
        st.env[loop.target.id] = OpaqueV("file" if i == 0 else "disk")
        outs = eng.run(loop.body, st)
        evs = [e.ghost.get("events", ()) for e, out in outs]
        if evs != [(want_store[i],)]:
            why.append(f"loop {i} effects {evs}; specified {want_store[i]}")
    rep.functions.append({"function": f"{OVFF}:OVF.__init__ (both loops), OVF.disks (item body)", "contract": " ".join(check_ovf.__doc__.split())[:240], "props": ["C18"]})
    record(rep, pid, "ovf:OVF.__init__/reference_and_disk_maps", not why, "; ".join(why), node.lineno)
    # disks
    why = []
    node, _ = find_function(rep.repo, OVFF, "OVF.disks")
    loop = next(n for n in node.body if isinstance(n, ast.For))
    m = FragModel(ns)
    eng = Engine(m, "ovf:OVF.disks", node, allow_exc="*", on_yield=lambda e, st, v, s: st.ghost.__setitem__("events", st.ghost.get("events", ()) + (("yield", describe_(v)),)))
    st = State(env={"self": ObjV("self")}, hyps=[], filepos={})
    it = describe_(eng.ev(loop.iter, st))
    if it != "xml.findall(DISK_DRIVE_XPATH, NS)":
        why.append(f"items come from {it}; specified xml.findall(DISK_DRIVE_XPATH, NS)")
    st.env[loop.target.id] = OpaqueV("item")
    X = "item.find('{{{rasd}}}HostResource'.format(**NS)).text.removeprefix('ovf:')"
    seen = set()
    for e, out in eng.run(loop.body, st):
        ev = e.ghost.get("events", ())
        d, f = truth_of(eng, f"{X}.startswith('/disk/')"), truth_of(eng, f"{X}.startswith('/file/')")
        if d is None:
            why.append("the host resource is not examined as <text>.removeprefix('ovf:').startswith('/disk/')")
            break
        if ev == (("yield", f"_disks[{X}.split('/')[-1]]"),):
            seen.add("disk")
            if not implies(e.hyps, d):
                why.append("a disk reference is followed for a host resource that is not /disk/...")
        elif ev == (("yield", f"references[{X}.split('/')[-1]]"),):
            seen.add("file")
            if f is None or not implies(e.hyps, z3.And(z3.Not(d), f)):
                why.append("a file reference is followed for a host resource that is not /file/...")
        elif not ev:
            if not (isinstance(out, tuple) and out[0] == "raise"):
                why.append("a hard-disk item is silently skipped")
        else:
            why.append(f"unexpected yield {ev}")
    if seen != {"disk", "file"}:
        why.append(f"host resource forms handled: {sorted(seen)}; specified: disk and file")
    record(rep, pid, "ovf:OVF.disks/host_resource_resolution", not why, "; ".join(sorted(set(why))), node.lineno)


def check_vbox_pvs(rep, pid):
    """VBox.disks: over findall('.//{ns}HardDisk[@location][@type=\\'Normal\\']') yields attrib['location'] iff get('format') is non-empty
    and its lower() == 'vdi'.  PVS.disks: over iterfind('.//Hdd') yields find('SystemName').text iff that element exists"""
    why = []
    node, _ = find_function(rep.repo, VBOXF, "VBox.disks")
    loop = next(n for n in node.body if isinstance(n, ast.For))
    vbox = importlib.import_module("dissect.hypervisor.descriptor.vbox").VBox
    m = FragModel({"self._xml": OpaqueV("xml"), "self.VBOX_XML_NAMESPACE": StrV(vbox.VBOX_XML_NAMESPACE)})
    ev_hook = lambda e, st, v, s: st.ghost.__setitem__("events", st.ghost.get("events", ()) + (("yield", describe_(v)),))  # noqa: E731
    eng = Engine(m, "vbox:VBox.disks", node, allow_exc="*", on_yield=ev_hook)
    st = State(env={"self": ObjV("self")}, hyps=[], filepos={})
    it = describe_(eng.ev(loop.iter, st))
    want = "xml.findall(\".//{http://www.virtualbox.org/}HardDisk[@location][@type='Normal']\")"
    if it != want:
        why.append(f"hard disks come from {it}; specified {want}")
    st.env[loop.target.id] = OpaqueV("hd")
    n_y = 0
    for e, out in eng.run(loop.body, st):
        ev = e.ghost.get("events", ())
        fmt = eng.opaque_calls.get("hd.get('format')")
        if fmt is None:
            why.append("the format attribute is not consulted")
            break
        low = fmt.memo.get(("attr", "lower"), OpaqueV("?")).memo.get(("call0",))
        is_vdi = low.memo.get(("eq", "vdi")) if low is not None else None
        spec = z3.And(eng.truthy(fmt), is_vdi if is_vdi is not None else z3.BoolVal(False))
        if ev:
            n_y += 1
            if ev != (("yield", "hd.attrib['location']"),):
                why.append(f"yields {ev}; specified the location attribute")
            if not implies(e.hyps, spec):
                why.append("a hard disk whose format is not VDI (case-insensitive) is reported")
        elif not implies(e.hyps, z3.Not(spec)):
            why.append("a normal VDI hard disk with a location is not reported")
    if n_y == 0:
        why.append("nothing is ever yielded")
    rep.functions.append({"function": f"{VBOXF}:VBox.disks, {PVSF}:PVS.disks (loop bodies)", "contract": " ".join(check_vbox_pvs.__doc__.split())[:240], "props": ["C18"]})
    record(rep, pid, "vbox:VBox.disks/normal_vdi_filter", not why, "; ".join(sorted(set(why))), node.lineno)
    why = []
    node, _ = find_function(rep.repo, PVSF, "PVS.disks")
    loop = next(n for n in node.body if isinstance(n, ast.For))
    m = FragModel({"self._xml": OpaqueV("xml")})
    eng = Engine(m, "pvs:PVS.disks", node, allow_exc="*", on_yield=ev_hook)
    st = State(env={"self": ObjV("self")}, hyps=[], filepos={})
    it = describe_(eng.ev(loop.iter, st))
    if it not in ("xml.iterfind('.//Hdd')", "xml.findall('.//Hdd')"):
        why.append(f"hard disks come from {it}; specified every Hdd element at any depth")
    st.env[loop.target.id] = OpaqueV("hdd")
    n_y = 0
    for e, out in eng.run(loop.body, st):
        ev = e.ghost.get("events", ())
        sn = eng.opaque_calls.get("hdd.find('SystemName')")
        if sn is None:
            why.append("SystemName is not looked up")
            break
        is_none = sn.memo.get(("eq", "None"))
        if ev:
            n_y += 1
            if ev != (("yield", "hdd.find('SystemName').text"),):
                why.append(f"yields {ev}; specified the SystemName text")
            if is_none is None or not implies(e.hyps, z3.Not(is_none)):
                why.append("yields for a disk without SystemName")
        elif is_none is None or not implies(e.hyps, is_none):
            why.append("a disk with a SystemName is not reported")
    if n_y == 0:
        why.append("nothing is ever yielded")
    record(rep, pid, "pvs:PVS.disks/system_name_of_every_hdd", not why, "; ".join(sorted(set(why))), node.lineno)


def check_vmx_not_memoised(rep, pid):
    """VMX.attr is mutable -- unlock_with_phrase() merges the decrypted dictionary into it -- so disks() has to be computed from the
    current attr on every call: no caching decorator on it, no wrapper stored over it (self.disks = lru_cache(...)(self.disks)), and the
    function reads self.attr itself."""
    name = "vmx:VMX.disks/recomputed_from_the_current_attr_on_every_call"
    import os

    tree = ast.parse(open(os.path.join(rep.repo, VMXF)).read())
    cls = next(n for n in tree.body if isinstance(n, ast.ClassDef) and n.name == "VMX")
    fn = next(n for n in cls.body if isinstance(n, ast.FunctionDef) and n.name == "disks")
    why = []
    for d in fn.decorator_list:
        if ast.unparse(d).split("(")[0].split(".")[-1] in ("lru_cache", "cache", "cached_property", "memoize"):
            why.append(f"disks is decorated with @{ast.unparse(d)[:40]}")
    for n in ast.walk(cls):
        if isinstance(n, (ast.Assign, ast.AnnAssign)) and any(ast.unparse(t) == "self.disks" for t in (n.targets if isinstance(n, ast.Assign) else [n.target])):
            why.append(f"`{ast.unparse(n)[:70]}` replaces the method by a wrapper")
    if not any(isinstance(x, ast.Attribute) and x.attr == "attr" and isinstance(x.value, ast.Name) and x.value.id == "self" for x in ast.walk(fn)):
        why.append("disks() does not read self.attr")
    record(rep, pid, name, not why, "; ".join(why), fn.lineno)


def extra_checks(rep, pid, ledger, known):
    for fn in (check_parse_dictionary, check_vmx_disks, check_vmx_not_memoised, check_constants, check_ovf, check_vbox_pvs):
        try:
            fn(rep, pid)
        except (Unsupported, StopIteration) as e:
            rep.unsupported.append(f"{fn.__name__}: unsupported({e})")


def _corpus(rep):
    import json
    import os
    import subprocess

    from replay.harness import PY, VERIF

    if getattr(rep, "_cfg_corpus", None) is None:
        env = dict(os.environ, PYTHONPATH=f"{rep.repo}:{VERIF}")
        n = 400 if rep.tier == "quick" else 8000
        try:
            p = subprocess.run([PY, "-m", "replay.config_corpus", str(rep.seed), str(n)], capture_output=True, text=True, timeout=1500, env=env, cwd=VERIF)
            rep._cfg_corpus = json.loads(p.stdout) if p.returncode == 0 else {"error": p.stderr[-400:]}
        except Exception as e:  # noqa: BLE001
            rep._cfg_corpus = {"error": f"{type(e).__name__}: {e}"}
    return rep._cfg_corpus


def replay(rep, ob_name, qs):
    res = _corpus(rep)
    if "error" in res:
        rep.notes.append(f"config corpus failed to run: {res['error']}")
        return None
    pref = ob_name.split(":")[0]
    fails = [f for f in res["failures"] if f["format"] == pref] or []
    if not fails:
        return None
    f = fails[0]
    return {"found": True, "finding_key": f"config:{f['format']}", "text": f"generated {f['format']} configuration (seed {f['seed']} case {f['case']}): {f['problem'][:200]}",
            "record": {"config_case": f, "rerun": "PYTHONPATH=/repo:/verif python -m replay.config_corpus <seed> <n>"}}


def bounded(rep, pid, known):
    res = _corpus(rep)
    if "error" in res:
        rep.errors.append(f"config corpus failed to run: {res['error']}")
        return
    rep.bounded.append({"block": "c18.configurations", "level": "bounded (generated configurations on the real code against an executable specification; NOT counted as proved)",
                        "evaluations": res["evaluations"], "distinct_nontrivial": res["distinct"], "rule": res["rule"], "failures": res["n_failures"], "groups": res["groups"]})
    seen = set()
    for f in res["failures"]:
        if f["format"] in seen:
            continue
        seen.add(f["format"])
        p = driver.write_replay(pid, f"bounded.config.{f['format']}", {"property": pid, **f})
        rep.violations.append((p, f"generated {f['format']} configuration case {f['case']}: {f['problem'][:200]}", False))


def trusted(pid):
    return ["A3 semantics of str methods (split, strip, partition, lower, startswith, lstrip, removeprefix, format) and of ElementTree findall/iterfind/find/get with the given XPath strings: assumed; "
            "the proof pins which call chain feeds which result under which condition, the bounded block exercises the semantics end to end",
            "dict: the last store of a key wins; sorted(): ascending order (stdlib)", "string VCs undecided by z3 and cvc5 (DESIGN A.13): no deductive claim about concrete configuration texts"]
