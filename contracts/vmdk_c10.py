"""C10: descriptor-driven multi-extent assembly and size accounting (VMDK part; Parallels storages in contracts/hdd_c10.py).

Obligations:
  grammar.<TYPE>     L(spec line of that extent type) ⊆ L(RE_EXTENT_DESCRIPTOR)            (regex inclusion, z3 sequence theory)
  grammar.dispatch   every spec line starts with one of the prefixes the line dispatcher tests
  wiring.<TYPE>      symbolic execution of the extent loop of VMDK.__init__ with extent.type == TYPE: exactly one reader appended,
                     of the right kind, opened read-only from path.with_name(extent.filename), sized extent.sectors*512, parent passed
  accounting         loop at the end of VMDK.__init__: sector offsets are prefix sums, size == 512 * total (contract on the real loop)
  lookup/crossing    VMDK.read_sectors / VMDK._read (contracts.vmdk, tagged C10)"""
from __future__ import annotations

import ast
import json

import z3

from pyvc import driver, regexlang as R
from pyvc.engine import Engine, State, find_function
from .common import *

FILE = "dissect/hypervisor/disk/vmdk.py"
DATA_TYPES = ["FLAT", "VMFS", "SPARSE", "VMFSSPARSE", "SESPARSE"]  # technote extent types that name a data-bearing file
SPEC_TYPES = DATA_TYPES + ["ZERO", "VMFSRDM", "VMFSRAW"]


def _lit(s):
    return z3.Re(z3.StringVal(s))


def spec_line(t):
    """SPEC (VMware Virtual Disk Format 5.0, 'The Extent Descriptions'): access SP size-in-sectors SP type [SP "filename" [SP offset]]"""
    sp = _lit(" ")
    digits = z3.Plus(z3.Range(z3.StringVal("0"), z3.StringVal("9")))
    access = z3.Union(_lit("RW"), _lit("RDONLY"), _lit("NOACCESS"))
    anyc = z3.Intersect(R.ANYCHAR, z3.Complement(_lit("\n")))
    name = z3.Concat(_lit('"'), z3.Plus(anyc), _lit('"'))  # any file name: spaces, quotes, unicode
    if t == "ZERO":
        return z3.Concat(access, sp, digits, sp, _lit(t))
    return z3.Concat(access, sp, digits, sp, _lit(t), sp, name, z3.Option(z3.Concat(sp, digits)))


def _ob(rep, name, ok, line=0):
    rep.obligations[name] = {"verdict": "discharged" if ok else "undischarged", "atoms": 1, "ms": 0, "backends": {"z3-seq" if "grammar" in name else "symexec"}, "stages": set(), "line": line, "props": ["C10"]}


def _known(known, pid):
    return {k["key"]: k for k in known.get("findings", []) if k.get("property") == pid and k.get("status") == "known"}


def _native_wiring_replay(rep, etype):
    """concrete descriptor exercising one extent type between two flat extents, run on the real code against the oracle"""
    from replay import harness

    mid = {"ZERO": {"kind": "zero", "capacity": 2}, "FLAT.start_offset": {"kind": "flat", "capacity": 3, "dtype": "FLAT", "start": 2}}.get(etype)
    if mid is None:
        k = {"FLAT": "flat", "VMFS": "flat", "SPARSE": "sparse", "VMFSSPARSE": "cowd", "SESPARSE": "sesparse"}[etype]
        mid = {"kind": "flat", "capacity": 3, "dtype": etype} if k == "flat" else {"kind": k, "capacity": 4, "gsz": 2, "ngte": 4, "grains": [1, 0], "gap": 0}
    spec = {"mode": "descriptor", "extents": [{"kind": "flat", "capacity": 3, "dtype": "FLAT"}, mid, {"kind": "flat", "capacity": 2, "dtype": "FLAT"}]}
    spec["size"] = sum(e["capacity"] for e in spec["extents"]) * 512
    reqs = [[0, spec["size"], "stream.read"], [512, 2048, "stream.read"], [0, spec["size"] // 512, "sectors"]]
    r = harness.replay_one(rep.repo, "vmdk", spec, reqs)
    return spec, reqs, r["fails"]


def _native_descriptor_check(rep, lines):
    """replay: the real DiskDescriptor.parse on a descriptor holding these extent lines; returns parsed extent count"""
    import subprocess

    from replay.harness import PY, VERIF

    prog = ("import sys, json; from dissect.hypervisor.disk.vmdk import DiskDescriptor\n"
            "lines = json.loads(sys.argv[1])\n"
            "d = DiskDescriptor.parse('# Disk DescriptorFile\\nversion=1\\nCID=fffffffe\\nparentCID=ffffffff\\n' + '\\n'.join(lines) + '\\n')\n"
            "print(json.dumps([[e.type, e.sectors, e.filename, e.start_sector] for e in d.extents]))")
    import os

    env = dict(os.environ, PYTHONPATH=f"{rep.repo}:{VERIF}")
    p = subprocess.run([PY, "-c", prog, json.dumps(lines)], capture_output=True, text=True, timeout=60, env=env)
    return json.loads(p.stdout) if p.returncode == 0 else {"error": p.stderr[-300:]}


# ------------------------------------------------------------------------------------------------ wiring
class WiringModel(Model):
    def __init__(self, etype):
        super().__init__()
        self.sectors = z3.Int("extent.sectors")
        self.fields.update({"extent.type": StrV(etype), "extent.sectors": IntV(self.sectors), "extent.filename": ObjV("extent.filename"),
                            "extent.start_sector": OptV(z3.Bool("start_isnone"), IntV(z3.Int("extent.start_sector"))),
                            "self.disks": ObjV("self.disks"), "self.parent": ObjV("self.parent"), "self.descriptor": ObjV("self.descriptor")})
        self.truthy["self.parent"] = z3.Bool("has_parent")
        self.globals["SECTOR_SIZE"] = IntV(z3.IntVal(512))
        self.methods[("path", "with_name")] = self.with_name
        self.methods[("self.disks", "append")] = self.append
        self.global_calls["SparseDisk"] = lambda eng, st, args, node, **kw: self.ctor("SparseDisk", eng, st, args, kw)
        self.global_calls["RawDisk"] = lambda eng, st, args, node, **kw: self.ctor("RawDisk", eng, st, args, kw)
        self._n = 0

    def ev(self, st, ev):
        st.ghost["events"] = st.ghost.get("events", ()) + (ev,)

    def with_name(self, eng, st, args, node):
        self._n += 1
        p = f"sibling!{self._n}"
        arg = args[0].path if isinstance(args[0], ObjV) else "?"
        self.methods[(p, "open")] = lambda eng, st, a, node, p=p, arg=arg: self.open(eng, st, p, arg, a)
        return ObjV(p)

    def open(self, eng, st, p, arg, a):
        mode = a[0].s if a and isinstance(a[0], StrV) else ("r" if not a else "?")
        self.ev(st, ("open", arg, mode))
        return ObjV(f"fh({arg},{mode})")

    def ctor(self, cls, eng, st, args, kw):
        self._n += 1
        def show(v):
            if isinstance(v, ObjV):
                return v.path
            if isinstance(v, OptV):
                return f"Opt({v.is_none}, {show(v.val)})"
            return str(getattr(v, "e", v))

        self.ev(st, ("construct", cls, tuple(args), tuple(sorted((k, show(v)) for k, v in kw.items()))))
        return ObjV(f"{cls}!{self._n}")

    def append(self, eng, st, args, node):
        self.ev(st, ("append", args[0].path if isinstance(args[0], ObjV) else "?"))
        return NoneV()


def wiring(rep, etype):
    """symbolically execute the body of `for extent in self.descriptor.extents:` with extent.type == etype"""
    node, _ = find_function(rep.repo, FILE, "VMDK.__init__")
    loop = next((n for n in ast.walk(node) if isinstance(n, ast.For) and ast.unparse(n.iter) == "self.descriptor.extents"), None)
    if loop is None:
        raise Unsupported("extent loop `for extent in self.descriptor.extents` not found in VMDK.__init__")
    m = WiringModel(etype)
    eng = Engine(m, f"vmdk:VMDK.__init__/wiring.{etype}", node)
    st = State(env={"self": ObjV("self"), "extent": ObjV("extent"), "path": ObjV("path")}, hyps=[m.sectors >= 0], filepos={})
    outs = eng.run(loop.body, st)
    results = []
    for e, out in outs:
        evs = e.ghost.get("events", ())
        appends = [x for x in evs if x[0] == "append"]
        ctors = [x for x in evs if x[0] == "construct"]
        opens = [x for x in evs if x[0] == "open"]
        problems = []
        if out is not None:
            problems.append(f"loop body leaves with {out}")
        if len(appends) != 1:
            problems.append(f"{len(appends)} readers appended (expected exactly 1)")
        else:
            want = "SparseDisk" if etype in ("SPARSE", "VMFSSPARSE", "SESPARSE") else "RawDisk"
            if etype == "ZERO":
                want = None
            c = next((c for c in ctors if appends[0][1].startswith(c[1])), None)
            if c is None or (want and c[1] != want):
                problems.append(f"appended object is {appends[0][1]}, expected a {want}")
            if etype != "ZERO":
                if not any(o[1] == "extent.filename" and o[2] == "rb" for o in opens):
                    problems.append("the extent's file is not opened read-only ('rb') from path.with_name(extent.filename)")
            if c is not None and c[1] == "SparseDisk" and ("parent", "self.parent") not in c[3]:
                problems.append("SparseDisk is not given parent=self.parent (delta extents would read as zeros)")
            if c is not None and c[1] == "RawDisk":
                size_ok = len(c[2]) >= 2 and isinstance(c[2][1], IntV) and z3.simplify(c[2][1].e - m.sectors * 512).eq(z3.IntVal(0))
                if not size_ok:
                    problems.append("RawDisk size is not extent.sectors * 512")
        results.append((e, problems))
    return results


def extra_checks(rep, pid, ledger, known):
    import importlib

    from pyvc.driver import _setup_repo_path

    _setup_repo_path(rep.repo)
    vm = importlib.import_module("dissect.hypervisor.disk.vmdk")
    kn = _known(known, pid)
    rep.functions.append({"function": f"{FILE}:RE_EXTENT_DESCRIPTOR / DiskDescriptor.parse (line dispatch)", "contract": "L(spec extent line) ⊆ L(implementation)", "props": ["C10", "C14"]})
    # ---- grammar
    try:
        impl = R.to_z3(vm.RE_EXTENT_DESCRIPTOR.pattern, vm.RE_EXTENT_DESCRIPTOR.flags)
    except Unsupported as e:
        rep.unsupported.append(f"vmdk:RE_EXTENT_DESCRIPTOR: unsupported({e})")
        impl = None
    # capture reading: every quantifier is greedy (the quoted file name is the longest text between quotes that lets the rest of the line
    # match; a lazy quantifier accepts the same lines but cuts a name such as  my "old" disk.vmdk  at its first inner quote)
    try:
        lazy = R.lazy_quantifiers(vm.RE_EXTENT_DESCRIPTOR.pattern, vm.RE_EXTENT_DESCRIPTOR.flags)
        name = "vmdk:RE_EXTENT_DESCRIPTOR/capture.all_quantifiers_greedy"
        _ob(rep, name, not lazy)
        rep.obligations[name]["props"] = ["C10", "C14"]
        if lazy:
            w = 'RW 16 FLAT "my "old" disk-f001.vmdk" 0'
            mt = vm.RE_EXTENT_DESCRIPTOR.search(w)
            got = mt.groupdict().get("filename") if mt else None
            bad = got != '"my "old" disk-f001.vmdk"'
            p = driver.write_replay(pid, name, {"property": pid, "obligation": name, "lazy_quantifiers": lazy, "witness_line": w, "captured_filename": got,
                                                "verifier_output": f"{len(lazy)} lazy quantifier(s) in RE_EXTENT_DESCRIPTOR"})
            rep.violations.append((p, f"RE_EXTENT_DESCRIPTOR has lazy quantifiers {lazy}; line {w!r} captures filename {got!r}", not bad))
    except Exception as e:  # noqa: BLE001
        rep.unsupported.append(f"vmdk:RE_EXTENT_DESCRIPTOR/capture: unsupported({type(e).__name__}: {e})")
    if impl is not None:
        for t in SPEC_TYPES:
            r, w = R.inclusion(spec_line(t), impl)
            name = f"vmdk:RE_EXTENT_DESCRIPTOR/grammar.{t}"
            _ob(rep, name, r == "unsat")
            if r == "sat":
                got = _native_descriptor_check(rep, [w])
                key = f"vmdk:grammar:{t}"
                if isinstance(got, list) and len(got) == 0:
                    if key in kn:
                        rep.known.append(kn[key]["what"])
                        rep.obligations[name]["verdict"] = "known-finding"
                        continue
                    p = driver.write_replay(pid, name, {"property": pid, "obligation": name, "witness_line": w, "native": got, "verifier_output": f"z3: sat, word in L(spec {t}) \\ L(RE_EXTENT_DESCRIPTOR)"})
                    rep.violations.append((p, f"extent line {w!r} (type {t}) is valid per the specification grammar but rejected by RE_EXTENT_DESCRIPTOR: DiskDescriptor.parse dropped it", False))
                else:
                    rep.undischarged.append(f"{name}: z3 witness {w!r} did not reproduce natively ({got})")
            elif r != "unsat":
                rep.undischarged.append(f"{name}: {r}")
        # dispatcher prefixes
        node, _ = find_function(rep.repo, FILE, "DiskDescriptor.parse")
        prefixes = None
        for n in ast.walk(node):
            if isinstance(n, ast.Call) and isinstance(n.func, ast.Attribute) and n.func.attr == "startswith" and n.args and isinstance(n.args[0], ast.Tuple):
                vals = [e.value for e in n.args[0].elts if isinstance(e, ast.Constant)]
                if any(v.startswith("RW") for v in vals):
                    prefixes = vals
        name = "vmdk:DiskDescriptor.parse/grammar.dispatch"
        if prefixes is None:
            rep.unsupported.append(f"{name}: unsupported(line dispatcher `line.startswith((...))` not found)")
        else:
            pre = z3.Concat(z3.Union(*[_lit(p) for p in prefixes]), z3.Star(R.ANYCHAR))
            allspec = z3.Union(*[spec_line(t) for t in SPEC_TYPES])
            r, w = R.inclusion(allspec, pre)
            _ob(rep, name, r == "unsat")
            if r == "sat":
                p = driver.write_replay(pid, name, {"property": pid, "obligation": name, "witness_line": w})
                rep.violations.append((p, f"extent line {w!r} is not recognised as an extent line by DiskDescriptor.parse (prefix test {prefixes})", False))
    # ---- wiring
    rep.functions.append({"function": f"{FILE}:VMDK.__init__ (extent loop)", "contract": "one reader per data-bearing extent, in order, right kind/size/parent, read-only open", "props": ["C10", "C07", "C09"]})
    # ZERO extents (no backing file) are not among the kinds the property names (flat, VMFS, hosted-sparse, VMFS-sparse, SE-sparse) and are not
    # data-bearing: what the reader does with them is reported as an observation, not demanded (see DESIGN.md, Corrections)
    try:
        zres = wiring(rep, "ZERO")
        if any(p for _e, p in zres):
            rep.notes.append("observation (outside the property's domain): ZERO extents are parsed by DiskDescriptor.parse but no reader is wired for them in VMDK.__init__ -- "
                             "a descriptor [FLAT 3, ZERO 2, FLAT 2] opens with size 2560 instead of 3584 and the later extents shift down")
    except Unsupported:
        pass
    for t in DATA_TYPES:
        name = f"vmdk:VMDK.__init__/wiring.{t}"
        try:
            res = wiring(rep, t)
        except Unsupported as e:
            rep.unsupported.append(f"{name}: unsupported({e})")
            continue
        bad = [p for _e, p in res if p]
        _ob(rep, name, not bad)
        if bad:
            key = f"vmdk:wiring:{t}"
            msg = "; ".join(bad[0])
            spec, reqs, fails = _native_wiring_replay(rep, t)
            if fails and key in kn:
                rep.known.append(f"{kn[key]['what']} [obligation {name}: {msg}]")
                rep.obligations[name]["verdict"] = "known-finding"
                continue
            p = driver.write_replay(pid, name, {"property": pid, "obligation": name, "extent_type": t, "problems": bad, "verifier_output": msg,
                                                "fmt": "vmdk", "spec": spec, "requests": reqs, "failure": fails[:2]})
            rep.violations.append((p, f"extent type {t}: {msg}" + (f"; real code fails on {spec['extents']}: {fails[0]['kind']} {fails[0].get('detail', '')[:80]}" if fails else ""), not fails))
    # start offset of flat extents (technote: offset field of FLAT extents) must reach the reader
    name = "vmdk:VMDK.__init__/wiring.FLAT.start_offset"
    try:
        res = wiring(rep, "FLAT")
        uses = any("extent.start_sector" in repr(c) for e, _ in res for c in e.ghost.get("events", ()) if c[0] == "construct")
        _ob(rep, name, uses)
        if not uses:
            key = "vmdk:wiring:FLAT.start_offset"
            spec, reqs, fails = _native_wiring_replay(rep, "FLAT.start_offset")
            if fails and key in kn:
                rep.known.append(f"{kn[key]['what']} [obligation {name}]")
                rep.obligations[name]["verdict"] = "known-finding"
            else:
                p = driver.write_replay(pid, name, {"property": pid, "obligation": name, "verifier_output": "extent.start_sector does not flow into the RawDisk constructed for a FLAT/VMFS extent",
                                                    "fmt": "vmdk", "spec": spec, "requests": reqs, "failure": fails[:2]})
                rep.violations.append((p, "FLAT/VMFS extent start offset is ignored when the reader is constructed" + (f"; real code fails on {spec['extents'][1]}: {fails[0]['kind']}" if fails else ""), not fails))
    except Unsupported as e:
        rep.unsupported.append(f"{name}: unsupported({e})")
    rep.add_trusted("A3 z3 sequence/regex theory decides the inclusion queries", "re module semantics of the supported pattern fragment (translated from re._parser's parse tree)",
                    "technote extent-line grammar as the specification; VMFSRDM/VMFSRAW (device mappings) are in the grammar but carry no wiring obligation")


# ------------------------------------------------------------------------------------------------ accounting loop
class AccountingModel(Model):
    """end of VMDK.__init__: `for disk in self.disks:` assigns every extent its byte / sector offset and sums the sizes"""

    def __init__(self):
        super().__init__()
        self.n = z3.Int("len(self.disks)")
        self.SIZE = z3.Function("disk_size", I, I)
        self.CNT = z3.Function("disk_sector_count", I, I)
        self.SUMS = z3.Function("prefix_sectors", I, I)  # SPEC: sectors before extent i
        self.fields["self.disks"] = ObjV("self.disks")
        self.fields["self._disk_offsets"] = ObjV("self._disk_offsets")
        self.iters["self.disks"] = lambda eng, st, node: ("indexed", self.n, self.elem)
        self.methods[("self._disk_offsets", "append")] = self.doff_append
        self._k = 0
        self.elem_index = {}
        self.hyps = [self.n >= 0, self.SUMS(0) == 0,
                     z3.ForAll([T], z3.Implies(z3.And(0 <= T, T < self.n), z3.And(self.SUMS(T + 1) == self.SUMS(T) + self.CNT(T), self.CNT(T) > 0, self.SIZE(T) == 512 * self.CNT(T))))]

    def elem(self, st, i):
        self._k += 1
        p = f"disk!{self._k}"
        self.elem_index[p] = i
        self.fields[p + ".size"] = IntV(self.SIZE(i))
        self.fields[p + ".sector_count"] = IntV(self.CNT(i))
        return ObjV(p)

    def on_attr_store(self, eng, st, path, name, v, node):
        if path in self.elem_index and name in ("offset", "sector_offset"):
            g = "BOFF" if name == "offset" else "SOFF"
            st.ghost[g] = z3.Store(st.ghost[g], self.elem_index[path], eng.as_int(v, st, node))

    def doff_append(self, eng, st, args, node):
        v = eng.as_int(args[0], st, node)
        st.ghost["DOFF"] = z3.Store(st.ghost["DOFF"], st.ghost["DOFFN"], v)
        st.ghost["DOFFN"] = st.ghost["DOFFN"] + 1
        return NoneV()


def accounting(rep):
    from pyvc import discharge as D
    from pyvc.engine import reset_names

    node, _ = find_function(rep.repo, FILE, "VMDK.__init__")
    loop = next((n for n in ast.walk(node) if isinstance(n, ast.For) and ast.unparse(n.iter) == "self.disks"), None)
    if loop is None:
        raise Unsupported("accounting loop `for disk in self.disks` not found in VMDK.__init__")
    reset_names()
    D.reset_memo()
    m = AccountingModel()

    def inv(eng, st):
        i = st.env[f"$i{eng.ordinal(loop)}"].e
        size, sc = st.env["size"].e, st.attrs["self.sector_count"].e
        soff, boff, doff, dn = st.ghost["SOFF"], st.ghost["BOFF"], st.ghost["DOFF"], st.ghost["DOFFN"]
        t2 = z3.Int("t2")
        return z3.And(0 <= i, i <= m.n, sc == m.SUMS(i), size == 512 * sc, z3.Implies(i > 0, size > 0), z3.Implies(i == 0, size == 0),
                      dn == z3.If(i >= 1, i - 1, 0),
                      z3.ForAll([T], z3.Implies(z3.And(0 <= T, T < i), z3.And(z3.Select(soff, T) == m.SUMS(T), z3.Select(boff, T) == 512 * m.SUMS(T)))),
                      z3.ForAll([t2], z3.Implies(z3.And(0 <= t2, t2 < dn), z3.Select(doff, t2) == m.SUMS(t2 + 1))))

    eng = Engine(m, "vmdk:VMDK.__init__/accounting", node, loops={("For", 0): LoopSpec(inv, ghost_havoc={"SOFF": "array", "BOFF": "array", "DOFF": "array", "DOFFN": "int"})})
    eng._ord[id(loop)] = 0
    st = State(env={"self": ObjV("self"), "size": IntV(z3.IntVal(0))}, hyps=list(m.hyps), filepos={},
               ghost={"SOFF": z3.K(I, z3.IntVal(0)), "BOFF": z3.K(I, z3.IntVal(0)), "DOFF": z3.K(I, z3.IntVal(0)), "DOFFN": z3.IntVal(0)},
               attrs={"self.sector_count": IntV(z3.IntVal(0))})
    outs = eng.run([loop], st)
    for e, out in outs:
        i_end = m.n
        t2 = z3.Int("t2")
        size, sc = e.env["size"].e, e.attrs["self.sector_count"].e
        # SPEC (property C10): every extent occupies exactly its sector range in declared order, size == sum of the extents
        eng.ob("post", e, sc == m.SUMS(m.n), node, tag="total_sectors")
        eng.ob("post", e, size == 512 * m.SUMS(m.n), node, tag="size_is_sum")
        eng.ob("post", e, z3.ForAll([T], z3.Implies(z3.And(0 <= T, T < m.n), z3.Select(e.ghost["SOFF"], T) == m.SUMS(T))), node, tag="sector_offsets_are_prefix_sums")
        eng.ob("post", e, z3.And(e.ghost["DOFFN"] == z3.If(m.n >= 1, m.n - 1, 0),
                                 z3.ForAll([t2], z3.Implies(z3.And(0 <= t2, t2 < e.ghost["DOFFN"]), z3.Select(e.ghost["DOFF"], t2) == m.SUMS(t2 + 1)))), node, tag="bisect_table")
    qs = D.prepare(eng.obligations)
    D.run_queries(qs, timeout_ms=30000)
    return qs


_extra_checks_base = extra_checks


def extra_checks(rep, pid, ledger, known):  # noqa: F811
    _extra_checks_base(rep, pid, ledger, known)
    rep.functions.append({"function": f"{FILE}:VMDK.__init__ (accounting loop)", "contract": "sector offsets are prefix sums of the extents' sector counts; size == 512 * sum; _disk_offsets[i-1] == offset of extent i", "props": ["C10"]})
    try:
        qs = accounting(rep)
    except Unsupported as e:
        rep.unsupported.append(f"vmdk:VMDK.__init__/accounting: unsupported({e})")
        return
    failed = {}
    for q in qs:
        rep.solver_time += q.secs
        rep.n_queries += 1
        o = rep.obligations.setdefault(q.ob_name, {"verdict": "discharged", "atoms": 0, "ms": 0, "backends": set(), "line": q.line, "props": ["C10"], "stages": set()})
        o["atoms"] += 1
        o["ms"] += int(q.secs * 1000)
        o["backends"].add(q.backend)
        if q.verdict != "unsat":
            o["verdict"] = "undischarged"
            failed.setdefault(q.ob_name, []).append(q)
    from contracts import vmdk as _vm

    driver.triage(rep, failed, lambda n, q: _vm.replay(rep, n, q), ledger, known)


def bounded(rep, pid, known):
    """string-processing half (DiskDescriptor.parse / ExtentDescriptor.__post_init__): bounded stand-in, never counted as proved"""
    import os
    import subprocess

    from replay.harness import PY, VERIF

    n = 1500 if rep.tier == "thorough" else 300
    env = dict(os.environ, PYTHONPATH=f"{rep.repo}:{VERIF}")
    try:
        p = subprocess.run([PY, "-m", "replay.descr_corpus", str(rep.seed), str(n)], capture_output=True, text=True, timeout=300, env=env, cwd=VERIF)
        res = json.loads(p.stdout)
    except Exception as e:  # noqa: BLE001
        rep.errors.append(f"descriptor corpus failed to run: {type(e).__name__}: {e}")
        return
    rep.bounded.append({"block": "c10.descriptor_strings", "level": "bounded (generated descriptors on the real parser; NOT counted as proved)", "evaluations": res["evaluations"],
                        "distinct_nontrivial": res["distinct"], "rule": res["rule"], "failures": res["n_failures"]})
    for f in res["failures"][:2]:
        pth = driver.write_replay(pid, "bounded.descriptor_strings", {"property": pid, **f})
        if not any(v[0] == pth for v in rep.violations):
            rep.violations.append((pth, f"DiskDescriptor.parse on a generated descriptor: {f['problems'][0][:200]}", False))
