"""Contracts for dissect/hypervisor/util/vmtar.py (C20).

Specification (ESXi /bin/vmtar, as documented in the module): a visor member header is a ustar header whose magic field
(bytes 257..263) is b"visor  "; bytes 496..499 hold the little-endian offset of the member's data in the archive, 504..507 textPgs,
508..511 fixUpPgs.  The data of such a member does not follow its header, so member iteration must not skip it."""
from __future__ import annotations

import ast

import z3

from pyvc import driver
from pyvc.engine import find_function
from .common import *

FILE = "dissect/hypervisor/util/vmtar.py"


class FrombufModel(Model):
    def __init__(self):
        super().__init__()
        b_ = fresh_bytes_("buf")
        self.buf = BytesV(z3.IntVal(512), b_.at)  # a header block is exactly 512 bytes (constant length: slices fold)
        self.global_calls["super"] = lambda eng, st, args, node: ObjV("super")
        self.methods[("super", "frombuf")] = self.super_frombuf
        self.globals["struct"] = ObjV("struct")
        self.methods[("struct", "unpack")] = self.unpack
        self.stores_allowed = {"obj.is_visor", "obj.offset_data", "obj.textPgs", "obj.fixUpPgs"}
        self.super_args = None

    def super_frombuf(self, eng, st, args, node):
        # assumed contract (stdlib tarfile.TarInfo.frombuf): parses the 512-byte ustar header into a fresh TarInfo of class `cls`
        st.ghost["super_args"] = tuple(args)
        return ObjV("obj")

    def unpack(self, eng, st, args, node):
        # struct.unpack for standard-size little/big-endian formats made of unsigned integer codes and pad bytes ('<I', '<I4xII', '>HQ', ...)
        import re as _re

        fmt, b = args
        if not (isinstance(fmt, StrV) and _re.fullmatch(r"[<>]((\d*)[BHILQbhilqx])+", fmt.s)):
            raise Unsupported("struct.unpack format outside [<>](count)(B|H|I|L|Q|b|h|i|l|q|x)*")
        width = {"B": 1, "H": 2, "I": 4, "L": 4, "Q": 8, "b": 1, "h": 2, "i": 4, "l": 4, "q": 8, "x": 1}
        pos, out = 0, []
        for cnt, code in _re.findall(r"(\d*)([BHILQbhilqx])", fmt.s[1:]):
            for _ in range(int(cnt or 1)):
                if code != "x":
                    w = width[code]
                    idx = range(w) if fmt.s[0] == "<" else range(w - 1, -1, -1)
                    u = sum((b.at(z3.IntVal(pos + j)) * (1 << (8 * k)) for k, j in enumerate(idx)), z3.IntVal(0))
                    out.append(IntV(u if code.isupper() else z3.If(u >= (1 << (8 * w - 1)), u - (1 << (8 * w)), u)))  # lower case: two's complement
                pos += width[code]
        eng.may_raise("error", st, b.n == pos, node)
        return TupleV(out)


def fresh_bytes_(name):
    from pyvc.engine import fresh_bytes

    return fresh_bytes(name)


def _frombuf():
    def mk():
        return FrombufModel()

    def post(eng, st, rv):
        m = eng.model
        b = m.buf
        magic = b"visor  "
        is_visor = z3.And(*[b.at(z3.IntVal(257 + i)) == magic[i] for i in range(7)])
        got_visor = st.attrs["obj.is_visor"].e

        def fld(name, off):
            v = st.attrs[name]
            isn, val = eng.opt_parts(v)
            want = le(b.at, z3.IntVal(off), 4)
            return z3.And(isn == z3.Not(is_visor), z3.Implies(is_visor, (val.e if val is not None else z3.IntVal(-1)) == want))

        sa = st.ghost.get("super_args")
        return [("returns_the_parsed_object", z3.BoolVal(isinstance(rv, ObjV) and rv.path == "obj")),
                ("stdlib_parse_gets_the_same_arguments", z3.BoolVal(sa is not None and len(sa) == 3 and isinstance(sa[0], BytesV) and sa[0] is m.buf)),
                ("is_visor_iff_magic", got_visor == is_visor),
                ("offset_data", fld("obj.offset_data", 496)), ("textPgs", fld("obj.textPgs", 504)), ("fixUpPgs", fld("obj.fixUpPgs", 508))]

    return FnContract(FILE, "VisorTarInfo.frombuf", ["C20"], mk,
                      params=lambda m: {"cls": ObjV("cls"), "buf": m.buf, "encoding": OpaqueV("encoding"), "errors": OpaqueV("errors")},
                      requires=lambda m: [forall_k(512, lambda k: z3.And(m.buf.at(k) >= 0, m.buf.at(k) <= 255))], post=post,
                      note="buf is any 512-byte header block")


class ProcModel(Model):
    pymodule = "dissect.hypervisor.util.vmtar"

    def __init__(self):
        super().__init__()
        self.is_visor = z3.Bool("self.is_visor")
        self.od_none = z3.Bool("offset_data_is_none")
        self.od = z3.Int("self.offset_data")
        self.fields["self.is_visor"] = BoolV(self.is_visor)
        self.fields["self.offset_data"] = OptV(self.od_none, IntV(self.od))
        self.fields["tarfile.fileobj"] = ObjV("tarfile.fileobj")
        self.fields["tarfile.pax_headers"] = OpaqueV("pax_headers")
        self.fields["tarfile.encoding"] = OpaqueV("encoding")
        self.fields["tarfile.errors"] = OpaqueV("errors")
        self.tell = z3.Int("fileobj.tell()")
        self.fields["tarfile.offset"] = IntV(z3.Int("tarfile.offset0"))  # position of the header block that started this member (may be an extension header)
        self.methods[("tarfile.fileobj", "tell")] = lambda eng, st, args, node: IntV(self.tell)
        self.methods[("self", "_apply_pax_info")] = self.pax
        self.global_calls["super"] = lambda eng, st, args, node: ObjV("super")
        self.methods[("super", "_proc_member")] = self.super_proc
        self.stores_allowed = {"tarfile.offset"}

    def pax(self, eng, st, args, node):
        st.ghost["pax"] = st.ghost.get("pax", 0) + 1
        return NoneV()

    def super_proc(self, eng, st, args, node):
        st.ghost["super_called"] = True
        return ObjV("super_result")


def _proc_member():
    def post(eng, st, rv):
        m = eng.model
        special = z3.And(m.is_visor, z3.Not(m.od_none), m.od != 0)
        off = st.attrs.get("tarfile.offset")
        went_special = isinstance(rv, ObjV) and rv.path == "self"
        if went_special:
            return [("only_for_visor_members_with_a_data_offset", special),
                    ("archive_offset_not_advanced_by_member_size", z3.BoolVal(off is not None) if off is None else off.e == m.tell),
                    ("pax_info_applied_once", z3.BoolVal(st.ghost.get("pax", 0) == 1)), ("offset_data_untouched", z3.BoolVal("self.offset_data" not in st.attrs))]
        return [("standard_members_go_through_the_stdlib", z3.And(z3.Not(special), z3.BoolVal(bool(st.ghost.get("super_called")) and isinstance(rv, ObjV) and rv.path == "super_result"))),
                ("no_other_effect", z3.BoolVal(off is None and st.ghost.get("pax", 0) == 0))]

    return FnContract(FILE, "VisorTarInfo._proc_member", ["C20"], ProcModel,
                      params=lambda m: {"self": ObjV("self"), "tarfile": ObjV("tarfile")},
                      requires=lambda m: [z3.Implies(z3.Not(m.od_none), z3.And(m.od >= 0, m.od <= U32)), z3.Implies(z3.Not(m.is_visor), m.od_none)], post=post)


def extra_checks(rep, pid, ledger, known):
    """factories pass tarinfo=VisorTarInfo (otherwise the stdlib TarInfo would be used and data offsets ignored)"""
    for qual in ("VisorTarFile", "open"):
        name = f"vmtar:{qual}/factory.tarinfo"
        try:
            node, _ = find_function(rep.repo, FILE, qual)
            calls = [n for n in ast.walk(node) if isinstance(n, ast.Call) and ast.unparse(n.func) in ("tarfile.TarFile", "tarfile.open")]
            ok = len(calls) == 1 and any(k.arg == "tarinfo" and ast.unparse(k.value) == "VisorTarInfo" for k in calls[0].keywords) and isinstance(node.body[-1], ast.Return) and node.body[-1].value is calls[0]
        except Unsupported:
            ok = False
        rep.obligations[name] = {"verdict": "discharged" if ok else "undischarged", "atoms": 1, "ms": 0, "backends": {"set-inclusion"}, "stages": set(), "line": 0, "props": ["C20"]}
        if not ok:
            p = driver.write_replay(pid, name, {"property": pid, "obligation": name, "verifier_output": f"{qual} does not return tarfile.<factory>(..., tarinfo=VisorTarInfo)"})
            rep.violations.append((p, f"vmtar.{qual} does not pass tarinfo=VisorTarInfo to the stdlib factory", True))
        # frame of the factory: the stdlib reader receives the caller's arguments unchanged (same file object, same mode), so that
        # opening, gzip detection and decompression are the stdlib's (assumed contract A3) and nothing of the archive is consumed,
        # rewrapped or replaced before it.  Shape: the body is `return tarfile.<factory>(*<varargs>, **<kwargs>, tarinfo=VisorTarInfo)`
        # (or the same call with every named parameter forwarded under its own name), after an optional docstring.
        name2 = f"vmtar:{qual}/factory.delegates_arguments_unchanged"
        why = ""
        try:
            node, _ = find_function(rep.repo, FILE, qual)
            body = [b for b in node.body if not (isinstance(b, ast.Expr) and isinstance(b.value, ast.Constant))]
            a = node.args
            if len(body) != 1 or not isinstance(body[0], ast.Return) or not isinstance(body[0].value, ast.Call):
                why = "the body is more than one return of a call"
            else:
                call = body[0].value
                named = [x.arg for x in a.posonlyargs + a.args + a.kwonlyargs]
                pos = [ast.unparse(x) for x in call.args]
                kws = {(k.arg or "**"): ast.unparse(k.value) for k in call.keywords}
                want_pos = [x.arg for x in a.posonlyargs + a.args] + ([f"*{a.vararg.arg}"] if a.vararg else [])
                fwd_named = all(kws.get(nm) == nm for nm in [x.arg for x in a.kwonlyargs]) and (pos == want_pos or (pos == ([f"*{a.vararg.arg}"] if a.vararg else []) and all(kws.get(nm) == nm for nm in named)))
                fwd_kw = (a.kwarg is None and "**" not in kws) or (a.kwarg is not None and kws.get("**") == a.kwarg.arg)
                extra = set(kws) - set(named) - {"**", "tarinfo"}
                if ast.unparse(call.func) not in ("tarfile.TarFile", "tarfile.open"):
                    why = f"returns {ast.unparse(call.func)}(...), not the stdlib factory"
                elif not (fwd_named and fwd_kw) or extra or a.defaults or a.kw_defaults:
                    why = "arguments are not forwarded unchanged (renamed, defaulted, dropped or added)"
        except Unsupported as e:
            why = str(e)
        rep.obligations[name2] = {"verdict": "discharged" if not why else "undischarged", "atoms": 1, "ms": 0, "backends": {"set-inclusion"}, "stages": set(), "line": 0, "props": ["C20"]}
        if why:
            p = driver.write_replay(pid, name2, {"property": pid, "obligation": name2, "verifier_output": f"{qual}: {why}"})
            rep.violations.append((p, f"vmtar.{qual} does not hand the caller's arguments unchanged to the stdlib factory: {why}", True))
    rep.add_trusted("A3 stdlib tarfile: TarInfo.frombuf/_proc_member/_proc_builtin, TarFile.next/extractfile (extractfile reads fileobj[offset_data : offset_data+size]), gzip wrapping")


def contracts(repo):
    return [_frombuf(), _proc_member()]


def bounded(rep, pid, known):
    import json
    import os
    import subprocess

    from replay.harness import PY, VERIF

    n = 60 if rep.tier == "quick" else 500
    env = dict(os.environ, PYTHONPATH=f"{rep.repo}:{VERIF}")
    try:
        p = subprocess.run([PY, "-m", "replay.vmtar_corpus", str(rep.seed), str(n)], capture_output=True, text=True, timeout=300, env=env, cwd=VERIF)
        res = json.loads(p.stdout)
    except Exception as e:  # noqa: BLE001
        rep.errors.append(f"vmtar corpus failed to run: {type(e).__name__}: {e}")
        return
    rep.bounded.append({"block": "c20.archives", "level": "bounded (generated archives on the real code; NOT counted as proved)", "evaluations": res["evaluations"],
                        "distinct_nontrivial": res["distinct"], "rule": res["rule"], "failures": res["n_failures"]})
    for f in res["failures"][:2]:
        pth = driver.write_replay(pid, "bounded.archives", {"property": pid, **f})
        if not any(v[0] == pth for v in rep.violations):
            rep.violations.append((pth, f"vmtar archive {f['archive']}: {f['problem'][:160]}", False))
