"""C07 / C12: the parent resolvers vhdx.open_parent and vmdk.open_parent -- the callee contract that the constructor gates assume
("returns an image opened from a path below `path`, or raises IOError; never returns None and never hands out anything else").

Shape contract on the real AST of each resolver (path and string handling is library code outside the arithmetic subset, what matters
is the data flow into the return value and the exception edges):
  * every `return` yields the result of a <Class>(...) constructor call made in this function (directly, or through a local that is
    assigned only from such calls) -- not a parameter, a cached object, None or anything looked up elsewhere;
  * the constructor's argument is a local all of whose assignments are `path[.parent].joinpath(...)` chains: the parent is looked for
    relative to the child's directory only;
  * every statement that can fail sits inside a `try` whose `except Exception` handler does nothing but raise IOError/OSError: a parent
    that cannot be found or parsed makes the open fail."""
from __future__ import annotations

import ast

from pyvc import driver
from pyvc.engine import Unsupported, find_function

RESOLVERS = [("dissect/hypervisor/disk/vhdx.py", "open_parent", "VHDX"), ("dissect/hypervisor/disk/vmdk.py", "open_parent", "VMDK")]


def _root_name(e):
    while isinstance(e, (ast.Attribute, ast.Call, ast.Subscript)):
        e = e.func if isinstance(e, ast.Call) else e.value
    return e.id if isinstance(e, ast.Name) else None


def _check(repo, file, qual, cls):
    node, _ = find_function(repo, file, qual)
    why = []
    params = [a.arg for a in node.args.args]
    if not params:
        return ["no parameters"]
    path_param = params[0]
    assigns = {}
    for s in ast.walk(node):
        if isinstance(s, ast.Assign) and len(s.targets) == 1 and isinstance(s.targets[0], ast.Name):
            assigns.setdefault(s.targets[0].id, []).append(s.value)
        elif isinstance(s, (ast.AugAssign, ast.AnnAssign, ast.NamedExpr)) and isinstance(getattr(s, "target", None), ast.Name):
            assigns.setdefault(s.target.id, []).append(getattr(s, "value", None))
        elif isinstance(s, (ast.For, ast.With)):
            for x in ast.walk(s.target if isinstance(s, ast.For) else ast.Tuple(elts=[i.optional_vars for i in s.items if i.optional_vars is not None], ctx=ast.Store())):
                if isinstance(x, ast.Name):
                    assigns.setdefault(x.id, []).append(None)

    def is_ctor(e):
        return isinstance(e, ast.Call) and isinstance(e.func, ast.Name) and e.func.id == cls

    ctor_calls = [c for c in ast.walk(node) if is_ctor(c)]
    rets = [r for r in ast.walk(node) if isinstance(r, ast.Return)]
    if not rets:
        why.append("the function never returns an image")
    for r in rets:
        v = r.value
        if is_ctor(v):
            continue
        if isinstance(v, ast.Name) and v.id not in params and assigns.get(v.id) and all(is_ctor(x) for x in assigns[v.id]):
            continue
        why.append(f"`{ast.unparse(r)[:60]}` does not return a {cls} constructed in this call")
    for c in ctor_calls:
        if len(c.args) != 1 or c.keywords:
            why.append(f"`{ast.unparse(c)[:60]}`: the parent is not opened from exactly one path argument")
            continue
        a = c.args[0]
        srcs = assigns.get(a.id, []) if isinstance(a, ast.Name) else [a]
        if not srcs or not all(x is not None and isinstance(x, ast.Call) and isinstance(x.func, ast.Attribute) and x.func.attr == "joinpath" and _root_name(x) == path_param for x in srcs):
            why.append(f"the path handed to {cls}(...) is not built by {path_param}[.parent].joinpath(...) only")
    # exception edges: the whole work happens inside try/except Exception -> raise IOError
    tries = [t for t in node.body if isinstance(t, ast.Try)]
    outside = [s for s in node.body if not isinstance(s, (ast.Try, ast.Return)) and not (isinstance(s, ast.Expr) and isinstance(s.value, ast.Constant))]
    if len(tries) != 1 or outside:
        if why:
            return why
        raise Unsupported(f"{qual}: the resolution is not one try statement (shape outside this contract)")
    else:
        t = tries[0]
        if t.finalbody or t.orelse and not all(isinstance(s, ast.Return) for s in t.orelse):
            why.append("try statement has else/finally code")
        if any(not any(x is c for x in ast.walk(ast.Module(body=t.body, type_ignores=[]))) for c in ctor_calls):
            why.append(f"{cls}(...) is called outside the try block")
        hs = t.handlers
        if not hs:
            why.append("no exception handler")
        for h in hs:
            last = h.body[-1] if h.body else None
            only_raise = len(h.body) == 1 and isinstance(last, ast.Raise) and isinstance(last.exc, ast.Call) and ast.unparse(last.exc.func) in ("IOError", "OSError")
            if not only_raise:
                why.append(f"handler `except {ast.unparse(h.type) if h.type else ''}` does something other than raising IOError: the child could be presented without its parent")
        if not any(h.type is None or ast.unparse(h.type) in ("Exception", "BaseException") for h in hs):
            why.append("no handler for Exception: failures of the lookup would escape as arbitrary errors (allowed) -- but the gate contract names IOError")
    return why


def extra_checks(rep, pid, ledger, known):
    for file, qual, cls in RESOLVERS:
        name = f"{file.rsplit('/', 1)[-1][:-3]}:{qual}/returns_a_parent_opened_in_this_call_below_the_childs_directory_or_raises_IOError"
        try:
            why = _check(rep.repo, file, qual, cls)
        except Unsupported as e:
            rep.unsupported.append(f"{name}: unsupported({e})")
            continue
        rep.functions.append({"function": f"{file}:{qual}", "contract": f"returns {cls}(path.joinpath(...)) constructed in this call, every failure -> IOError", "props": ["C07", "C12"]})
        rep.obligations[name] = {"verdict": "discharged" if not why else "undischarged", "atoms": 1, "ms": 0, "backends": {"set-inclusion"}, "stages": set(), "line": 0, "props": ["C07", "C12"]}
        if why:
            text = "; ".join(sorted(set(why)))
            p = driver.write_replay(pid, name, {"property": pid, "obligation": name, "verifier_output": text})
            rep.violations.append((p, f"{name}: {text}", True))


# ------------------------------------------------------------------------------------------------ GUID lookups of the Parallels descriptor
LOOKUPS = [("dissect/hypervisor/disk/hdd.py", "Storage.find_image", "self.images"), ("dissect/hypervisor/disk/hdd.py", "Snapshots.find_shot", "self.shots")]


def _check_lookup(repo, file, qual, coll):
    """returns the FIRST element of `coll` whose .guid equals the argument, raises KeyError when there is none (HDD.open and
    get_snapshot_chain rely on the KeyError: a storage without an image for a snapshot of the chain must make the open fail)"""
    node, _ = find_function(repo, file, qual)
    params = [a.arg for a in node.args.args if a.arg != "self"]
    body = [s for s in node.body if not (isinstance(s, ast.Expr) and isinstance(s.value, ast.Constant))]
    why = []
    if len(params) != 1:
        return ["expected exactly one argument (the GUID)"]
    g = params[0]
    if len(body) != 2 or not isinstance(body[0], ast.For) or not isinstance(body[1], ast.Raise):
        # another way of writing the lookup: outside what this shape contract can read -> undecided, not a violation
        raise Unsupported(f"{qual}: the body is not `for x in {coll}: if x.guid == {g}: return x` followed by a raise")
    loop, rs = body
    if ast.unparse(loop.iter) != coll or loop.orelse or not isinstance(loop.target, ast.Name):
        why.append(f"the loop does not run over {coll} in order")
    v = loop.target.id if isinstance(loop.target, ast.Name) else "?"
    ok_if = (len(loop.body) == 1 and isinstance(loop.body[0], ast.If) and not loop.body[0].orelse and isinstance(loop.body[0].test, ast.Compare) and len(loop.body[0].test.ops) == 1
             and isinstance(loop.body[0].test.ops[0], ast.Eq) and {ast.unparse(loop.body[0].test.left), ast.unparse(loop.body[0].test.comparators[0])} == {f"{v}.guid", g}
             and len(loop.body[0].body) == 1 and isinstance(loop.body[0].body[0], ast.Return) and ast.unparse(loop.body[0].body[0].value) == v)
    if not ok_if:
        why.append(f"the loop body is not `if {v}.guid == {g}: return {v}`")
    if not (isinstance(rs.exc, ast.Call) and ast.unparse(rs.exc.func) == "KeyError") and not (isinstance(rs.exc, ast.Name) and rs.exc.id == "KeyError"):
        why.append("a GUID that is not found does not raise KeyError")
    return why


_resolver_checks = extra_checks


def extra_checks(rep, pid, ledger, known):  # noqa: F811
    _resolver_checks(rep, pid, ledger, known)
    if pid != "C07":
        return
    for file, qual, coll in LOOKUPS:
        name = f"{file.rsplit('/', 1)[-1][:-3]}:{qual}/first_element_with_that_guid_or_KeyError"
        try:
            why = _check_lookup(rep.repo, file, qual, coll)
        except Unsupported as e:
            rep.unsupported.append(f"{name}: unsupported({e})")
            continue
        rep.functions.append({"function": f"{file}:{qual}", "contract": "first element whose guid matches, KeyError otherwise", "props": ["C07"]})
        rep.obligations[name] = {"verdict": "discharged" if not why else "undischarged", "atoms": 1, "ms": 0, "backends": {"set-inclusion"}, "stages": set(), "line": 0, "props": ["C07"]}
        if why:
            text = "; ".join(sorted(set(why)))
            p = driver.write_replay(pid, name, {"property": pid, "obligation": name, "verifier_output": text})
            rep.violations.append((p, f"{name}: {text}", True))
