"""Mapping-table loaders (C01 / C06 / C07 / C13): the read-path contracts treat the L1 table, the L2 tables and the Parallels BAT as
"entry i of the table stored at <offset> in the image" (assumption A6/A3 in their trusted lists).  The loaders that produce those tables
are three-line functions around a cstruct array read; they are put under a shape contract here: the handle is positioned at the
specified table offset immediately before ONE array read of the specified element type and count from the same handle, and that array
is what is returned / stored.  The element type's width and byte order are probed on the real cstruct definitions of the repository.

Specification: qcow2.txt -- L1 table: l1_size 64-bit big-endian entries at l1_table_offset (header, resp. snapshot table entry); L2 table:
cluster_size / entry_size entries of 64 bits (extended L2: 128 bits = two 64-bit words) at the offset named by the L1 entry.
parallels.txt -- BAT: m_Size 32-bit little-endian entries directly after the 64-byte header."""
from __future__ import annotations

import ast
import importlib

from pyvc import driver
from pyvc.engine import Unsupported, find_function

Q = "dissect/hypervisor/disk/qcow2.py"
H = "dissect/hypervisor/disk/hdd.py"

# (file, qualname, handle, offset expression, array module.type, count expression (after resolving one local), result sink, props)
LOADERS = [
    (Q, "QCow2.l1_table", "self.fh", "self.header.l1_table_offset", "c_qcow2.uint64", "self.header.l1_size", "return", ["C01", "C07", "C13"]),
    (Q, "QCow2Snapshot.l1_table", "self.qcow2.fh", "self.header.l1_table_offset", "c_qcow2.uint64", "self.header.l1_size", "return", ["C01", "C07", "C13"]),
    (Q, "L2Table.__init__", "self.qcow2.fh", "offset", "c_qcow2.uint64", "self.qcow2.l2_size * (self.qcow2._l2_entry_size // 8)", "self._table", ["C01", "C07", "C13"]),
    (H, "HDS.bat", "self.fh", "len(c_hdd.pvd_header)", "c_hdd.uint32", "self.header.m_Size", "return", ["C06", "C07", "C13"]),
]
PROBES = {"c_qcow2.uint64": ("dissect.hypervisor.disk.c_qcow2", "c_qcow2", "uint64", bytes([0, 0, 0, 0, 0, 0, 1, 2, 0, 0, 0, 0, 0, 0, 0, 3]), [258, 3]),
          "c_hdd.uint32": ("dissect.hypervisor.disk.c_hdd", "c_hdd", "uint32", bytes([2, 1, 0, 0, 3, 0, 0, 0]), [258, 3])}


def _check(repo, file, qual, handle, offset, arr, count, sink):
    node, _ = find_function(repo, file, qual)
    body = [s for s in node.body if not (isinstance(s, ast.Expr) and isinstance(s.value, ast.Constant))]
    why = []
    reads = [c for c in ast.walk(node) if isinstance(c, ast.Call) and isinstance(c.func, ast.Subscript) and ast.unparse(c.func.value) == arr]
    if len(reads) != 1:
        if not reads and not any(isinstance(c, ast.Call) and isinstance(c.func, ast.Subscript) for c in ast.walk(node)):
            raise Unsupported(f"{qual}: no cstruct array read found (the table is loaded in a way this shape contract cannot read)")
        return [f"expected exactly one array read {arr}[n](handle), found {len(reads)}"]
    rd = reads[0]
    if [ast.unparse(a) for a in rd.args] != [handle] or rd.keywords:
        why.append(f"the array is read from `{', '.join(ast.unparse(a) for a in rd.args)}`, specified `{handle}`")
    # count: the subscript, resolved through one local assignment
    cnt = rd.func.slice
    if isinstance(cnt, ast.Name):
        binds = [s.value for s in ast.walk(node) if isinstance(s, ast.Assign) and len(s.targets) == 1 and isinstance(s.targets[0], ast.Name) and s.targets[0].id == cnt.id]
        cnt = binds[0] if len(binds) == 1 else cnt
    if ast.unparse(cnt) != count:
        why.append(f"the array has `{ast.unparse(cnt)}` entries, specified `{count}`")
    # the statement that contains the read, and the statement before it
    idx = next((i for i, s in enumerate(body) if any(x is rd for x in ast.walk(s))), None)
    if idx is None or idx == 0:
        return why + ["the array read is not a top-level statement preceded by a seek"]
    st_rd, st_seek = body[idx], body[idx - 1]
    ok_seek = (isinstance(st_seek, ast.Expr) and isinstance(st_seek.value, ast.Call) and isinstance(st_seek.value.func, ast.Attribute) and st_seek.value.func.attr == "seek"
               and ast.unparse(st_seek.value.func.value) == handle and [ast.unparse(a) for a in st_seek.value.args] == [offset] and not st_seek.value.keywords)
    if not ok_seek:
        why.append(f"the statement before the read is `{ast.unparse(st_seek)[:70]}`, specified `{handle}.seek({offset})`")
    if sink == "return":
        if not (isinstance(st_rd, ast.Return) and st_rd.value is rd):
            why.append("the array that was read is not what is returned")
    elif not (isinstance(st_rd, ast.Assign) and st_rd.value is rd and [ast.unparse(t) for t in st_rd.targets] == [sink]):
        why.append(f"the array that was read is not stored as {sink}")
    # nothing else touches the handle or the stored table in this function
    for c in ast.walk(node):
        if isinstance(c, ast.Call) and isinstance(c.func, ast.Attribute) and c.func.attr in ("seek", "read", "readinto", "tell") and c is not st_seek.value:
            why.append(f"additional handle operation `{ast.unparse(c)[:50]}`")
    if sink != "return":
        stores = [s for s in ast.walk(node) if isinstance(s, (ast.Assign, ast.AugAssign)) and any(ast.unparse(t) == sink for t in (s.targets if isinstance(s, ast.Assign) else [s.target]))]
        if len(stores) != 1:
            why.append(f"{sink} is assigned {len(stores)} times")
    return why


def extra_checks(rep, pid, ledger, known):
    for file, qual, handle, offset, arr, count, sink, props in LOADERS:
        if pid not in props:
            continue
        name = f"{file.rsplit('/', 1)[-1][:-3]}:{qual}/loads_the_specified_table"
        try:
            why = _check(rep.repo, file, qual, handle, offset, arr, count, sink)
        except Unsupported as e:
            rep.unsupported.append(f"{name}: unsupported({e})")
            continue
        modname, cname, tname, data, want = PROBES[arr]
        try:
            T = getattr(getattr(importlib.import_module(modname), cname), tname)
            got = list(T[len(want)](data))
            if got != want or len(T) * len(want) != len(data):
                why.append(f"{arr}[{len(want)}] parses {data.hex()} as {got}, specified {want} (element width / byte order)")
        except Exception as e:  # noqa: BLE001
            why.append(f"probe of {arr} failed: {type(e).__name__}: {e}")
        rep.functions.append({"function": f"{file}:{qual}", "contract": f"{handle}.seek({offset}); table = {arr}[{count}]({handle}); element layout probed", "props": props})
        rep.obligations[name] = {"verdict": "discharged" if not why else "undischarged", "atoms": 1, "ms": 0, "backends": {"set-inclusion", "probe"}, "stages": set(), "line": 0, "props": props}
        if why:
            text = "; ".join(sorted(set(why)))
            p = driver.write_replay(pid, name, {"property": pid, "obligation": name, "verifier_output": text})
            rep.violations.append((p, f"{name}: {text}", True))
