"""C07, QCOW2 internal snapshots: a snapshot view reads through the snapshot's L1 table and shares no read state with the active image.

QCow2Snapshot.open is executed symbolically (objects are uninterpreted): the view is a copy of the QCow2 object whose l1_table is the
snapshot's table and whose stream buffer is reset before it is handed out (a shallow copy inherits `_buf`, the buffered block of the
active image -- found by a seeded-change agent as a defect of the pinned tree and fixed).  Bounded part: generated images with one or
two snapshots whose L1 tables differ from the active one, read in interleaved histories of active / snapshot reads."""
from __future__ import annotations

import io
import random
import struct

import z3

from pyvc import driver
from pyvc.engine import Engine, State, find_function
from .common import *

FILE = "dissect/hypervisor/disk/qcow2.py"


def extra_checks(rep, pid, ledger, known):
    name = "qcow2:QCow2Snapshot.open/view_of_the_snapshots_l1_without_inherited_buffer"
    why = []
    try:
        node, _ = find_function(rep.repo, FILE, "QCow2Snapshot.open")

        class M(Model):
            def on_attr_store(self, eng, st, path, name, v, node):
                st.ghost["stores"] = st.ghost.get("stores", ()) + ((path, name, v),)
                return None

        m = M()
        m.globals["copy"] = ObjV("copy_module")
        m.methods[("copy_module", "copy")] = lambda eng, st, args, node: (st.ghost.__setitem__("copied", args[0]), ObjV("view"))[1]
        m.fields["self.qcow2"] = ObjV("self.qcow2")
        m.fields["self.l1_table"] = ObjV("snapshot_l1")
        m.methods[("view", "seek")] = lambda eng, st, args, node: (st.ghost.__setitem__("events", st.ghost.get("events", ()) + ("seek",)), IntV(z3.IntVal(0)))[1]
        m.truthy.update({"view": z3.BoolVal(True), "snapshot_l1": z3.BoolVal(True)})
        eng = Engine(m, "qcow2:QCow2Snapshot.open", node, allow_exc=())
        st = State(env={"self": ObjV("self")}, hyps=[], filepos={})
        outs = [(e, o) for e, o in eng.run(node.body, st) if isinstance(o, tuple) and o[0] == "return"]
        if len(outs) != 1:
            why.append("the function does not return on exactly one path")
        for e, out in outs:
            rv = out[1]
            stores = {(p, n): v for p, n, v in e.ghost.get("stores", ())}
            cp = e.ghost.get("copied")
            if not (isinstance(rv, ObjV) and rv.path == "view" and isinstance(cp, ObjV) and cp.path == "self.qcow2"):
                why.append("the view is not a copy of the QCow2 object")
            l1 = stores.get(("view", "l1_table"))
            if not (isinstance(l1, ObjV) and l1.path == "snapshot_l1"):
                why.append("the view's l1_table is not the snapshot's L1 table")
            if not isinstance(stores.get(("view", "_buf")), NoneV):
                why.append("the view keeps the read buffer (_buf) it inherited from the active image")
    except Unsupported as e:
        rep.unsupported.append(f"{name}: unsupported({e})")
        _histories(rep)  # the bounded block speaks when the proof part cannot
        return
    rep.functions.append({"function": f"{FILE}:QCow2Snapshot.open", "contract": "copy of the image with the snapshot's L1 table and a reset stream buffer", "props": ["C07", "C08"]})
    ok = not why
    rep.obligations[name] = {"verdict": "discharged" if ok else "undischarged", "atoms": 1, "ms": 0, "backends": {"symexec"}, "stages": set(), "line": node.lineno, "props": ["C07", "C08"]}
    # frame of the copied view: QCow2Snapshot.open replaces l1_table only, so the image object must not keep any other state that was
    # computed from the active L1 table (a cached_property / lru_cache'd method / attribute set in __init__ whose body reads self.l1_table):
    # a shallow copy would inherit it and the view would translate guest offsets through the active image's tables
    name_f = "qcow2:QCow2/no_cached_state_derived_from_the_l1_table"
    derived = []
    try:
        import ast as _ast
        import os as _os

        tree = _ast.parse(open(_os.path.join(rep.repo, FILE)).read())
        cls = next(n for n in tree.body if isinstance(n, _ast.ClassDef) and n.name == "QCow2")
        for fn in [n for n in cls.body if isinstance(n, _ast.FunctionDef)]:
            decos = [_ast.unparse(d).split("(")[0].split(".")[-1] for d in fn.decorator_list]
            reads_l1 = any(isinstance(x, _ast.Attribute) and x.attr == "l1_table" and isinstance(x.value, _ast.Name) and x.value.id == "self" for x in _ast.walk(fn))
            if fn.name != "l1_table" and reads_l1 and any(d in ("cached_property", "lru_cache", "cache") for d in decos):
                derived.append(f"{fn.name} (@{'/'.join(decos)})")
            if fn.name == "__init__":
                for st_ in _ast.walk(fn):
                    if isinstance(st_, _ast.Assign) and any(isinstance(x, _ast.Attribute) and x.attr == "l1_table" for x in _ast.walk(st_.value)):
                        derived.append(f"__init__: {_ast.unparse(st_)[:60]}")
                    if isinstance(st_, _ast.Assign) and isinstance(st_.value, _ast.Call) and "lru_cache" in _ast.unparse(st_.value.func):
                        wrapped = next((m_ for m_ in cls.body if isinstance(m_, _ast.FunctionDef) and any(_ast.unparse(a_) == f"self.{m_.name}" for a_ in st_.value.args)), None)
                        if wrapped is not None and any(isinstance(x, _ast.Attribute) and x.attr == "l1_table" for x in _ast.walk(wrapped)):
                            derived.append(f"__init__: lru_cache around {wrapped.name}, which reads l1_table")
    except (OSError, SyntaxError, StopIteration) as e:
        derived.append(f"class QCow2 not found ({e})")
    rep.obligations[name_f] = {"verdict": "discharged" if not derived else "undischarged", "atoms": 1, "ms": 0, "backends": {"set-inclusion"}, "stages": set(), "line": 0, "props": ["C07", "C08"]}
    fails = _histories(rep)
    if derived:
        text = "state computed from the active L1 table is kept on the image object and inherited by snapshot views: " + "; ".join(derived)
        p = driver.write_replay(pid, name_f, {"property": pid, "obligation": name_f, "verifier_output": text, **({"replayed": fails[0]} if fails else {})})
        rep.violations.append((p, f"{name_f}: {text}" + (f" -- replayed: {fails[0]['problem']}" if fails else ""), not fails))
    if not ok:
        text = "; ".join(sorted(set(why)))
        p = driver.write_replay(pid, name, {"property": pid, "obligation": name, "verifier_output": text, **({"replayed": fails[0]} if fails else {})})
        rep.violations.append((p, f"{name}: {text}" + (f" -- replayed: {fails[0]['problem']}" if fails else ""), not fails))


def _image(rng):
    """qcow2 v3, 512-byte clusters, n guest clusters; active and snapshot L1 tables point at different L2 tables / data"""
    cs = 512
    n = rng.randint(1, 6)
    nsnap = rng.randint(1, 2)
    layers = nsnap + 1  # layer 0 = active
    # sometimes the active image has grown since the snapshots were taken: two L1 entries (the second L2 table holds `n2` more clusters
    # behind the 64 of the first), while every snapshot still has an L1 table of one entry -- beyond it a snapshot view reads zeros
    n2 = rng.randint(1, 4) if rng.random() < 0.5 else 0
    img = bytearray((48 + layers * (n + 2) + n2 + 2) * cs)
    pos = 8

    def alloc(k=1):
        nonlocal pos
        p = pos
        pos += k
        return p * cs

    content = []
    l1_offs = []
    for layer in range(layers):
        l1 = alloc()
        l2 = alloc()
        l1_offs.append(l1)
        struct.pack_into(">Q", img, l1, l2 | (1 << 63))
        data = []
        for g in range(n):
            kind = rng.choice(["data", "data", "zero", "none"])
            if kind == "data":
                d = alloc()
                byte = 0x10 * (layer + 1) + g + 1
                img[d:d + cs] = bytes([byte]) * cs
                struct.pack_into(">Q", img, l2 + 8 * g, d | (1 << 63))
                data.append(bytes([byte]) * cs)
            else:
                if kind == "zero":
                    struct.pack_into(">Q", img, l2 + 8 * g, 1)
                data.append(b"\0" * cs)
        layer_bytes = b"".join(data)
        if n2:
            layer_bytes = layer_bytes.ljust(64 * cs, b"\0")  # the rest of the first L2 table is unallocated
            tail = []
            if layer == 0:
                l2b = alloc()
                struct.pack_into(">Q", img, l1 + 8, l2b | (1 << 63))
                for g in range(n2):
                    d = alloc()
                    byte = 0xA0 + g
                    img[d:d + cs] = bytes([byte]) * cs
                    struct.pack_into(">Q", img, l2b + 8 * g, d | (1 << 63))
                    tail.append(bytes([byte]) * cs)
            else:
                tail = [b"\0" * cs] * n2
            layer_bytes += b"".join(tail)
        content.append(layer_bytes)
    snap_off = alloc(2)
    blob = b""
    for sidx in range(nsnap):
        e = struct.pack(">QIHHIIQII", l1_offs[sidx + 1], 1, 1, 1, 0, 0, 0, 0, 0) + str(sidx + 1).encode() + b"s"
        blob += e + b"\0" * (-len(e) % 8)
    img[snap_off:snap_off + len(blob)] = blob
    size = (64 + n2) * cs if n2 else n * cs
    hdr = struct.pack(">IIQIIQIIQQIIQ", 0x514649FB, 3, 0, 0, 9, size, 0, 2 if n2 else 1, l1_offs[0], 1 * cs, 1, nsnap, snap_off) + struct.pack(">QQQII", 0, 0, 0, 4, 104)
    img[0:len(hdr)] = hdr
    return bytes(img), content, size


def _histories(rep):
    """bounded: interleaved reads of the active image and its snapshot views (real code)"""
    import os
    import subprocess
    import sys

    from replay.harness import PY, VERIF

    if getattr(rep, "_snap_hist", None) is not None:
        return rep._snap_hist
    code = "import sys, json; sys.path.insert(0, %r); from contracts.c07_qcow2 import run_histories; print(json.dumps(run_histories(%d, %d)))" % (VERIF, rep.seed, 150 if rep.tier == "quick" else 2000)
    env = dict(os.environ, PYTHONPATH=f"{rep.repo}:{VERIF}")
    try:
        p = subprocess.run([PY, "-c", code], capture_output=True, text=True, timeout=600, env=env, cwd=VERIF)
        import json

        res = json.loads(p.stdout)
    except Exception as e:  # noqa: BLE001
        rep.errors.append(f"snapshot histories failed to run: {type(e).__name__}: {e}")
        rep._snap_hist = []
        return []
    rep.bounded.append({"block": "c07.qcow2_snapshot_histories", "level": "bounded (generated images with internal snapshots, interleaved reads on the real code; NOT counted as proved)",
                        "evaluations": res["evaluations"], "distinct_nontrivial": res["images"], "rule": "1..2 snapshots whose L1/L2/data differ from the active image; 12 interleaved reads of active image and snapshot views per image, each compared with that layer's content", "failures": len(res["failures"])})
    for f in res["failures"][:1]:
        pth = driver.write_replay(rep.pid, "bounded.qcow2_snapshot_histories", {"property": rep.pid, **f})
        rep.violations.append((pth, f"qcow2 snapshot view: {f['problem']}", False))
    rep._snap_hist = res["failures"]
    return rep._snap_hist


def run_histories(seed, n_images):
    from dissect.hypervisor.disk.qcow2 import QCow2

    rng = random.Random(seed)
    fails, evals = [], 0
    for ci in range(n_images):
        img, content, size = _image(rng)
        q = QCow2(io.BytesIO(img))
        views = {0: q}
        hist = []
        for step in range(12):
            layer = rng.randrange(len(content))
            if layer not in views or rng.random() < 0.3:
                if layer > 0:
                    views[layer] = q.snapshots[layer - 1].open()
            v = views.get(layer, q)
            off = rng.choice([0, 0, 1, 511, 512, rng.randrange(0, size + 1)])
            ln = rng.choice([1, 16, 512, 513, size])
            v.seek(off)
            got = v.read(ln)
            want = content[layer][off:off + ln]
            evals += 1
            hist.append([layer, off, ln])
            if got != want:
                fails.append({"case": ci, "seed": seed, "history": hist, "problem": f"layer {layer} read({off}, {ln}) after {len(hist) - 1} earlier reads returned {got[:8].hex()}.., expected {want[:8].hex()}.. ({len(got)} vs {len(want)} bytes)"})
                break
    return {"evaluations": evals, "images": n_images, "failures": fails[:5]}
