"""C11: termination and bounded resources on arbitrary input.

Proof part: (1) every read loop of the five formats is re-verified in *termination mode* -- no well-formedness assumed, any exception
allowed -- with a variant that is non-negative and strictly decreases (contracts tagged C11 in the format modules); (2) the reference
walks Descriptor.get_snapshot_chain and the Hyper-V key-table entry walk get variants over a finite universe / a growing offset;
(3) every inflate call site in the package passes an output bound.  Bounded part: single-field mutations, truncations and random
corruption of generated valid images under a CPU/memory watchdog."""
from __future__ import annotations

import ast
import importlib
import json
import os

import z3

from pyvc import discharge as D
from pyvc import driver
from pyvc.engine import Engine, State, find_function, reset_names
from .common import *

HDD_FILE = "dissect/hypervisor/disk/hdd.py"
HV_FILE = "dissect/hypervisor/descriptor/hyperv.py"


# ------------------------------------------------------------------------------------------------ snapshot chain
class ChainModel(Model):
    int_lists_are_sets = True

    def __init__(self):
        super().__init__()
        self.INSHOTS = z3.Function("guid_in_shots", I, B)
        self.PARENT = z3.Function("parent_of", I, I)
        self.UNSEEN = z3.Function("unseen_shots", z3.ArraySort(I, B), I)  # |shots \\ set|, finite-set cardinality (axioms at use sites)
        self.globals["NULL_GUID"] = IntV(z3.IntVal(0))
        self.obj_field("self.snapshots")
        self.methods[("self.snapshots", "find_shot")] = self.find_shot
        self._k = 0

    def shot(self, g):
        self._k += 1
        p = f"shot!{self._k}"
        self.fields[p + ".guid"] = IntV(g)
        self.fields[p + ".parent"] = IntV(self.PARENT(g))
        return ObjV(p)

    def find_shot(self, eng, st, args, node):
        g = eng.as_int(args[0], st, node)
        eng.may_raise("KeyError", st, self.INSHOTS(g), node)  # contract of Snapshots.find_shot: returns the shot with that GUID or raises KeyError
        return self.shot(g)

    def on_set_append(self, eng, st, old, x, node):
        new = z3.Store(old.mem, x, z3.BoolVal(True))
        # finite-set fact: adding an element of the universe that is not yet in the set decreases the number of unseen elements by one
        st.hyps.append(z3.Implies(z3.And(self.INSHOTS(x), z3.Not(z3.Select(old.mem, x))), z3.And(self.UNSEEN(new) == self.UNSEEN(old.mem) - 1, self.UNSEEN(old.mem) >= 1)))
        st.hyps.append(self.UNSEEN(new) >= 0)


def _snapshot_chain():
    guid0 = z3.Int("guid0")

    def fresh_shot(eng, st):
        m = eng.model
        return m.shot(fresh("cur_guid"))

    def inv(eng, st):
        m = eng.model
        chain = st.env["chain"]
        g = m.fields[st.env["shot"].path + ".guid"].e
        return z3.And(m.INSHOTS(g), z3.Select(chain.mem, g), m.UNSEEN(chain.mem) >= 0)

    return FnContract(HDD_FILE, "Descriptor.get_snapshot_chain", ["C11", "C07"], ChainModel,
                      params=lambda m: {"self": ObjV("self"), "guid": IntV(guid0)},
                      requires=lambda m: [z3.ForAll([z3.Const("S", z3.ArraySort(I, B))], m.UNSEEN(z3.Const("S", z3.ArraySort(I, B))) >= 0)],
                      post=lambda eng, st, rv: [("returns_chain", z3.BoolVal(isinstance(rv, SetListV)))],
                      raises={"KeyError": None, "ValueError": None},
                      loops={("While", 0): LoopSpec(inv, lambda eng, st: eng.model.UNSEEN(st.env["chain"].mem), shapes={"shot": fresh_shot})},
                      mode="termination-walk",
                      note="variant: number of shots not yet in the chain (finite set); a revisited GUID raises, so a ParentGUID cycle cannot loop")


# ------------------------------------------------------------------------------------------------ Hyper-V key table walk
class KeyWalkModel(Model):
    def __init__(self):
        super().__init__()
        from dissect.hypervisor.descriptor.c_hyperv import c_hyperv

        self.globals["c_hyperv"] = ObjV("c_hyperv")
        self.fields["c_hyperv.HyperVStorageKeyTable"] = ObjV("c_hyperv.HyperVStorageKeyTable")
        self.lens["c_hyperv.HyperVStorageKeyTable"] = IntV(z3.IntVal(len(c_hyperv.HyperVStorageKeyTable)))
        self.fields["c_hyperv.HyperVStorageKeyTableEntryHeader"] = ObjV("c_hyperv.HyperVStorageKeyTableEntryHeader")
        self.lens["c_hyperv.HyperVStorageKeyTableEntryHeader"] = IntV(z3.IntVal(len(c_hyperv.HyperVStorageKeyTableEntryHeader)))
        self.fields["self.entries"] = ObjV("self.entries")
        self.fields["self._lookup"] = ObjV("self._lookup")
        self.methods[("self.entries", "append")] = lambda eng, st, args, node: NoneV()
        self.setitems = {"self._lookup": lambda eng, st, idx, v, node: None}
        self.global_calls["HyperVStorageKeyTableEntry"] = self.entry
        self._k = 0

    def entry(self, eng, st, args, node):
        # contract of the entry constructor: parses a header at the given offset (EOFError on short data); size is a raw uint32
        eng.may_raise("EOFError", st, fresh("enough_data", B), node)
        self._k += 1
        p = f"entry!{self._k}"
        sz = fresh("entry_size")
        st.hyps.append(z3.And(sz >= 0, sz <= U32))
        self.fields[p + ".size"] = IntV(sz)
        return ObjV(p)


def key_walk(rep):
    node, _ = find_function(rep.repo, HV_FILE, "HyperVStorageKeyTable.__init__")
    loop = next((n for n in ast.walk(node) if isinstance(n, ast.While)), None)
    if loop is None:
        raise Unsupported("entry walk `while entry_offset < size` not found in HyperVStorageKeyTable.__init__")
    reset_names()
    D.reset_memo()
    m = KeyWalkModel()
    size = z3.Int("size")
    eo = z3.Int("entry_offset0")

    def inv(eng, st):
        return st.env["entry_offset"].e >= eo

    def variant(eng, st):
        return st.env["size"].e - st.env["entry_offset"].e

    eng = Engine(m, "hyperv:HyperVStorageKeyTable.__init__/entry_walk", node, loops={("While", 0): LoopSpec(inv, variant)}, allow_exc="*")
    eng._ord[id(loop)] = 0

    class _C:
        mode = "termination"

    eng.contract = _C()
    st = State(env={"self": ObjV("self"), "size": IntV(size), "entry_offset": IntV(eo)}, hyps=[size >= 0, eo >= 0], filepos={})
    eng.run([loop], st)
    qs = D.prepare(eng.obligations)
    D.run_queries(qs, timeout_ms=30000)
    return qs


# ------------------------------------------------------------------------------------------------ inflate call sites
def inflate_sites(rep):
    out = []
    root = os.path.join(rep.repo, "dissect", "hypervisor")
    for d, _dirs, fs in os.walk(root):
        for f in sorted(fs):
            if not f.endswith(".py"):
                continue
            rel = os.path.relpath(os.path.join(d, f), rep.repo)
            tree = ast.parse(open(os.path.join(d, f)).read())
            k = 0
            # functions that create a streaming decompressor: its flush() returns everything the bounded decompress() call held back
            inflating = set()
            for f_ in ast.walk(tree):
                if isinstance(f_, (ast.FunctionDef, ast.AsyncFunctionDef)) and any(
                        isinstance(c_, ast.Call) and ast.unparse(c_.func).split(".")[-1] in ("decompressobj", "ZstdDecompressor", "BZ2Decompressor", "LZMADecompressor", "stream_reader") for c_ in ast.walk(f_)):
                    inflating |= {id(c_) for c_ in ast.walk(f_) if isinstance(c_, ast.Call)}
            for n in ast.walk(tree):
                if not isinstance(n, ast.Call):
                    continue
                fn = ast.unparse(n.func)
                if id(n) in inflating and isinstance(n.func, ast.Attribute) and n.func.attr in ("flush", "readall", "copy"):
                    out.append((rel, n.lineno, k, ast.unparse(n)[:100], False, f".{n.func.attr}() in a function that creates a streaming decompressor: flush()/readall() inflate the whole remaining input with no output bound"))
                    k += 1
                    continue
                if fn in ("zlib.decompress", "gzip.decompress", "bz2.decompress", "lzma.decompress", "zstd.decompress", "zstandard.decompress"):
                    out.append((rel, n.lineno, k, ast.unparse(n)[:100], False, "one-shot decompress() has no output bound"))
                    k += 1
                elif fn.endswith(".decompress") and not fn.startswith(("zlib.", "gzip.", "bz2.", "lzma.")):
                    ok = len(n.args) >= 2 or any(kw.arg == "max_length" for kw in n.keywords)
                    out.append((rel, n.lineno, k, ast.unparse(n)[:100], ok, "decompressobj().decompress(data, max_length)" if ok else "decompress without max_length"))
                    k += 1
    return out


def extra_checks(rep, pid, ledger, known):
    object_table_guard(rep, pid)
    # (3) inflate bounds
    rep.functions.append({"function": "every decompress call site under dissect/hypervisor/**", "contract": "inflate output is bounded by the allocation unit it fills (max_length argument)"})
    for rel, line, k, text, ok, why in inflate_sites(rep):
        name = f"{rel.rsplit('/', 1)[-1][:-3]}/inflate.bounded#{k}"
        rep.obligations[name] = {"verdict": "discharged" if ok else "undischarged", "atoms": 1, "ms": 0, "backends": {"set-inclusion"}, "stages": set(), "line": line, "props": ["C11"]}
        if not ok:
            p = driver.write_replay(pid, name, {"property": pid, "obligation": name, "site": f"{rel}:{line}: {text}", "verifier_output": why})
            rep.violations.append((p, f"{rel}:{line} `{text}`: {why}", True))
    # (2b) key-table entry walk
    rep.functions.append({"function": f"{HV_FILE}:HyperVStorageKeyTable.__init__ (entry walk)", "contract": "variant size - entry_offset; entry.size == 0 breaks"})
    try:
        qs = key_walk(rep)
        failed = {}
        for q in qs:
            rep.solver_time += q.secs
            rep.n_queries += 1
            o = rep.obligations.setdefault(q.ob_name, {"verdict": "discharged", "atoms": 0, "ms": 0, "backends": set(), "line": q.line, "props": ["C11"], "stages": set()})
            o["atoms"] += 1
            o["backends"].add(q.backend)
            if q.verdict != "unsat":
                o["verdict"] = "undischarged"
                failed.setdefault(q.ob_name, []).append(q)
        driver.triage(rep, failed, None, ledger, known)
    except Unsupported as e:
        rep.unsupported.append(f"hyperv:HyperVStorageKeyTable.__init__/entry_walk: unsupported({e})")
    rep.add_trusted("finite-set cardinality fact used for the snapshot-chain variant (adding an unseen element of a finite universe decreases the unseen count)",
                    "termination inside dependencies (zlib, dissect.cstruct, tarfile, XML parser, AES/HMAC) is assumed",
                    "A3 zlib.decompressobj().decompress(data, n) returns at most n bytes")


def object_table_guard(rep, pid):
    """HyperVFile.__init__ appends to the list of object tables it is iterating: a further table is loaded only if its offset differs from
    that of *every* table loaded so far (finite-universe variant: the distinct offsets named by object-table entries), so tables that list
    themselves or each other cannot make the walk run forever"""
    name = "hyperv:HyperVFile.__init__/object_table_loaded_at_most_once"
    try:
        node, _ = find_function(rep.repo, HV_FILE, "HyperVFile.__init__")
    except Unsupported as e:
        rep.unsupported.append(f"{name}: unsupported({e})")
        return
    appends = [n for n in ast.walk(node) if isinstance(n, ast.Call) and ast.unparse(n.func) == "self.object_tables.append"]
    ok = bool(appends)
    why = "" if ok else "no append to self.object_tables found"
    for ap in appends:
        guard = next((i for i in ast.walk(node) if isinstance(i, ast.If) and any(ap is x for x in ast.walk(i)) and "ObjectTable" in ast.unparse(i.test)), None)
        conj = [ast.unparse(v) for v in guard.test.values] if guard is not None and isinstance(guard.test, ast.BoolOp) and isinstance(guard.test.op, ast.And) else []
        import re

        if not any(re.fullmatch(r"all\(\(?(\w+)\.offset != entry\.offset for \1 in self\.object_tables\)?\)", c) or re.fullmatch(r"entry\.offset not in \[?\(?(\w+)\.offset for \1 in self\.object_tables\)?\]?", c) for c in conj):
            ok, why = False, f"a further object table is loaded without checking its offset against every table loaded so far (guard: {ast.unparse(guard.test)[:120] if guard is not None else None})"
    rep.functions.append({"function": f"{HV_FILE}:HyperVFile.__init__ (object-table walk)", "contract": "tables are loaded at most once (offset differs from every loaded table)", "props": ["C11"]})
    rep.obligations[name] = {"verdict": "discharged" if ok else "undischarged", "atoms": 1, "ms": 0, "backends": {"set-inclusion"}, "stages": set(), "line": node.lineno, "props": ["C11"]}
    if not ok:
        p = driver.write_replay(pid, name, {"property": pid, "obligation": name, "verifier_output": why})
        rep.violations.append((p, f"{name}: {why}", True))


def contracts(repo):
    return [_snapshot_chain()]


def bounded(rep, pid, known):
    """single-field mutations / truncations / random corruption of generated valid images under a watchdog"""
    import subprocess

    from replay.harness import PY, VERIF

    n = 3 if rep.tier == "quick" else 25
    budget = 45 if rep.tier == "quick" else 400
    env = dict(os.environ, PYTHONPATH=f"{rep.repo}:{VERIF}")
    total = {"evaluations": 0, "distinct": 0, "failures": []}
    procs = []
    for fmt in ("vhd", "vdi", "hds", "vhdx", "vmdk", "hyperv", "hddxml", "qcow2", "bombs"):
        procs.append((fmt, subprocess.Popen([PY, "-m", "replay.fuzz_real", fmt, str(rep.seed), str(n), str(budget)], stdout=subprocess.PIPE, stderr=subprocess.PIPE, text=True, env=env, cwd=VERIF)))
    for fmt, p in procs:
        try:
            out, err = p.communicate(timeout=600)
            res = json.loads(out)
        except Exception as e:  # noqa: BLE001
            p.kill()
            rep.errors.append(f"fuzz block {fmt} failed to run: {type(e).__name__}: {e}")
            continue
        total["evaluations"] += res["evaluations"]
        total["distinct"] += res["distinct"]
        for f in res["failures"][:3]:
            total["failures"].append(f)
            pth = driver.write_replay(pid, f"fuzz.{fmt}.{f['kind']}", {"property": pid, "fmt": fmt, **f})
            if not any(v[0] == pth for v in rep.violations):
                rep.violations.append((pth, f"{fmt}: mutated input {f['mutation']} -> {f['kind']} ({f.get('detail', '')[:100]})", False))
    rep.bounded.append({"block": "c11.mutation_fuzz", "level": "bounded (mutations of valid inputs on the real code under a 5 s CPU / 1 GiB watchdog; NOT counted as proved)",
                        "evaluations": total["evaluations"], "distinct_nontrivial": total["distinct"],
                        "rule": "per format: generated valid images x {every 32-bit word of the first 4 KiB and of every table set to 0, 1, 0xFFFFFFFF, +1, -1, self-reference} x truncation at 24 points x 40 random multi-byte corruptions; open + read(0, min(size, 64 KiB)) + read tail; non-trivial = mutation changes the bytes; plus QCOW2 images whose compressed cluster carries a deflate stream inflating far beyond the cluster (peak allocation of every read bounded by 8 clusters + 6 MiB, tracemalloc)",
                        "failures": len(total["failures"])})
