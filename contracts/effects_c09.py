"""C09: parsing never modifies evidence -- frame obligations per call site over the whole package (DESIGN.md 7/C09)."""
from __future__ import annotations

import json
import os
import subprocess

from pyvc import driver, effects

OWNED = {("dissect/hypervisor/util/envelope.py", "_pack_attributes"): {"stream"}}
WRITER = ("dissect/hypervisor/tools/envelope.py", "main")
PASSTHROUGH = {("dissect/hypervisor/util/vmtar.py", "open"), ("dissect/hypervisor/util/vmtar.py", "VisorTarFile")}
KINDS = ("open.mode", "mutator.module", "mutator.method", "dynamic", "owned.arg", "store.memory")


def extra_checks(rep, pid, ledger, known):
    sites, infos = effects.analyse(rep.repo, OWNED, WRITER, PASSTHROUGH)
    mine = [s for s in sites if s.kind in KINDS]
    rep.functions.append({"function": "every function and module body under dissect/hypervisor/**", "contract": "frame: filesystem = {} ; handles: read/seek/tell only; tools/envelope.py:main frame = {args.output}",
                          "files": len(infos), "call_sites_classified": len(mine)})
    # the writer clause: exactly one write-mode open in the whole package, in the decrypt tool
    writers = [s for s in mine if s.kind == "open.mode" and "single allowed writer" in s.why]
    rep.obligations["tools.envelope:main/writer.exactly_one"] = {"verdict": "discharged" if len(writers) == 1 else "undischarged", "atoms": 1, "ms": 0, "backends": {"set-inclusion"}, "stages": set(), "line": writers[0].line if writers else 0, "props": ["C09"]}
    if len(writers) != 1:
        p = driver.write_replay(pid, "writer.exactly_one", {"property": pid, "obligation": "tools.envelope:main/writer.exactly_one", "found_writers": [s.as_dict() for s in writers],
                                                          "verifier_output": "expected exactly one write-mode open (args.output.open('wb') in tools/envelope.py:main)"})
        rep.violations.append((p, f"{len(writers)} allowed-writer sites found, expected 1", True))
    for s in mine:
        rep.obligations[s.name] = {"verdict": "discharged" if s.ok else "undischarged", "atoms": 1, "ms": 0, "backends": {"set-inclusion"}, "stages": set(), "line": s.line, "props": ["C09"]}
        if not s.ok:
            p = driver.write_replay(pid, s.name, {"property": pid, "obligation": s.name, "site": s.as_dict(),
                                                  "verifier_output": f"frame obligation violated at {s.file}:{s.line}: {s.text} -- {s.why}"})
            rep.violations.append((p, f"{s.file}:{s.line} `{s.text}`: {s.why}", True))
    rep.samples += [s.as_dict() for s in mine[:8]]
    rep.extra["call_sites"] = [s.as_dict() for s in mine]
    rep.extra["exemptions"] = [s.as_dict() for s in mine if "exemption" in s.why]
    rep.add_trusted("A1 names resolve syntactically (no monkey-patching; rule E3 obliges absence of setattr/exec/eval/importlib/computed getattr)",
                    "third-party callees (dissect.cstruct, dissect.util, defusedxml, tarfile, zlib, Crypto) do not write to the file system or to caller handles (cross-checked by the audit-hook run, bounded)")
    # bounded: real parsers over the repository's fixtures under an audit hook
    audit(rep, pid)


def audit(rep, pid):
    from replay.harness import PY, VERIF

    env = dict(os.environ, PYTHONPATH=f"{rep.repo}:{VERIF}", PYTHONDONTWRITEBYTECODE="1")
    try:
        p = subprocess.run([PY, "-m", "replay.audit_run", os.path.join(rep.repo, "tests", "data")], capture_output=True, text=True, timeout=300, env=env, cwd=VERIF)
        res = json.loads(p.stdout)
    except Exception as e:  # noqa: BLE001
        rep.notes.append(f"audit run failed to execute: {type(e).__name__}: {e}")
        return
    rep.bounded.append({"block": "c09.audit_hook", "level": "bounded (sys.addaudithook monitor over the real parsers on the repository's fixtures and generated images; NOT counted as proved)",
                        "evaluations": res["operations"], "distinct_nontrivial": res["fixtures"], "rule": "each fixture opened with its parser and read; every open/os.* audit event inspected for write intent; handles wrapped to reject write/truncate",
                        "failures": len(res["events"])})
    for ev in res["events"][:3]:
        p = driver.write_replay(pid, "audit." + ev["event"], {"property": pid, "event": ev})
        rep.violations.append((p, f"audit hook observed a mutating operation: {ev}", False))
