"""Contracts for dissect/hypervisor/descriptor/hyperv.py (C17).

Specification: the layout in c_hyperv.py (taken from the repository's cstruct definitions at run time) plus the value encodings
documented in hyperv.py -- entry = 21-byte header {type u16 (low byte = data type, bit 8 = value lives in a file object), size u32,
parent_table_idx u16, parent_offset u32, checksum u32, insertion_sequence u32, data_offset u8}, then key (UTF-8, NUL-terminated,
data_offset bytes including the NUL), then the value: Int i64, UInt u64, Double f64, Bool u32 != 0, String/Array {u32 length, bytes}
(String UTF-16-LE); a file object pointer is {u32 size, u64 absolute offset}.  parent_table_idx 0 = root.

Per-entry decoding and framing are proved for all byte contents; text decoding (bytes.decode) and IEEE-754 conversion are opaque: what
is proved is *which bytes* are decoded with *which codec*.  Whole-tree equality is the bounded block."""
from __future__ import annotations

import ast
import importlib

import z3

from pyvc import cstruct_ext, driver
from pyvc.engine import Engine, State, find_function
from .common import *

FILE = "dissect/hypervisor/descriptor/hyperv.py"
MOD = "dissect.hypervisor.descriptor.hyperv"
CMOD = "dissect.hypervisor.descriptor.c_hyperv"
HDR = 21
T = {"Free": 1, "Unknown": 2, "Int": 3, "UInt": 4, "Double": 5, "String": 6, "Array": 7, "Bool": 8, "Node": 9}  # specification values


def fresh_bytes_(name):
    from pyvc.engine import fresh_bytes

    return fresh_bytes(name)


def same_bytes(a, b):
    if a is b:
        return z3.BoolVal(True)
    if not isinstance(a, BytesV) or not isinstance(b, BytesV):
        return z3.BoolVal(False)
    return z3.And(a.n == b.n, forall_k(a.n, lambda k: a.at(k) == b.at(k)))


def signed64(e):
    return z3.If(e >= (1 << 63), e - (1 << 64), e)


class EntryModel(Model):
    """one HyperVStorageKeyTableEntry; sibling properties are used through their contracts (fields)"""
    pymodule = MOD

    def __init__(self, **fixed):
        super().__init__()
        c = importlib.import_module(CMOD)
        self.c = c
        self.RAWT = fresh_bytes_("table_raw")  # the key table's bytes
        self.off = z3.Int("self.offset")
        h = {}
        self.hyps = [self.RAWT.n >= 0, self.off >= 0, forall_k(self.RAWT.n, lambda k: z3.And(self.RAWT.at(k) >= 0, self.RAWT.at(k) <= 255))]
        for nm, hi in (("type", 0xFFFF), ("size", U32), ("parent_table_idx", 0xFFFF), ("parent_offset", U32), ("data_offset", 255)):
            h[nm] = self.int_field(f"self.header.{nm}", 0, hi, self.hyps)
        self.h = h
        self.fields["self.offset"] = IntV(self.off)
        self.fields["self.header"] = ObjV("self.header")
        self.truthy["self.header"] = z3.BoolVal(True)
        self.fields["self.table"] = ObjV("self.table")
        self.fields["self.table.raw"] = self.RAWT
        # sibling properties (callee contracts): symbolic results
        self.RAW = fresh_bytes_("entry_raw")
        self.DATA = fresh_bytes_("entry_data")
        self.flags = z3.Int("self.flags")
        self.type_ = z3.Int("self.type")
        self.fop = z3.Bool("self.is_file_object_pointer")
        self.hyps += [self.flags >= 0, self.flags <= 255, self.type_ >= 0, self.type_ <= 255, self.RAW.n >= 0, self.DATA.n >= 0,
                      forall_k(self.RAW.n, lambda k: z3.And(self.RAW.at(k) >= 0, self.RAW.at(k) <= 255)), forall_k(self.DATA.n, lambda k: z3.And(self.DATA.at(k) >= 0, self.DATA.at(k) <= 255))]
        self.fields.update({"self.raw": self.RAW, "self.data": self.DATA, "self.flags": IntV(self.flags), "self.type": IntV(self.type_), "self.is_file_object_pointer": BoolV(self.fop),
                            "self.size": IntV(h["size"])})
        for k, v in fixed.items():
            if k == "type":
                self.fields["self.type"] = IntV(z3.IntVal(v))
                self.type_ = z3.IntVal(v)
            elif k == "fop":
                self.fields["self.is_file_object_pointer"] = BoolV(z3.BoolVal(v))
                self.fop = z3.BoolVal(v)
        # enums of the repository under check
        self.globals["KeyDataType"] = ObjV("KeyDataType")
        for nm, val in c.KeyDataType.__members__.items():
            self.fields[f"KeyDataType.{nm}"] = IntV(z3.IntVal(int(val)))
        self.methods[("KeyDataType", "__call__")] = lambda eng, st, args, node: IntV(eng.as_int(args[0], st, node))  # cstruct enums accept any value of the base type
        self.globals["KeyDataFlag"] = ObjV("KeyDataFlag")
        for nm, val in c.KeyDataFlag.__members__.items():
            self.fields[f"KeyDataFlag.{nm}"] = IntV(z3.IntVal(int(val)))
        self.methods[("KeyDataFlag", "__call__")] = lambda eng, st, args, node: IntV(eng.as_int(args[0], st, node))
        self.globals["c_hyperv"] = ObjV("c_hyperv")
        self.methods[("c_hyperv", "HyperVStorageKeyTableEntryHeader")] = lambda eng, st, args, node: cstruct_ext.parse_bytes(eng, st, self, c.c_hyperv.HyperVStorageKeyTableEntryHeader, "<", args[0], node)
        self.lens["c_hyperv.HyperVStorageKeyTableEntryHeader"] = IntV(z3.IntVal(len(c.c_hyperv.HyperVStorageKeyTableEntryHeader)))
        self.fields["c_hyperv.HyperVStorageKeyTableEntryHeader"] = ObjV("c_hyperv.HyperVStorageKeyTableEntryHeader")
        self.globals["struct"] = ObjV("struct")
        self.methods[("struct", "unpack")] = self.unpack
        # file objects
        self.FO = fresh_bytes_("file_object_bytes")
        self.fo_off, self.fo_size = z3.Int("fo_offset"), z3.Int("fo_size")
        self.fields["self.file_object_pointer"] = TupleV([IntV(self.fo_off), IntV(self.fo_size)])
        self.hyps += [self.fo_off >= 0, self.fo_size >= 0, self.FO.n >= 0]
        self.methods[("self", "get_file_object")] = self.get_fo
        self.methods[("file_object", "read")] = self.fo_read
        self.truthy["file_object"] = z3.BoolVal(True)
        self.fields["self.table.file"] = ObjV("self.table.file")
        self.fields["self.table.file.file_objects"] = ObjV("file_objects")
        self.methods[("file_objects", "get")] = self.fo_lookup
        self.fo_present = z3.Bool("file_object_registered")
        self.truthy["registered_file_object"] = z3.BoolVal(True)
        self.fields["self.table.file.key_tables"] = ObjV("key_tables")
        self.items["key_tables"] = self.kt_get
        self.items["kt_list"] = self.kt_first
        self.fields["kt_active._lookup"] = ObjV("kt_lookup")
        self.items["kt_lookup"] = self.lookup_get

    # ---- callee contracts
    def unpack(self, eng, st, args, node):
        fmt, b = args
        if not isinstance(fmt, StrV) or not isinstance(b, BytesV):
            raise Unsupported("struct.unpack shape")
        size = {"<q": 8, "<Q": 8, "<d": 8, "<I": 4, "<IQ": 12}.get(fmt.s)
        if size is None:
            raise Unsupported(f"struct.unpack format {fmt.s!r}")
        eng.may_raise("error", st, b.n == size, node)
        at = b.at
        if fmt.s == "<Q":
            return TupleV([IntV(le(at, z3.IntVal(0), 8))])
        if fmt.s == "<q":
            return TupleV([IntV(signed64(le(at, z3.IntVal(0), 8)))])
        if fmt.s == "<I":
            return TupleV([IntV(le(at, z3.IntVal(0), 4))])
        if fmt.s == "<IQ":
            return TupleV([IntV(le(at, z3.IntVal(0), 4)), IntV(le(at, z3.IntVal(4), 8))])
        o = OpaqueV("double")
        o.memo[("double_from",)] = b
        return TupleV([o])

    def get_fo(self, eng, st, args, node):
        eng.may_raise("ValueError", st, fresh("registered", B), node)
        st.ghost["get_fo"] = st.ghost.get("get_fo", 0) + 1
        return ObjV("file_object")

    def fo_read(self, eng, st, args, node):
        (n,) = args
        st.ghost["fo_read_n"] = eng.as_int(n, st, node)
        return BytesV(zmin(eng.as_int(n, st, node), self.FO.n), self.FO.at)

    def fo_lookup(self, eng, st, args, node):
        st.ghost["fo_lookup"] = eng.as_int(args[0], st, node)
        return OptV(z3.Not(self.fo_present), ObjV("registered_file_object"))

    def kt_get(self, eng, st, idx, node):
        st.ghost["kt_idx"] = eng.as_int(idx, st, node)
        eng.may_raise("KeyError", st, fresh("has_table", B), node)
        return ObjV("kt_list")

    def kt_first(self, eng, st, idx, node):
        st.ghost["kt_pos"] = eng.as_int(idx, st, node)
        return ObjV("kt_active")

    def lookup_get(self, eng, st, idx, node):
        st.ghost["lookup_off"] = eng.as_int(idx, st, node)
        eng.may_raise("KeyError", st, fresh("has_entry", B), node)
        return ObjV("parent_entry")


def _c(qual, model, post, raises=None, case="", requires=None, note="", params=None):
    c = FnContract(FILE, f"HyperVStorageKeyTableEntry.{qual}", ["C17"], model, params=params or (lambda m: {"self": ObjV("self")}),
                   requires=requires or (lambda m: m.hyps), post=post, raises=raises or {}, case=case, note=note)
    c.select_terms = True
    return c


def entry_contracts():
    out = []
    EM = EntryModel
    # bit fields of the type word
    out.append(_c("flags", EM, lambda eng, st, rv: [("high_byte_of_type_word", eng.as_int(rv, st, None) == (eng.model.h["type"] / 256) % 256)]))
    out.append(_c("type", EM, lambda eng, st, rv: [("low_byte_of_type_word", eng.as_int(rv, st, None) == eng.model.h["type"] % 256)]))
    out.append(_c("size", EM, lambda eng, st, rv: [("stored_size", eng.as_int(rv, st, None) == eng.model.h["size"])]))
    out.append(_c("is_file_object_pointer", EM, lambda eng, st, rv: [("bit_0_of_flags", eng.truthy(rv) == (eng.model.flags % 2 == 1))]))

    # raw = table.raw[offset + 21 : offset + size]
    def post_raw(eng, st, rv):
        m = eng.model
        lo, hi = m.off + HDR, m.off + m.h["size"]
        wf = z3.And(hi <= m.RAWT.n, lo <= hi)
        return [("bytes_after_the_header_up_to_the_entry_size", z3.Implies(wf, z3.And(rv.n == hi - lo, forall_k(rv.n, lambda k: rv.at(k) == m.RAWT.at(lo + k)))))]

    out.append(_c("raw", EM, post_raw))

    # __init__: header parsed at table.raw[offset:]
    def post_init(eng, st, rv):
        m = eng.model
        hp = st.attrs.get("self.header")
        if not isinstance(hp, ObjV):
            return [("header_parsed", z3.BoolVal(False))]
        lay = {nm: (off, w) for nm, off, w, *_ in cstruct_ext.layout(m.c.c_hyperv.HyperVStorageKeyTableEntryHeader)}
        goals = []
        for nm in ("type", "size", "parent_table_idx", "parent_offset", "data_offset"):
            off, w = lay[nm]
            goals.append((f"header.{nm}_is_the_stored_field", m.fields[f"{hp.path}.{nm}"].e == le(m.RAWT.at, m.off + off, w)))
        goals.append(("offset_kept", st.attrs["self.offset"].e == m.off if isinstance(st.attrs.get("self.offset"), IntV) else z3.BoolVal(False)))
        goals.append(("no_children_yet", z3.BoolVal("self.children" in st.attrs)))
        return goals

    class InitModel(EntryModel):
        def on_attr_store(self, eng, st, path, name, v, node):
            return None

    out.append(FnContract(FILE, "HyperVStorageKeyTableEntry.__init__", ["C17"], InitModel, params=lambda m: {"self": ObjV("self"), "table": ObjV("self.table"), "offset": IntV(m.off)},
                          requires=lambda m: m.hyps, post=post_init, raises={"EOFError": lambda eng, st: eng.model.off + HDR > eng.model.RAWT.n}))

    # file_object_pointer
    class FopModel(EntryModel):
        def __init__(self):
            super().__init__()
            del self.fields["self.file_object_pointer"]

    def post_fop(eng, st, rv):
        m = eng.model
        do = m.h["data_offset"]
        o, s = rv.items
        return [("only_for_pointer_entries", m.fop), ("offset_is_the_u64_after_the_size", eng.as_int(o, st, None) == le(m.RAW.at, do + 4, 8)), ("size_is_the_u32_at_data_offset", eng.as_int(s, st, None) == le(m.RAW.at, do, 4))]

    out.append(_c("file_object_pointer", FopModel, post_fop, raises={"TypeError": lambda eng, st: z3.Not(eng.model.fop), "error": lambda eng, st: eng.model.RAW.n < eng.model.h["data_offset"] + 12}))

    # key
    def post_key(eng, st, rv):
        m = eng.model
        src = rv.memo.get(("decoded_from",)) if isinstance(rv, OpaqueV) else None
        want = BytesV(zmin(zmax(m.h["data_offset"] - 1, z3.IntVal(0)), m.RAW.n), m.RAW.at)
        return [("utf8_text", z3.BoolVal(isinstance(rv, OpaqueV) and rv.memo.get(("codec",)) == "utf-8")),
                ("of_the_bytes_before_the_terminating_nul", z3.Implies(m.h["data_offset"] >= 1, same_bytes(src, want)) if src is not None else z3.BoolVal(False))]

    out.append(_c("key", EM, post_key, raises={"UnicodeDecodeError": None}))

    # data
    class DataModel(EntryModel):
        def __init__(self, fop):
            super().__init__(fop=fop)
            del self.fields["self.data"]

    def post_data(fop):
        def post(eng, st, rv):
            m = eng.model
            if not fop:
                do = m.h["data_offset"]
                return [("bytes_from_data_offset_to_the_end_of_the_entry", z3.And(rv.n == zmax(m.RAW.n - do, z3.IntVal(0)), forall_k(rv.n, lambda k: rv.at(k) == m.RAW.at(do + k))))]
            return [("read_from_the_referenced_file_object", z3.BoolVal(st.ghost.get("get_fo") == 1)), ("exactly_the_pointer_size", st.ghost["fo_read_n"] == m.fo_size if "fo_read_n" in st.ghost else z3.BoolVal(False)),
                    ("the_file_objects_bytes", z3.And(rv.n == zmin(m.fo_size, m.FO.n), forall_k(rv.n, lambda k: rv.at(k) == m.FO.at(k))))]

        return post

    for fop in (False, True):
        out.append(_c("data", (lambda fop=fop: DataModel(fop)), post_data(fop), raises={"ValueError": None} if fop else {}, case=f"pointer={fop}"))

    # value, by type
    def post_value(t, fop):
        def post(eng, st, rv):
            m = eng.model
            D = m.DATA
            if t == "Int":
                return [("signed_le64_of_the_first_8_data_bytes", eng.as_int(rv, st, None) == signed64(le(D.at, z3.IntVal(0), 8)))]
            if t == "UInt":
                return [("unsigned_le64_of_the_first_8_data_bytes", eng.as_int(rv, st, None) == le(D.at, z3.IntVal(0), 8))]
            if t == "Bool":
                return [("le32_is_non_zero", eng.truthy(rv) == (le(D.at, z3.IntVal(0), 4) != 0))]
            if t == "Double":
                src = rv.memo.get(("double_from",)) if isinstance(rv, OpaqueV) else None
                return [("ieee754_double_of_the_first_8_data_bytes", same_bytes(src, BytesV(z3.IntVal(8), D.at)) if src is not None else z3.BoolVal(False))]
            ln = le(D.at, z3.IntVal(0), 4)
            want = BytesV(D.n, D.at) if fop else BytesV(zmin(ln, zmax(D.n - 4, z3.IntVal(0))), lambda i: D.at(4 + i))
            if t == "Array":
                return [("the_length_prefixed_bytes" if not fop else "the_whole_file_object_data", same_bytes(rv, want) if isinstance(rv, BytesV) else z3.BoolVal(False))]
            src = rv.memo.get(("decoded_from",)) if isinstance(rv, OpaqueV) else None
            return [("utf16le_text", z3.BoolVal(isinstance(rv, OpaqueV) and rv.memo.get(("codec",)) == "utf-16-le")),
                    ("of_the_length_prefixed_bytes" if not fop else "of_the_whole_file_object_data", same_bytes(src, want) if src is not None else z3.BoolVal(False))]

        return post

    for t in ("Int", "UInt", "Double", "Bool", "String", "Array"):
        for fop in ((False, True) if t in ("String", "Array") else (False,)):
            need = {"Int": 8, "UInt": 8, "Double": 8, "Bool": 4}.get(t, 0 if fop else 4)
            out.append(_c("value", (lambda t=t, fop=fop: EntryModel(type=T[t], fop=fop)), post_value(t, fop), case=f"{t},pointer={fop}",
                          raises={"UnicodeDecodeError": None} if t == "String" else {}, requires=(lambda m, need=need: m.hyps + [m.DATA.n >= need]),
                          note=f"data has at least {need} bytes (entries shorter than their value raise struct.error: not a stored tree)"))
    for t in ("Node", "Free", "Unknown"):
        c = _c("value", (lambda t=t: EntryModel(type=T[t], fop=False)), lambda eng, st, rv: [("no_value_for_this_type", z3.BoolVal(False))], case=f"{t}", raises={"TypeError": None})
        c.expect_no_return = True
        out.append(c)

    # parent
    def post_parent(eng, st, rv):
        m = eng.model
        if isinstance(rv, NoneV):
            return [("root_entries_have_parent_table_0", m.h["parent_table_idx"] == 0)]
        g = st.ghost
        ok = isinstance(rv, ObjV) and rv.path == "parent_entry" and all(k in g for k in ("kt_idx", "kt_pos", "lookup_off"))
        return [("looked_up_in_the_active_table_of_parent_table_idx_at_parent_offset",
                 z3.And(m.h["parent_table_idx"] != 0, g["kt_idx"] == m.h["parent_table_idx"], g["kt_pos"] == 0, g["lookup_off"] == m.h["parent_offset"]) if ok else z3.BoolVal(False))]

    out.append(_c("parent", EM, post_parent, raises={"KeyError": None}))

    # get_file_object
    class GfoModel(EntryModel):
        def __init__(self):
            super().__init__()
            del self.methods[("self", "get_file_object")]

    def post_gfo(eng, st, rv):
        m = eng.model
        return [("pointer_entries_only", m.fop), ("registered_object_at_the_pointer_offset", z3.And(m.fo_present, st.ghost["fo_lookup"] == m.fo_off) if "fo_lookup" in st.ghost else z3.BoolVal(False)),
                ("returns_it", z3.BoolVal(isinstance(rv, (ObjV, OptV))))]

    out.append(_c("get_file_object", GfoModel, post_gfo, raises={"TypeError": lambda eng, st: z3.Not(eng.model.fop), "ValueError": lambda eng, st: z3.Not(eng.model.fo_present)}))
    return out


# ------------------------------------------------------------------------------------------------ file object read
class FoModel(Model):
    def __init__(self):
        super().__init__()
        self.size, self.off = z3.Int("self.size"), z3.Int("self.offset")
        self.fields.update({"self.size": IntV(self.size), "self.offset": IntV(self.off), "self.file": ObjV("self.file"), "self.file.fh": FileV("fh")})
        self.fsize, self.arr = self.file_field("self.file.fh", "fh")
        self.n = z3.Int("n")
        self.truthy["fh"] = z3.BoolVal(True)


def fo_contract():
    def post(eng, st, rv):
        m = eng.model
        want = z3.If(m.n == -1, m.size, zmin(m.n, m.size))
        avail = zmax(zmin(want, m.fsize - m.off), z3.IntVal(0))
        return [("reads_min_n_size_bytes_at_the_objects_offset", z3.And(rv.n == avail, forall_k(rv.n, lambda k: rv.at(k) == z3.Select(m.arr, m.off + k))))]

    return FnContract(FILE, "HyperVStorageFileObject.read", ["C17"], FoModel, params=lambda m: {"self": ObjV("self"), "n": IntV(m.n)},
                      requires=lambda m: [m.size >= 0, m.off >= 0, m.fsize >= 0, m.n >= -1], post=post, raises={})


# ------------------------------------------------------------------------------------------------ key table walk
class WalkModel(Model):
    pymodule = MOD

    def __init__(self):
        super().__init__()
        c = importlib.import_module(CMOD)
        self.c = c
        self.size = z3.Int("size")
        self.offset = z3.Int("offset")
        self.ESIZE = z3.Function("entry_size_at", I, I)  # the size field of the entry header stored at a table offset
        self.fields["hyperv_file.fh"] = FileV("fh")
        self.fsize, self.arr = self.file_field("hyperv_file.fh", "fh")
        self.truthy["fh"] = z3.BoolVal(True)
        self.globals["c_hyperv"] = ObjV("c_hyperv")
        self.methods[("c_hyperv", "HyperVStorageKeyTable")] = lambda eng, st, args, node: cstruct_ext.parse_bytes(eng, st, self, c.c_hyperv.HyperVStorageKeyTable, "<", args[0], node)
        self.fields["c_hyperv.HyperVStorageKeyTable"] = ObjV("c_hyperv.HyperVStorageKeyTable")
        self.lens["c_hyperv.HyperVStorageKeyTable"] = IntV(z3.IntVal(len(c.c_hyperv.HyperVStorageKeyTable)))
        self.fields["c_hyperv.SIGNATURE_KEY_TABLE_HEADER"] = IntV(z3.IntVal(int(c.c_hyperv.SIGNATURE_KEY_TABLE_HEADER)))
        self.fields["c_hyperv.HyperVStorageKeyTableEntryHeader"] = ObjV("c_hyperv.HyperVStorageKeyTableEntryHeader")
        self.lens["c_hyperv.HyperVStorageKeyTableEntryHeader"] = IntV(z3.IntVal(len(c.c_hyperv.HyperVStorageKeyTableEntryHeader)))
        self.global_calls["HyperVStorageKeyTableEntry"] = self.new_entry
        self.globals["InvalidSignature"] = ObjV("InvalidSignature")
        self.setitems = {"self._lookup": self.lookup_set}
        self.stores = []

    def on_attr_store(self, eng, st, path, name, v, node):
        return "skip" if name in ("_lookup", "entries") else None  # the two containers are ghost-tracked through their contracts

    def new_entry(self, eng, st, args, node):
        tbl, off = args
        o = eng.as_int(off, st, node)
        eng.may_raise("EOFError", st, fresh("header_fits", B), node)
        p = f"entry!{len(self.fields)}"
        self.fields[f"{p}.size"] = IntV(self.ESIZE(o))
        st.hyps.append(z3.And(self.ESIZE(o) >= 0, self.ESIZE(o) <= U32))
        st.ghost["last_entry"] = (p, o)
        self.truthy[p] = z3.BoolVal(True)
        return ObjV(p)

    def lookup_set(self, eng, st, idx, v, node):
        last = st.ghost.get("last_entry")
        ok = last is not None and isinstance(v, ObjV) and v.path == last[0]
        eng.ob("lookup_keyed_by_the_entrys_own_offset", st, z3.And(z3.BoolVal(ok), eng.as_int(idx, st, node) == last[1]) if ok else z3.BoolVal(False), node, tag="")
        st.ghost["n_lookup"] = st.ghost.get("n_lookup", z3.IntVal(0)) + 1


def walk_contract():
    """entries are framed back to back: first at len(table header), next at offset + size, stop at size 0 or the table end; every
    registered entry is also entered in _lookup under its own offset"""
    H = 10

    def on_append(eng, st, x, node):
        raise Unsupported("tuple append")

    def inv(eng, st):
        m = eng.model
        eo = st.env["entry_offset"].e
        return z3.And(eo >= H, st.ghost["next_expected"] == eo, st.ghost["n_entries"] == st.ghost.get("n_lookup", z3.IntVal(0)), st.ghost["n_entries"] >= 0)

    class WM(WalkModel):
        pass

    def ghost(m):
        return {"next_expected": z3.IntVal(H), "n_entries": z3.IntVal(0), "n_lookup": z3.IntVal(0)}

    def entries_append(eng, st, recv, args, node):
        (v,) = args
        last = st.ghost.get("last_entry")
        ok = last is not None and isinstance(v, ObjV) and v.path == last[0]
        m = eng.model
        eng.ob("registered_entry_is_the_one_at_the_expected_offset", st, z3.And(z3.BoolVal(ok), last[1] == st.ghost["next_expected"], m.ESIZE(last[1]) != 0) if ok else z3.BoolVal(False), node, tag="")
        st.ghost["n_entries"] = st.ghost["n_entries"] + 1
        st.ghost["next_expected"] = last[1] + m.ESIZE(last[1]) if ok else st.ghost["next_expected"]

    def mk():
        m = WM()
        m.fields["self.entries"] = ObjV("self.entries")
        m.methods[("self.entries", "append")] = lambda eng, st, args, node: (entries_append(eng, st, None, args, node), NoneV())[1]
        m.fields["self._lookup"] = ObjV("self._lookup")
        return m

    def post(eng, st, rv):
        m = eng.model
        eo = st.env["entry_offset"].e
        return [("walk_ends_at_a_zero_size_entry_or_when_no_entry_header_fits", z3.Or(eo + HDR > m.size, m.ESIZE(eo) == 0)), ("every_entry_is_in_lookup", st.ghost["n_entries"] == st.ghost["n_lookup"])]

    loops = {("While", 0): LoopSpec(inv=inv, variant=lambda eng, st: eng.model.size - st.env["entry_offset"].e + 1, shapes={"entry": "local", "entry_offset": "int"},
                                    ghost_havoc={"next_expected": "int", "n_entries": "int", "n_lookup": "int"})}

    class InitAttrs:
        pass

    c = FnContract(FILE, "HyperVStorageKeyTable.__init__", ["C17"], mk, params=lambda m: {"self": ObjV("self"), "hyperv_file": ObjV("hyperv_file"), "offset": IntV(m.offset), "size": IntV(m.size)},
                   requires=lambda m: [m.size >= 0, m.offset >= 0, m.fsize >= 0, forall_k(m.fsize, lambda k: z3.And(z3.Select(m.arr, k) >= 0, z3.Select(m.arr, k) <= 255))],
                   post=post, loops=loops, ghost=ghost, raises={"EOFError": None, "InvalidSignature": None},
                   note="entry sizes are an uninterpreted function of the table offset; sizes of 0 end the walk (termination for positive sizes is C11)")
    return c


# ------------------------------------------------------------------------------------------------ HyperVFile.__init__ fragments
def extra_checks(rep, pid, ledger, known):
    """HyperVFile.__init__: (1) the active header is the one with the highest sequence number; (2) a key table is appended to the list
    of its index and that list is then sorted by sequence number, descending, and the linking loop uses element 0; (3) the linking
    loop body, for an arbitrary entry: free entries are ignored, an entry with a parent goes to parent.children[key], otherwise to
    root[key]"""
    name1, name2, name3 = "hyperv:HyperVFile.__init__/header_choice", "hyperv:HyperVFile.__init__/active_key_table", "hyperv:HyperVFile.__init__/link_loop"
    try:
        node, _ = find_function(rep.repo, FILE, "HyperVFile.__init__")
    except Unsupported as e:
        rep.unsupported.append(f"{name1}: unsupported({e})")
        return
    results = {}
    # (1) header choice: execute the assignment statement symbolically
    try:
        stmt = next(s for s in node.body if isinstance(s, ast.Assign) and ast.unparse(s.targets[0]) == "self.header")
        m = Model()
        s1, s2 = z3.Ints("seq1 seq2")
        m.fields.update({"header1.sequence_number": IntV(s1), "header2.sequence_number": IntV(s2)})
        m.truthy.update({"header1": z3.BoolVal(True), "header2": z3.BoolVal(True)})
        m.on_attr_store = lambda *a, **k: None
        eng = Engine(m, "hyperv:HyperVFile.__init__", node, allow_exc="*")
        st = State(env={"self": ObjV("self"), "header1": ObjV("header1"), "header2": ObjV("header2")}, hyps=[s1 >= 0, s1 <= 0xFFFF, s2 >= 0, s2 <= 0xFFFF], filepos={})
        ok, why = True, ""
        val = stmt.value
        if not (isinstance(val, ast.IfExp) and {ast.unparse(val.body), ast.unparse(val.orelse)} == {"header1", "header2"}):
            raise Unsupported("self.header is not chosen by a conditional expression between header1 and header2")
        cond = eng.truthy(eng.ev(val.test, st))
        for chosen, guard in ((ast.unparse(val.body), cond), (ast.unparse(val.orelse), z3.Not(cond))):
            s = z3.Solver()
            s.add(*st.hyps)
            s.add(guard)
            s.add(z3.Not((s1 >= s2) if chosen == "header1" else (s2 >= s1)))
            if s.check() != z3.unsat:
                ok, why = False, f"{chosen} is selected although the other header has a higher sequence number, e.g. {s.model()}"
        results[name1] = (ok, why, stmt.lineno)
    except (Unsupported, StopIteration) as e:
        rep.unsupported.append(f"{name1}: unsupported({e})")
    # (2) registration shape (call-site obligations on list.sort: assumed stable descending sort by key)
    try:
        src_calls = [n for n in ast.walk(node) if isinstance(n, ast.Call) and isinstance(n.func, ast.Attribute) and n.func.attr == "sort"]
        ok = (len(src_calls) == 1 and ast.unparse(src_calls[0].func.value) == "self.key_tables[key_table.index]"
              and {k.arg: ast.unparse(k.value) for k in src_calls[0].keywords} == {"key": "lambda table: table.sequence_number", "reverse": "True"})
        appends = [n for n in ast.walk(node) if isinstance(n, ast.Call) and isinstance(n.func, ast.Attribute) and n.func.attr == "append" and ast.unparse(n.func.value) == "self.key_tables[key_table.index]"]
        ok = ok and len(appends) == 1 and ast.unparse(appends[0].args[0]) == "key_table" and appends[0].lineno < src_calls[0].lineno
        actives = [s for s in ast.walk(node) if isinstance(s, ast.Assign) and ast.unparse(s.targets[0]) == "active_table"]
        ok = ok and len(actives) == 1 and ast.unparse(actives[0].value) == "key_tables[0]"
        link = next((l for l in ast.walk(node) if isinstance(l, ast.For) and ast.unparse(l.iter) == "self.key_tables.values()"), None)
        ok = ok and link is not None and ast.unparse(link.target) == "key_tables"
        results[name2] = (ok, "key tables of one index are not (append; sort by sequence_number descending; use element 0)", getattr(link, "lineno", 0))
    except Unsupported as e:
        rep.unsupported.append(f"{name2}: unsupported({e})")
    # (3) linking loop body for an arbitrary entry
    try:
        inner = next(l for l in ast.walk(node) if isinstance(l, ast.For) and ast.unparse(l.iter) == "active_table.entries")
        c = importlib.import_module(CMOD)
        m = Model()
        m.globals["KeyDataType"] = ObjV("KeyDataType")
        for nm, val in c.KeyDataType.__members__.items():
            m.fields[f"KeyDataType.{nm}"] = IntV(z3.IntVal(int(val)))
        t = z3.Int("entry.type")
        has_parent = z3.Bool("entry_has_parent")
        m.fields.update({"entry.type": IntV(t), "entry.parent": OptV(z3.Not(has_parent), ObjV("parent")), "entry.key": ObjV("entry.key"), "parent.children": ObjV("parent.children"), "self.root": ObjV("self.root")})
        m.truthy.update({"parent": z3.BoolVal(True), "entry": z3.BoolVal(True)})
        stores = []
        m.setitems = {"parent.children": lambda eng, st, idx, v, node: st.ghost.__setitem__("stores", st.ghost.get("stores", ()) + (("children", idx, v),)),
                      "self.root": lambda eng, st, idx, v, node: st.ghost.__setitem__("stores", st.ghost.get("stores", ()) + (("root", idx, v),))}
        eng = Engine(m, "hyperv:HyperVFile.__init__", node, allow_exc="*")
        st = State(env={"self": ObjV("self"), inner.target.id: ObjV("entry")}, hyps=[t >= 0, t <= 255], filepos={})
        ok, why = True, ""
        for e, out in eng.run(inner.body, st):
            sts = e.ghost.get("stores", ())
            s = z3.Solver()
            s.add(*e.hyps)
            free = t == T["Free"]

            def holds(cond):
                s.push()
                s.add(z3.Not(cond))
                r = s.check() == z3.unsat
                s.pop()
                return r

            if len(sts) == 0:
                if not holds(free):
                    ok, why = False, "an entry that is not free is left out of the tree"
            elif len(sts) == 1:
                where, idx, v = sts[0]
                good = isinstance(idx, ObjV) and idx.path == "entry.key" and isinstance(v, ObjV) and v.path == "entry"
                if not good or not holds(z3.And(z3.Not(free), has_parent if where == "children" else z3.Not(has_parent))):
                    ok, why = False, f"an entry is linked under {where} with the wrong key/value or under the wrong condition"
            else:
                ok, why = False, "an entry is linked more than once"
        results[name3] = (ok, why, inner.lineno)
    except (Unsupported, StopIteration) as e:
        rep.unsupported.append(f"{name3}: unsupported({e})")
    rep.functions.append({"function": f"{FILE}:HyperVFile.__init__ (header choice, key-table registration, linking loop body)", "contract": "see obligations", "props": ["C17"]})
    for nm, (ok, why, line) in results.items():
        rep.obligations[nm] = {"verdict": "discharged" if ok else "undischarged", "atoms": 1, "ms": 0, "backends": {"z3-5.1"}, "stages": set(), "line": line, "props": ["C17"]}
        if not ok:
            r = replay(rep, nm, None)
            p = driver.write_replay(pid, nm, {"property": pid, "obligation": nm, "verifier_output": why, **({"replayed": r["record"]} if r else {})})
            rep.violations.append((p, why + (f" -- replayed: {r['text']}" if r else ""), r is None))


def contracts(repo):
    return entry_contracts() + [fo_contract(), walk_contract()]


def _corpus(rep):
    import json
    import os
    import subprocess

    from replay.harness import PY, VERIF

    if getattr(rep, "_hv_corpus", None) is None:
        env = dict(os.environ, PYTHONPATH=f"{rep.repo}:{VERIF}")
        n = 600 if rep.tier == "quick" else 6000
        try:
            p = subprocess.run([PY, "-m", "replay.hyperv_corpus", str(rep.seed), str(n)], capture_output=True, text=True, timeout=1500, env=env, cwd=VERIF)
            rep._hv_corpus = json.loads(p.stdout) if p.returncode == 0 else {"error": p.stderr[-400:]}
        except Exception as e:  # noqa: BLE001
            rep._hv_corpus = {"error": f"{type(e).__name__}: {e}"}
    return rep._hv_corpus


def replay(rep, ob_name, qs):
    res = _corpus(rep)
    if "error" in res:
        rep.notes.append(f"hyperv corpus failed to run: {res['error']}")
        return None
    if not res["failures"]:
        return None
    f = res["failures"][0]
    return {"found": True, "finding_key": "hyperv:tree", "text": f"generated Hyper-V file (seed {f['seed']} case {f['case']}, {f['n_tables']} key tables, {f['opts']}): {f['problem'][:200]}",
            "record": {"hyperv_case": f, "rerun": "PYTHONPATH=/repo:/verif python -m replay.hyperv_corpus <seed> <n>"}}


def bounded(rep, pid, known):
    res = _corpus(rep)
    if "error" in res:
        rep.errors.append(f"hyperv corpus failed to run: {res['error']}")
        return
    rep.bounded.append({"block": "c17.trees", "level": "bounded (generated containers on the real code; NOT counted as proved)", "evaluations": res["evaluations"], "distinct_nontrivial": res["entries"],
                        "rule": res["rule"], "failures": res["n_failures"]})
    for f in res["failures"][:2]:
        p = driver.write_replay(pid, f"bounded.hyperv.case{f['case']}", {"property": pid, **f})
        rep.violations.append((p, f"generated Hyper-V file case {f['case']}: {f['problem'][:200]}", False))


def trusted(pid):
    return ["A3 cstruct parses the structures of c_hyperv.py per their declared layout (probed each run); enums accept any value of their base type",
            "bytes.decode(codec) and struct '<d' are opaque: the proof pins the decoded bytes and the codec, not the text/float conversion",
            "list.sort(key=..., reverse=True) is a stable descending sort; dict insertion/lookup (stdlib)", "whole-tree equality (recursion over the heap of dicts), object-table walk and file-object registration: bounded block only"]
