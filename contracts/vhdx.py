"""Contracts for dissect/hypervisor/disk/vhdx.py (C03; C07 sector-bitmap layering; C08, C11, C13).

Specification source: [MS-VHDX] v20240423 -- 2.5 BAT: 64-bit little-endian entries, State = bits 0..2, FileOffsetMB = bits 20..63;
payload BAT entry of block b is entry b + floor(b / ChunkRatio) (one sector-bitmap entry is interleaved after every ChunkRatio
payload entries), ChunkRatio = 2^23 * LogicalSectorSize / BlockSize; the sector-bitmap entry of chunk c is entry (c+1)*ChunkRatio + c.
Payload states: 0 NOT_PRESENT (parent if differencing, else zeros), 1 UNDEFINED, 2 ZERO, 3 UNMAPPED (zeros), 6 FULLY_PRESENT
(data at FileOffsetMB MiB), 7 PARTIALLY_PRESENT (differencing only: per-sector bitmap, bit set = sector present in this file,
bit i of the chunk's bitmap = sector i of the chunk, least significant bit first)."""
from __future__ import annotations

import importlib

import z3

from .common import *

FILE = "dissect/hypervisor/disk/vhdx.py"
MB = 1024 * 1024

from pyvc.engine import BIT as BITFN  # bit(v, j) = (v >> j) & 1 for 0 <= v < 256, 0 <= j < 8 (axioms below, table-checked every run)  # noqa: E402


def bit_axioms():
    # table check of the axioms (and of the reading of `(x & (1 << j)) >> j` as bit j of x) against CPython, every time they are used
    assert all(((0 >> j_) & 1) == 0 and ((255 >> j_) & 1) == 1 for j_ in range(8))
    assert all(0 <= ((v_ & (1 << j_)) >> j_) <= 1 and ((v_ & (1 << j_)) >> j_) == ((v_ >> j_) & 1) for v_ in range(256) for j_ in range(16))
    v, j = z3.Ints("bv bj")
    return [z3.ForAll([v, j], z3.And(BITFN(v, j) >= 0, BITFN(v, j) <= 1)),
            z3.ForAll([j], BITFN(0, j) == 0),
            z3.ForAll([j], z3.Implies(z3.And(0 <= j, j < 8), BITFN(255, j) == 1))]


def cv():
    return importlib.import_module("dissect.hypervisor.disk.c_vhdx")


def partial_run_ok(bitmap_at, s, n, t, c, plen):
    """per-element contract of the run sequence of _iter_partial_runs(bitmap, s, n): run (t, c) that starts `plen` bits after bit s
    of the bitmap (least significant bit of each byte first) is non-empty, stays inside the n requested bits, and all its bits are t.
    Used as the assumed contract at the call site in VHDX.read_sectors and as the per-yield obligation proved on the generator."""
    j = z3.Int("j")
    return z3.And(c >= 1, plen + c <= n, z3.Or(t == 0, t == 1),
                  z3.ForAll([j], z3.Implies(z3.And(0 <= j, j < c), BITFN(bitmap_at((s + plen + j) / 8), (s + plen + j) % 8) == t)))


class VhdxModel(Model):
    sbit_obligation = "ghost_assert[?]"  # the one obligation in which SBIT's definition is unfolded (the bitmap bridge); set by _read_sectors

    def __init__(self, ss, wf=True, differencing=True):
        super().__init__()
        c = cv()
        self.hyps = []
        self.ss = ss  # logical sector size: case parameter (512 | 4096)
        self.fsize, self.farr = self.file_field("self.fh", "fh")
        self.fields["self.sector_size"] = IntV(z3.IntVal(ss))
        self.spb = self.int_field("self._sectors_per_block")
        self.cr = self.int_field("self._chunk_ratio")
        self.size = self.int_field("self.size", 0, U64, self.hyps)
        self.obj_field("self.bat")
        self.obj_field("self.parent")
        self.has_parent = z3.Bool("has_parent") if differencing else z3.BoolVal(False)
        self.truthy["self.parent"] = self.has_parent
        self.nblocks = z3.Int("payload_blocks")
        self.PBS = z3.Function("PB_state", I, I)
        self.PBO = z3.Function("PB_offset_mb", I, I)
        self.SBO = z3.Function("SB_offset_mb", I, I)  # by block: offset of the sector bitmap block of the block's chunk
        self.PG = z3.Function("ParentGuest", I, I)
        self.G = z3.Function("Guest", I, I)
        self.SBIT = z3.Function("SBIT", I, I, I)  # opaque: sector-bitmap bit of (block, sector in block); definition unfolded only in the bridging lemma
        register_opaque("Guest", self.guest_def)
        register_opaque("SBIT", self.sbit, when=lambda name: name.endswith(VhdxModel.sbit_obligation))
        self.globals["MB"] = IntV(z3.IntVal(c.MB))
        self.globals["c_vhdx"] = ObjV("c_vhdx")
        for nm in ("PAYLOAD_BLOCK_NOT_PRESENT", "PAYLOAD_BLOCK_UNDEFINED", "PAYLOAD_BLOCK_ZERO", "PAYLOAD_BLOCK_UNMAPPED",
                   "PAYLOAD_BLOCK_FULLY_PRESENT", "PAYLOAD_BLOCK_PARTIALLY_PRESENT"):
            self.fields[f"c_vhdx.{nm}"] = IntV(z3.IntVal(int(getattr(c.c_vhdx, nm))))
        self.methods[("self.bat", "pb")] = self.pb
        self.methods[("self.bat", "sb")] = self.sb
        self.methods[("self.parent", "read_sectors")] = self.parent_read_sectors
        self.global_calls["_iter_partial_runs"] = self.partial_runs
        self._n = 0
        self.hyps += [z3.ForAll([T], z3.And(self.PBS(T) >= 0, self.PBS(T) <= 7, self.PBO(T) >= 0, self.PBO(T) < (1 << 44), self.SBO(T) >= 0, self.SBO(T) < (1 << 44))),
                      byte_range_axiom(self.farr), self.spb >= 0, self.cr >= 0, self.nblocks >= 0] + bit_axioms()
        if wf:
            # ChunkRatio * SectorsPerBlock == 2^23 (MS-VHDX 2.5: a sector bitmap block is 1 MiB = 2^23 bits); class invariant of __init__
            self.hyps += [self.spb > 0, self.cr > 0, self.cr * self.spb == (1 << 23), self.size <= self.nblocks * self.spb * ss,
                          z3.ForAll([T], z3.Implies(z3.And(0 <= T, T < self.nblocks),
                                                    z3.And(z3.Or(self.PBS(T) <= 3, self.PBS(T) >= 6),
                                                           z3.Implies(self.PBS(T) == 7, self.has_parent),
                                                           z3.Implies(self.PBS(T) >= 6, self.PBO(T) * MB + self.spb * ss <= self.fsize),
                                                           z3.Implies(self.PBS(T) == 7, self.SBO(T) * MB + MB <= self.fsize))))]

    # -- SPEC
    def sbit(self, blk, sib):
        bic_q, bic, f1 = ediv(blk, self.cr)
        sic = bic * self.spb + sib
        return BITFN(z3.Select(self.farr, self.SBO(blk) * MB + sic / 8), sic % 8), [f1]

    def guest_def(self, x):
        s, r, f1 = ediv(x, z3.IntVal(self.ss))
        blk, sib, f2 = ediv(s, self.spb)
        st = self.PBS(blk)
        here = z3.Select(self.farr, self.PBO(blk) * MB + sib * self.ss + r)
        sb = self.SBIT(blk, sib)
        return z3.If(st == 6, here, z3.If(st == 7, z3.If(sb == 1, here, self.PG(x)), z3.If(z3.And(st == 0, self.has_parent), self.PG(x), 0))), [f1, f2]

    # -- callee contracts (proved on the callees below)
    def _entry(self, st, state, off):
        self._n += 1
        p = f"bat_entry!{self._n}"
        self.fields[p + ".state"] = IntV(state)
        self.fields[p + ".file_offset_mb"] = IntV(off)
        self.truthy[p] = z3.BoolVal(True)
        st.ghost["io"] = st.ghost.get("io", z3.IntVal(0)) + 8
        return ObjV(p)

    def pb(self, eng, st, args, node):
        b = eng.as_int(args[0], st, node)
        eng.pre(st, b >= 0, node)
        eng.may_raise("ValueError", st, b < self.nblocks, node)
        return self._entry(st, self.PBS(b), self.PBO(b))

    def sb(self, eng, st, args, node):
        b = eng.as_int(args[0], st, node)
        eng.pre(st, z3.And(b >= 0, self.has_parent), node)  # sector bitmap entries exist for every chunk only in differencing files
        eng.may_raise("ValueError", st, b < self.nblocks, node)
        return self._entry(st, z3.IntVal(6), self.SBO(b))

    def parent_read_sectors(self, eng, st, args, node):
        s, c = (eng.as_int(a, st, node) for a in args)
        eng.pre(st, z3.And(s >= 0, c >= 0, s + c <= self.nblocks * self.spb), node)
        r = fresh_bytes("pr")
        st.hyps.append(z3.And(r.n == c * self.ss, forall_k(r.n, lambda k: r.at(k) == self.PG(s * self.ss + k))))
        return r

    def partial_runs(self, eng, st, args, node):
        bitmap, start, length = args
        s, n = eng.as_int(start, st, node), eng.as_int(length, st, node)
        eng.pre(st, z3.And(0 <= s, s < 8, n >= 1, 8 * bitmap.n >= s + n), node)

        def elem():
            return TupleV([IntV(fresh("run_type")), IntV(fresh("run_count"))])

        def ok(el, plen):
            return partial_run_ok(bitmap.at, s, n, el.items[0].e, el.items[1].e, plen)

        return SeqV(elem, ok, lambda el: el.items[1].e, n)


from pyvc.engine import fresh_bytes  # noqa: E402


def _bitmap_bridge(eng, st):
    """bridging lemma (R5, proved as its own obligation, then assumed): the bits of the fetched bitmap bytes are the
    specification's sector-bitmap bits of this block, starting at sector_in_block"""
    m = eng.model
    bm = st.env["sector_bitmap"]
    bit_idx, rc = st.env["bit_idx"].e, st.env["read_count"].e
    block, sib = st.env["block"].e, st.env["sector_in_block"].e
    i = z3.Int("i")
    return z3.ForAll([i], z3.Implies(z3.And(0 <= i, i < rc), BITFN(bm.at((bit_idx + i) / 8), (bit_idx + i) % 8) == m.SBIT(block, sib + i)))


def _run_bridge(ss):
    def f(eng, st):
        """bridging lemma (R5) for one bitmap run: the guest bytes of the run's sectors are the parent's bytes (run_type 0) or this
        file's bytes at the block's payload offset (run_type 1); proved from the run contract + the bitmap bridge, then assumed"""
        m = eng.model
        rt, rc = st.env["run_type"].e, st.env["run_count"].e
        rel, sector, sib = st.env["relative_sector"].e, st.env["sector"].e, st.env["sector_in_block"].e
        pbo = m.fields[st.env["bat_entry"].path + ".file_offset_mb"].e
        st.anchor(rel)
        base = (sector + rel) * ss
        return forall_k(rc * ss, lambda k: m.G(base + k) == z3.If(rt == 0, m.PG(base + k), z3.Select(m.farr, pbo * MB + (sib + rel) * ss + k)))

    return f


def _read_sectors(ss, mode, differencing, repo="/repo"):
    import ast as _ast

    from pyvc.engine import find_function, stmt_ordinal

    sector0, count0 = z3.Ints("sector0 count0")
    ghost = {}
    if mode == "functional":
        try:
            node, _ = find_function(repo, FILE, "VHDX.read_sectors")
            o = stmt_ordinal(node, lambda n: isinstance(n, _ast.Assign) and any(isinstance(t, _ast.Name) and t.id == "sector_bitmap" for t in n.targets))
            if o is not None:
                ghost[o] = _bitmap_bridge
                VhdxModel.sbit_obligation = f"ghost_assert[{o}]"
            o2 = stmt_ordinal(node, lambda n: isinstance(n, _ast.If) and isinstance(n.test, _ast.Compare) and isinstance(n.test.left, _ast.Name) and n.test.left.id == "run_type")
            if o2 is not None:
                ghost[("before", o2)] = _run_bridge(ss)
        except Unsupported:
            pass

    def mk():
        return VhdxModel(ss, wf=(mode == "functional"), differencing=differencing)

    def inv(eng, st):
        m = eng.model
        sector, count, acc = st.env["sector"].e, st.env["count"].e, st.env["sectors_read"].joined
        parts = [sector >= sector0, sector + count == sector0 + count0]
        if mode == "functional":
            parts += [count >= 0, acc.n == (sector - sector0) * ss, bytes_eq_guest(acc, m.G, sector0 * ss),
                      st.ghost["io"] <= (ss + 8 + 8 + 1) * (sector - sector0)]
        return z3.And(*parts)

    def inner_inv(eng, st):
        # partially-present block: runs so far cover `relative_sector` sectors from the start of this iteration's piece
        m = eng.model
        acc0 = st.ghost["@sectors_read"]
        acc = st.env["sectors_read"].joined
        rel = st.env["relative_sector"].e
        sector = st.env["sector"].e
        plen = st.ghost["plen0"]
        st.anchor(rel)  # sectors of this piece already produced
        st.anchor(rel * ss, cls="byte")
        return z3.And(rel == plen, acc.n == acc0.n + rel * ss,
                      forall_k(acc0.n, lambda k: acc.at(k) == acc0.at(k)),
                      forall_k(rel * ss, lambda k: acc.at(acc0.n + k) == m.G(sector * ss + k)),
                      st.ghost["io"] <= st.ghost["@io"] + rel * ss) if mode == "functional" else (rel == plen)

    def snapshot_io(eng, st):
        pass

    def post(eng, st, rv):
        m = eng.model
        if mode != "functional":
            return []
        r = ret_bytes(rv)
        return [("len", r.n == count0 * ss), ("content", bytes_eq_guest(r, m.G, sector0 * ss)), ("cost", st.ghost["io"] <= (ss + 17) * count0)]

    def requires(m):
        base = m.hyps + [sector0 >= 0, count0 >= 0]
        if mode == "functional":
            base.append(sector0 + count0 <= m.nblocks * m.spb)
        return base

    props = (["C03", "C08", "C13"] if not differencing else ["C07"]) if mode == "functional" else ["C11"]
    return FnContract(
        FILE, "VHDX.read_sectors", props, mk,
        params=lambda m: {"self": ObjV("self"), "sector": IntV(sector0), "count": IntV(count0)},
        requires=requires, post=post,
        loops={("While", 0): LoopSpec(inv, lambda eng, st: st.env["count"].e), ("For", 0): LoopSpec(inner_inv)}, ghost_asserts=ghost,
        shifts={"loop.For0": r"^$", "": r"^(sectors_read_len)!"}, units=(ss,), mode=mode, allow_any_exception=(mode != "functional"),
        case=f"ss={ss}" + (",differencing" if differencing else ",no-parent"),
        note="block size, chunk ratio, BAT contents, block placement and request symbolic; logical sector size is a case parameter (complete: {512, 4096})")


class VhdxStreamModel(Model):
    def __init__(self, ss):
        super().__init__()
        self.hyps = []
        self.ss = ss
        self.fields["self.sector_size"] = IntV(z3.IntVal(ss))
        self.size = self.int_field("self.size", 0, U64, self.hyps)
        self.cover = z3.Int("bat.cover_sectors")
        self.G = z3.Function("DiskGuest", I, I)
        self.methods[("self", "read_sectors")] = self.read_sectors
        self.hyps += [self.cover >= 0, self.size <= self.cover * ss]

    def read_sectors(self, eng, st, args, node):
        s, c = (eng.as_int(a, st, node) for a in args)
        eng.pre(st, z3.And(s >= 0, c >= 0, s + c <= self.cover), node)
        r = fresh_bytes("rs")
        st.hyps.append(z3.And(r.n == c * self.ss, forall_k(r.n, lambda k: r.at(k) == self.G(s * self.ss + k))))
        st.ghost["io"] = st.ghost.get("io", z3.IntVal(0)) + (self.ss + 17) * c
        return r


def _vhdx_read(ss):
    offset0, length0 = z3.Ints("offset0 length0")
    A, N = z3.Ints("A N")

    def post(eng, st, rv):
        m = eng.model
        return lstream_post(rv, m.G, offset0, length0, m.size) + [("cost", st.ghost["io"] <= (ss + 17) * N)]

    return FnContract(
        FILE, "VHDX._read", ["C03", "C07", "C08", "C13"], lambda: VhdxStreamModel(ss),
        params=lambda m: {"self": ObjV("self"), "offset": IntV(offset0), "length": IntV(length0)},
        requires=lambda m: m.hyps + [A >= 0, N >= 1, offset0 == ss * A, length0 == ss * N, offset0 < m.size],
        post=post, case=f"ss={ss}")


# ------------------------------------------------------------------------------------------------ BAT index arithmetic
class BatModel(Model):
    def __init__(self):
        super().__init__()
        from pyvc import cstruct_ext

        c = cv()
        self.hyps = []
        self.fsize, self.farr = self.file_field("self.vhdx.fh", "fh")
        self.obj_field("self.vhdx")
        self.offset = self.int_field("self.offset", 0, U64, self.hyps)
        self.cr = self.int_field("self.chunk_ratio")
        self.entry_count = self.int_field("self.entry_count")
        self.globals["c_vhdx"] = ObjV("c_vhdx")
        self.methods[("c_vhdx", "bat_entry")] = lambda eng, st, args, node: cstruct_ext.parse_struct(eng, st, self, c.c_vhdx.bat_entry, "<", args[0], node)
        self.methods[("self", "get")] = self.get
        self.hyps += [self.cr > 0, self.entry_count >= 0, byte_range_axiom(self.farr)]

    def raw(self, idx):  # SPEC: 64-bit little-endian BAT entry number idx
        return le(lambda i: z3.Select(self.farr, i), self.offset + 8 * idx, 8)

    def get(self, eng, st, args, node):
        e = eng.as_int(args[0], st, node)
        eng.pre(st, e >= 0, node)
        eng.may_raise("ValueError", st, e + 1 <= self.entry_count, node)
        self._idx = e
        return TupleV([IntV(e)])  # the entry is identified by its index (the decoding is proved on `get`)


def _bat_get():
    e0 = z3.Int("entry0")

    def post(eng, st, rv):
        m = eng.model
        raw = m.raw(e0)
        state = m.fields[f"{rv.path}.state"].e
        off = m.fields[f"{rv.path}.file_offset_mb"].e
        # SPEC (MS-VHDX 2.5.1): State = bits 0..2, FileOffsetMB = bits 20..63
        return [("state_bits_0_2", state == raw % 8), ("offset_bits_20_63", off == raw / (1 << 20)),
                ("read_at_index", m.struct_pos[rv.path] == m.offset + 8 * e0), ("cost", st.ghost["io"] <= 8)]

    return FnContract(FILE, "BlockAllocationTable.get", ["C03", "C13"], BatModel,
                      params=lambda m: {"self": ObjV("self"), "entry": IntV(e0)},
                      requires=lambda m: m.hyps + [e0 >= 0, m.offset + 8 * m.entry_count <= m.fsize], post=post,
                      raises={"ValueError": lambda eng, st: e0 + 1 > eng.model.entry_count})


def _bat_pb_sb(which):
    b0 = z3.Int("block0")

    def post(eng, st, rv):
        m = eng.model
        idx = rv.items[0].e
        if which == "pb":
            # SPEC: one sector-bitmap entry is interleaved after every ChunkRatio payload entries
            return [("payload_index", idx == b0 + b0 / m.cr)]
        # SPEC: the sector-bitmap entry of chunk c = b div ChunkRatio follows that chunk's ChunkRatio payload entries
        return [("bitmap_index", idx == (b0 / m.cr) * (m.cr + 1) + m.cr)]

    return FnContract(FILE, f"BlockAllocationTable.{which}", ["C03", "C13"] if which == "pb" else ["C07", "C13"], BatModel,
                      params=lambda m: {"self": ObjV("self"), "block": IntV(b0)},
                      requires=lambda m: m.hyps + [b0 >= 0], post=post, raises={"ValueError": None},
                      note="chunk ratio symbolic: covers disks large enough that sector-bitmap entries are interleaved in the BAT")


# ------------------------------------------------------------------------------------------------ sector-bitmap run generator
class PartialRunsModel(Model):
    def __init__(self):
        super().__init__()
        self.hyps = bit_axioms()


def _partial_runs():
    """_iter_partial_runs(bitmap, start_idx, length): the callee contract that VHDX.read_sectors assumes (partial_run_ok per run, the runs
    cover exactly `length` bits), proved here on the generator itself for every bitmap, start bit 0..7 and length."""
    s0, n0 = z3.Ints("start0 length0")
    BM = z3.Array("bitmap", I, I)
    BN = z3.Int("len(bitmap)")
    bm_at = lambda i: z3.Select(BM, i)  # noqa: E731

    def gbit(p):  # SPEC: bit number start0 + p of the bitmap, least significant bit of each byte first
        return BITFN(bm_at((s0 + p) / 8), (s0 + p) % 8)

    def pending(st):
        length, ct, cc, plen = st.env["length"].e, st.env["current_type"].e, st.env["current_count"].e, st.ghost["plen"]
        cons = n0 - length  # bits consumed so far = bits in the yielded runs + bits in the pending run
        j = z3.Int("j")
        st.anchor(plen, cc, cons, cls="byte")
        return cons, z3.And(length >= 0, plen >= 0, cc >= 0, plen + cc == cons, z3.Or(ct == 0, ct == 1),
                            z3.Implies(cc == 0, z3.And(cons == 0, ct == gbit(z3.IntVal(0)))),
                            z3.ForAll([j], z3.Implies(z3.And(0 <= j, j < cc), gbit(plen + j) == ct)))

    def inv_bytes(eng, st):
        i, start_idx = st.env["$i0"].e, st.env["start_idx"].e
        cons, pend = pending(st)
        return z3.And(start_idx == z3.If(i == 0, s0, 0), cons == z3.If(i == 0, 0, zmin(n0, 8 * i - s0)),
                      z3.Implies(st.env["length"].e > 0, s0 + cons == 8 * i + start_idx), pend)  # the next bit is bit start_idx of byte i

    def inv_bits(eng, st):
        b, start_idx = st.env["$i1"].e, st.env["start_idx"].e
        cons, pend = pending(st)
        i = st.env["$i0"].e
        return z3.And(st.env["length"].e == st.ghost["@length"] - (b - start_idx),
                      z3.Implies(st.ghost["@length"] > 0, s0 + cons == 8 * i + b), pend)  # the next bit is bit b of byte i

    def on_yield(eng, st, v, node):
        t, c = v.items
        plen = st.ghost["plen"]
        eng.ob("yield.run_ok", st, partial_run_ok(bm_at, s0, n0, t.e, c.e, plen), node)
        st.ghost["plen"] = plen + c.e

    def post(eng, st, rv):
        return [("runs_cover_exactly_length_bits", st.ghost["plen"] == n0)]

    return FnContract(
        FILE, "_iter_partial_runs", ["C07", "C03", "C08"], PartialRunsModel,
        params=lambda m: {"bitmap": BytesV(BN, bm_at), "start_idx": IntV(s0), "length": IntV(n0)},
        requires=lambda m: m.hyps + [byte_range_axiom(BM), BN >= 0, 0 <= s0, s0 < 8, n0 >= 1, 8 * BN >= s0 + n0],
        post=post, on_yield=on_yield, ghost=lambda m: {"plen": z3.IntVal(0)},
        loops={("For", 0): LoopSpec(inv_bytes, ghost_havoc={"plen": "int"}), ("For", 1): LoopSpec(inv_bits, ghost_havoc={"plen": "int"})},
        shifts=r"^(plen|current_count)!", mode="functional",
        note="generator: per-yield obligation partial_run_ok relative to the ghost position plen; bitmap bytes, start bit and length symbolic; "
             "(byte & (1 << j)) >> j is bit(byte, j), the function the specification is written in")


replay = make_replay("vhdx")
bounded = make_bounded("vhdx", "vhdx.small_scope", quick_specs=40, thorough_specs=300)


def trusted(pid):
    return ["A3 file objects; A3 dissect.cstruct bit-field layout of bat_entry (probed every run)", "A3 lru_cache transparent for BlockAllocationTable.get",
            "bit(v, j) axioms (0/255 bytes, range) are table-checked against CPython every run; (x & (1 << j)) >> j in _iter_partial_runs is read as bit(x, j) (exact for x >= 0, j >= 0, both obliged)", "A6 well-formed image as precondition (states in {0,1,2,3,6,7}; present blocks and bitmap blocks inside the file; state 7 only in differencing files)"]


def contracts(repo):
    out = []
    for ss in (512, 4096):
        out += [_read_sectors(ss, "functional", False, repo), _read_sectors(ss, "functional", True, repo), _vhdx_read(ss)]
    out.append(_read_sectors(512, "termination", True, repo))
    out += [_bat_get(), _bat_pb_sb("pb"), _bat_pb_sb("sb"), _partial_runs()]
    return out
