"""C06 / C07 / C10: HDD.open builds one layered stream per storage -- the image chain of every storage starts without a parent.

Shape obligation on the real AST of HDD.open (the loop nest is I/O plumbing outside the symbolic subset; what matters is the data flow
of `stream`): inside `for storage in ...storages`, `stream` is reset to None before the per-image loop, every HDS is constructed with
parent=<that stream>, the result of the image loop is what is appended for the storage, and nothing assigns `stream` outside the
storage loop.  A stream that survives from one storage to the next would make unallocated clusters of a later storage read the
previous storage's data."""
from __future__ import annotations

import ast

from pyvc import driver
from pyvc.engine import Unsupported, find_function

FILE = "dissect/hypervisor/disk/hdd.py"


def extra_checks(rep, pid, ledger, known):
    name = "hdd:HDD.open/per_storage_chain_starts_without_parent"
    why = []
    try:
        node, _ = find_function(rep.repo, FILE, "HDD.open")
        outer = next((n for n in node.body if isinstance(n, ast.For) and "storages" in ast.unparse(n.iter)), None)
        if outer is None:
            raise Unsupported("loop over the storages not found in HDD.open")
        inner_i = next((i for i, n in enumerate(outer.body) if isinstance(n, ast.For)), None)
        if inner_i is None:
            raise Unsupported("per-image loop not found inside the storage loop")
        inner = outer.body[inner_i]
        resets = [n for n in outer.body[:inner_i] if isinstance(n, ast.Assign) and ast.unparse(n.targets[0]) == "stream" and ast.unparse(n.value) == "None"]
        if not resets:
            why.append("`stream` is not reset to None at the start of each storage (a parent would leak from the previous storage)")
        for n in ast.walk(node):
            if isinstance(n, ast.Assign) and any(ast.unparse(t) == "stream" for t in n.targets):
                inside = any(n is x for x in ast.walk(outer))
                if not inside:
                    why.append("`stream` is assigned outside the storage loop")
        ctor = [n for n in ast.walk(inner) if isinstance(n, ast.Call) and ast.unparse(n.func) == "HDS"]
        if not ctor or not all(any(k.arg == "parent" and ast.unparse(k.value) == "stream" for k in c.keywords) for c in ctor):
            why.append("an HDS layer is not constructed with parent=stream (the layer below)")
        appends = [n for n in ast.walk(outer) if isinstance(n, ast.Call) and ast.unparse(n.func).endswith(".append") and "stream" in ast.unparse(n)]
        if not any(ast.unparse(a.args[0]) == "(storage, stream)" for a in appends if a.args):
            why.append("the storage's stream is not appended as (storage, stream)")
    except Unsupported as e:
        rep.unsupported.append(f"{name}: unsupported({e})")
        return
    # frame / order obligation on the snapshot chain: HDD.open binds `chain` once, to Descriptor.get_snapshot_chain(guid) (child -> root
    # order, contract in contracts/c11.py), walks it root-first through a reversed *copy or view* (chain[::-1] / reversed(chain)) and never
    # modifies the list it got from the callee (no in-place reverse / sort / pop / item store / del): the callee may hand out the same
    # list again, so a modified list would turn the layer order of a later open() upside down.
    name_c = "hdd:HDD.open/chain_walked_root_first_and_not_modified"
    why_c = []
    binds = [n for n in ast.walk(node) if isinstance(n, (ast.Assign, ast.AugAssign, ast.AnnAssign)) and any(isinstance(t, ast.Name) and t.id == "chain" for t in (n.targets if isinstance(n, ast.Assign) else [n.target]))]
    if len(binds) != 1 or not isinstance(binds[0], ast.Assign) or "get_snapshot_chain(" not in ast.unparse(binds[0].value) or not isinstance(binds[0].value, ast.Call):
        why_c.append("`chain` is not bound exactly once to the result of get_snapshot_chain(...)")
    if ast.unparse(inner.iter) not in ("chain[::-1]", "reversed(chain)"):
        why_c.append(f"the per-image loop iterates `{ast.unparse(inner.iter)}`, specified: the chain root first (chain[::-1] or reversed(chain))")
    for n in ast.walk(node):
        if isinstance(n, ast.Call) and isinstance(n.func, ast.Attribute) and isinstance(n.func.value, ast.Name) and n.func.value.id == "chain" and n.func.attr in (
                "reverse", "sort", "pop", "append", "extend", "insert", "remove", "clear", "__setitem__", "__delitem__"):
            why_c.append(f"the list returned by get_snapshot_chain is modified in place (chain.{n.func.attr}())")
        if isinstance(n, (ast.Assign, ast.AugAssign, ast.Delete)):
            for t in (n.targets if isinstance(n, (ast.Assign, ast.Delete)) else [n.target]):
                if isinstance(t, ast.Subscript) and isinstance(t.value, ast.Name) and t.value.id == "chain":
                    why_c.append("the list returned by get_snapshot_chain is modified in place (item store / delete)")
    rep.obligations[name_c] = {"verdict": "discharged" if not why_c else "undischarged", "atoms": 1, "ms": 0, "backends": {"set-inclusion"}, "stages": set(), "line": node.lineno, "props": ["C06", "C07", "C08", "C10"]}
    if why_c:
        text = "; ".join(sorted(set(why_c)))
        p = driver.write_replay(pid, name_c, {"property": pid, "obligation": name_c, "verifier_output": text})
        rep.violations.append((p, f"{name_c}: {text}", True))
    rep.functions.append({"function": f"{FILE}:HDD.open (storage / image loop nest)", "contract": "per-storage chain starts with parent None; each HDS layer gets the layer below; (storage, stream) appended", "props": ["C06", "C07", "C10"]})
    ok = not why
    rep.obligations[name] = {"verdict": "discharged" if ok else "undischarged", "atoms": 1, "ms": 0, "backends": {"set-inclusion"}, "stages": set(), "line": node.lineno, "props": ["C06", "C07", "C10"]}
    if not ok:
        text = "; ".join(sorted(set(why)))
        p = driver.write_replay(pid, name, {"property": pid, "obligation": name, "verifier_output": text})
        rep.violations.append((p, f"{name}: {text}", True))
