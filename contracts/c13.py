"""C13: lazy access (I/O proportional to the request) and correctness at multi-terabyte scale.

Proof part: every contract tagged C13 carries a ghost I/O-cost postcondition (io_bytes <= a*request + b) proved without assuming
cache hits, and the functional contracts are over mathematical integers with masks/shifts checked against the specification, so
a 32-bit truncation fails a content obligation.  Bounded part (this module): huge sparse images on a byte-counting SparseFile."""
from __future__ import annotations

import importlib

from pyvc import driver


def extra_checks(rep, pid, ledger, known):
    from replay import harness

    evals = 0
    distinct = 0
    worst = []
    for fmt in ("vhd", "vhdx", "vmdk", "vdi", "hds"):
        mod = importlib.import_module(f"replay.fmt_{fmt}")
        specs = []
        if hasattr(mod, "big_specs"):
            specs += mod.big_specs()
        import random

        rng = random.Random(rep.seed + 13)
        gen = mod.gen_specs(rng, 25)
        for sp in gen:
            sp["requests"] = [list(r) for r in mod.requests(sp, rng)[:25]]
        specs += gen
        cases = [{"spec": sp, "requests": [[r[0], r[1], "stream.read"] for r in sp.pop("requests")]} for sp in specs]
        res = harness.run_batch(rep.repo, fmt, cases, timeout=240, per_req_timeout=30.0)
        for case, r in zip(cases, res):
            distinct += 1
            for f in r["fails"]:
                if f["kind"] == "harness-error":
                    rep.errors.append(f"c13 harness error ({fmt}): {f['detail'][-300:]}")
                    continue
                p = driver.write_replay(pid, f"c13.{fmt}.{f['kind']}", {"property": pid, "fmt": fmt, "spec": case["spec"], "requests": [f.get("req", [0, 0]) + ["stream.read"]], "failure": f})
                if not any(v[0] == p for v in rep.violations):
                    rep.violations.append((p, f"{fmt} image at large scale: {f['kind']} {f.get('detail', '')[:120]} on request {f.get('req')}", False))
            for off, ln, api, io in r["stats"].get("per_request_io", []):
                evals += 1
                # a small multiple of the request (aligned to the 8 KiB stream buffer at both ends) + one mapping table per touched unit
                bound = 3 * (ln + 2 * 8192) + 131072
                if io > bound:
                    p = driver.write_replay(pid, f"c13.{fmt}.io", {"property": pid, "fmt": fmt, "spec": case["spec"], "requests": [[off, ln, api]], "io_bytes": io, "bound": bound})
                    if not any(v[0] == p for v in rep.violations):
                        rep.violations.append((p, f"{fmt}: read({off}, {ln}) cost {io} bytes of file I/O (bound {bound})", False))
                worst.append((io - 3 * ln, fmt, off, ln, io))
    worst.sort(reverse=True)
    rep.bounded.append({"block": "c13.scale_and_io", "level": "bounded (byte-counting sparse files, real code; NOT counted as proved)", "evaluations": evals, "distinct_nontrivial": distinct,
                        "rule": "per format: generated images + a 2 TiB VHD with blocks near the 2^32-sector limit, 256 MiB-block VHDX with interleaved BAT, SE-sparse clusters above 2^32; every read compared with the oracle and its file I/O compared with 3*(len+16 KiB)+128 KiB",
                        "failures": len(rep.violations), "largest_overheads": [dict(zip(("overhead", "fmt", "off", "len", "io"), w)) for w in worst[:5]]})
