"""C13: lazy access (I/O proportional to the request) and correctness at multi-terabyte scale.

Proof part: every contract tagged C13 carries a ghost I/O-cost postcondition (io_bytes <= a*request + b) proved without assuming
cache hits, and the functional contracts are over mathematical integers with masks/shifts checked against the specification, so
a 32-bit truncation fails a content obligation.  Bounded part (this module): huge sparse images on a byte-counting SparseFile."""
from __future__ import annotations

import ast
import importlib

from pyvc import driver


LOADERS = [  # (file, qualified name, how the table loader is memoised): the mechanisms the property names for on-demand table loading
    ("dissect/hypervisor/disk/qcow2.py", "QCow2.l1_table", "decorator:cached_property"), ("dissect/hypervisor/disk/hdd.py", "HDS.bat", "decorator:cached_property"),
    ("dissect/hypervisor/disk/qcow2.py", "QCow2.__init__", "wrap:self.l2_table = lru_cache(128)(self.l2_table)"),
    ("dissect/hypervisor/disk/vmdk.py", "SparseDisk.__init__", "wrap:self._lookup_grain_table = lru_cache(128)(self._lookup_grain_table)"),
    ("dissect/hypervisor/disk/vhdx.py", "BlockAllocationTable.__init__", "wrap:self.get = lru_cache(4096)(self.get)"),
    ("dissect/hypervisor/disk/vhd.py", "BlockAllocationTable.__init__", "wrap:self.get = lru_cache(4096)(self.get)")]


def loader_obligations(rep, pid):
    """every table loader is memoised (loaded at most once per table / entry), so the cost of the mapping metadata is paid once and not per request"""
    import ast
    import re

    from pyvc.engine import Unsupported, find_function

    for file, qual, how in LOADERS:
        name = f"{file.rsplit('/', 1)[-1][:-3]}:{qual}/table_loader_is_memoised"
        try:
            node, src = find_function(rep.repo, file, qual)
        except Unsupported as e:
            rep.unsupported.append(f"{name}: unsupported({e})")
            continue
        kind, what = how.split(":", 1)
        if kind == "decorator":
            ok = any(ast.unparse(d).split(".")[-1] == what for d in node.decorator_list)
        else:
            lhs = what.split(" = ")[0]
            ok = any(isinstance(s_, ast.Assign) and ast.unparse(s_.targets[0]) == lhs and re.fullmatch(r"(functools\.)?(lru_cache\((maxsize=)?(\d+|None)\)|cache)\(" + re.escape(lhs) + r"\)", ast.unparse(s_.value))
                     for s_ in ast.walk(node))
        rep.obligations[name] = {"verdict": "discharged" if ok else "undischarged", "atoms": 1, "ms": 0, "backends": {"set-inclusion"}, "stages": set(), "line": node.lineno, "props": ["C13"]}
        if not ok:
            p = driver.write_replay(pid, name, {"property": pid, "obligation": name, "verifier_output": f"{qual} is no longer memoised as `{what}`: the table would be re-read on every use"})
            rep.violations.append((p, f"{qual}: table loader is not memoised ({what} expected): mapping metadata would be re-read per request", True))
    rep.functions.append({"function": "table loaders of qcow2/hdd/vmdk/vhdx/vhd", "contract": "memoised: cached_property or lru_cache wrapping in __init__", "props": ["C13"]})


def stream_buffer_obligations(rep, pid):
    """every stream class of the package hands only the size to AlignedStream.__init__: the read granularity stays the library's default
    buffer (DISSECT_STREAM_BUFFER_SIZE, 8 KiB unless the user overrides it), which is the constant in the proved cost bounds
    io <= a * length + b * unit + c.  An `align` taken from the image (cluster size, block size) would make a 512-byte read cost a whole
    cluster / block of I/O."""
    import os

    root = os.path.join(rep.repo, "dissect", "hypervisor")
    for d, _dirs, fs in os.walk(root):
        for f in sorted(fs):
            if not f.endswith(".py"):
                continue
            rel = os.path.relpath(os.path.join(d, f), rep.repo)
            try:
                tree = ast.parse(open(os.path.join(d, f)).read())
            except (OSError, SyntaxError):
                continue
            for cls in [n for n in tree.body if isinstance(n, ast.ClassDef) and any(ast.unparse(b).split(".")[-1] == "AlignedStream" for b in n.bases)]:
                name = f"{f[:-3]}:{cls.name}.__init__/stream_buffer_is_the_default_size"
                calls = [c for c in ast.walk(cls) if isinstance(c, ast.Call) and ast.unparse(c.func) in ("super().__init__", "AlignedStream.__init__")]
                bad = [ast.unparse(c)[:80] for c in calls if len(c.args) > (2 if ast.unparse(c.func) == "AlignedStream.__init__" else 1) or any(k.arg in ("align", None) for k in c.keywords)]
                bad += [ast.unparse(s_)[:80] for s_ in ast.walk(cls) if isinstance(s_, (ast.Assign, ast.AugAssign)) and any(ast.unparse(t) == "self.align" for t in (s_.targets if isinstance(s_, ast.Assign) else [s_.target]))]
                rep.obligations[name] = {"verdict": "discharged" if not bad else "undischarged", "atoms": 1, "ms": 0, "backends": {"set-inclusion"}, "stages": set(), "line": cls.lineno, "props": ["C13"]}
                if bad:
                    p = driver.write_replay(pid, name, {"property": pid, "obligation": name, "verifier_output": f"{rel}: class {cls.name} sets the stream alignment itself: {bad}"})
                    rep.violations.append((p, f"{cls.name}: the stream buffer size is taken from the image / set by the class ({bad[0]}): small reads cost a whole buffer of that size", True))
    rep.functions.append({"function": "every AlignedStream subclass under dissect/hypervisor/**", "contract": "AlignedStream.__init__ receives the size only (default buffer size)", "props": ["C13"]})


def extra_checks(rep, pid, ledger, known):
    from replay import harness

    loader_obligations(rep, pid)
    stream_buffer_obligations(rep, pid)

    evals = 0
    distinct = 0
    worst = []
    for fmt in ("vhd", "vhdx", "vmdk", "vdi", "hds", "qcow2"):
        mod = importlib.import_module(f"replay.fmt_{fmt}")
        specs = []
        if hasattr(mod, "big_specs"):
            specs += mod.big_specs()
        import random

        rng = random.Random(rep.seed + 13)
        gen = mod.gen_specs(rng, 25)
        for sp in gen:
            sp["requests"] = [list(r) for r in mod.requests(sp, rng)[:25]]
        specs += gen
        cases = [{"spec": sp, "requests": [[r[0], r[1], "stream.read"] for r in sp.pop("requests")]} for sp in specs]
        res = harness.run_batch(rep.repo, fmt, cases, timeout=240, per_req_timeout=30.0)
        for case, r in zip(cases, res):
            distinct += 1
            for f in r["fails"]:
                if f["kind"] == "harness-error":
                    rep.errors.append(f"c13 harness error ({fmt}): {f['detail'][-300:]}")
                    continue
                p = driver.write_replay(pid, f"c13.{fmt}.{f['kind']}", {"property": pid, "fmt": fmt, "spec": case["spec"], "requests": [f.get("req", [0, 0]) + ["stream.read"]], "failure": f})
                if not any(v[0] == p for v in rep.violations):
                    rep.violations.append((p, f"{fmt} image at large scale: {f['kind']} {f.get('detail', '')[:120]} on request {f.get('req')}", False))
            for ri, (off, ln, api, io) in enumerate(r["stats"].get("per_request_io", [])):
                evals += 1
                # a small multiple of the request (aligned to the 8 KiB stream buffer at both ends) + one mapping table per touched unit;
                # a format that loads its whole map on first use (HDS BAT, QCOW2 L1) may spend the map's size once, on the first request
                bound = 3 * (ln + 2 * 8192) + 131072 + (case["spec"].get("meta_bytes", 0) if ri == 0 else 0)
                if io > bound:
                    p = driver.write_replay(pid, f"c13.{fmt}.io", {"property": pid, "fmt": fmt, "spec": case["spec"], "requests": [[off, ln, api]], "io_bytes": io, "bound": bound})
                    if not any(v[0] == p for v in rep.violations):
                        rep.violations.append((p, f"{fmt}: read({off}, {ln}) cost {io} bytes of file I/O (bound {bound})", False))
                worst.append((io - 3 * ln, fmt, off, ln, io))
    worst.sort(reverse=True)
    rep.bounded.append({"block": "c13.scale_and_io", "level": "bounded (byte-counting sparse files, real code; NOT counted as proved)", "evaluations": evals, "distinct_nontrivial": distinct,
                        "rule": "per format: generated images + a 2 TiB VHD with blocks near the 2^32-sector limit, 256 MiB-block VHDX with interleaved BAT, SE-sparse clusters above 2^32; every read compared with the oracle and its file I/O compared with 3*(len+16 KiB)+128 KiB",
                        "failures": len(rep.violations), "largest_overheads": [dict(zip(("overhead", "fmt", "off", "len", "io"), w)) for w in worst[:5]]})
