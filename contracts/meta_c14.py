"""Contracts for exposed image metadata (C14).

Three kinds of obligations, all on the real code of the repository under check:
 (1) layout: every on-disk structure whose fields are exposed is compared, field by field, with an independent table taken from the
     format specification (offset, width, byte order) by probing the real cstruct definition (one distinctive value per field);
 (2) constructor / walk contracts: QCow2Snapshot.__init__ (positions of extra data, id and name; entry size rounded up to 8),
     QCow2._read_extensions (one iteration = one specification step: header at `offset`, data at offset+8, next = offset + 8 +
     roundup8(len)), VHDX header choice by sequence number, ParentLocator key/value positions and codec, the embedded VMDK
     descriptor position, and -- in gate mode -- the plumbing  exposed attribute == parsed field  for VDI, HDS and VHD;
 (3) call-chain contracts (uninterpreted strings / XML elements, see contracts/config_c18.py) for DiskDescriptor.parse,
     ExtentDescriptor.__post_init__ and the Parallels DiskDescriptor.xml classes.
String decoding is opaque (the proof pins bytes and codec); end-to-end equality on concrete files is the bounded block."""
from __future__ import annotations

import ast
import importlib
import struct

import z3

from pyvc import cstruct_ext, driver
from pyvc.engine import Engine, State, find_function
from .common import *
from .config_c18 import FragModel, describe_, implies, sat
from .gates import GateModel, fld, parsed

D = "dissect/hypervisor/disk/"
# ---------------------------------------------------------------------------------------------- (1) specification layout tables
# (module, cstruct instance, structure): (byte order, total size or None, [(field, offset, width)])
SPEC_LAYOUTS = {
    ("dissect.hypervisor.disk.c_qcow2", "c_qcow2", "QCowHeader"): (">", None, [("magic", 0, 4), ("version", 4, 4), ("backing_file_offset", 8, 8), ("backing_file_size", 16, 4), ("cluster_bits", 20, 4), ("size", 24, 8),
                                                                   ("crypt_method", 32, 4), ("l1_size", 36, 4), ("l1_table_offset", 40, 8), ("refcount_table_offset", 48, 8), ("refcount_table_clusters", 56, 4),
                                                                   ("nb_snapshots", 60, 4), ("snapshots_offset", 64, 8), ("incompatible_features", 72, 8), ("compatible_features", 80, 8), ("autoclear_features", 88, 8),
                                                                   ("refcount_order", 96, 4), ("header_length", 100, 4), ("compression_type", 104, 1)]),
    ("dissect.hypervisor.disk.c_qcow2", "c_qcow2", "QCowExtension"): (">", 8, [("magic", 0, 4), ("len", 4, 4)]),
    ("dissect.hypervisor.disk.c_qcow2", "c_qcow2", "QCowSnapshotHeader"): (">", 40, [("l1_table_offset", 0, 8), ("l1_size", 8, 4), ("id_str_size", 12, 2), ("name_size", 14, 2), ("date_sec", 16, 4), ("date_nsec", 20, 4),
                                                                            ("vm_clock_nsec", 24, 8), ("vm_state_size", 32, 4), ("extra_data_size", 36, 4)]),
    ("dissect.hypervisor.disk.c_qcow2", "c_qcow2", "QCowSnapshotExtraData"): (">", 24, [("vm_state_size_large", 0, 8), ("disk_size", 8, 8), ("icount", 16, 8)]),
    ("dissect.hypervisor.disk.c_vhdx", "c_vhdx", "header"): ("<", None, [("checksum", 4, 4), ("sequence_number", 8, 8), ("log_version", 64, 2), ("version", 66, 2), ("log_length", 68, 4), ("log_offset", 72, 8)]),
    ("dissect.hypervisor.disk.c_vhdx", "c_vhdx", "region_table_header"): ("<", 16, [("checksum", 4, 4), ("entry_count", 8, 4)]),
    ("dissect.hypervisor.disk.c_vhdx", "c_vhdx", "region_table_entry"): ("<", 32, [("file_offset", 16, 8), ("length", 24, 4)]),
    ("dissect.hypervisor.disk.c_vhdx", "c_vhdx", "metadata_table_header"): ("<", 32, [("entry_count", 10, 2)]),
    ("dissect.hypervisor.disk.c_vhdx", "c_vhdx", "metadata_table_entry"): ("<", 32, [("offset", 16, 4), ("length", 20, 4)]),
    ("dissect.hypervisor.disk.c_vhdx", "c_vhdx", "file_parameters"): ("<", 8, [("block_size", 0, 4)]),
    ("dissect.hypervisor.disk.c_vhdx", "c_vhdx", "parent_locator_header"): ("<", 20, [("key_value_count", 18, 2)]),
    ("dissect.hypervisor.disk.c_vhdx", "c_vhdx", "parent_locator_entry"): ("<", 12, [("key_offset", 0, 4), ("value_offset", 4, 4), ("key_length", 8, 2), ("value_length", 10, 2)]),
    ("dissect.hypervisor.disk.c_vhd", "c_vhd", "footer"): (">", None, [("features", 8, 4), ("version", 12, 4), ("data_offset", 16, 8), ("timestamp", 24, 4), ("creator_version", 32, 4), ("original_size", 40, 8),
                                                                       ("current_size", 48, 8), ("disk_geometry", 56, 4), ("disk_type", 60, 4), ("checksum", 64, 4), ("saved_state", 84, 1)]),
    ("dissect.hypervisor.disk.c_vhd", "c_vhd", "dynamic_header"): (">", 1024, [("data_offset", 8, 8), ("table_offset", 16, 8), ("header_version", 24, 4), ("max_table_entries", 28, 4), ("block_size", 32, 4), ("checksum", 36, 4),
                                                                               ("parent_timestamp", 56, 4)]),
    ("dissect.hypervisor.disk.c_vdi", "c_vdi", "HeaderDescriptor"): ("<", None, [("Signature", 64, 4), ("Version", 68, 4), ("HeaderSize", 72, 4), ("BlocksOffset", 340, 4), ("DataOffset", 344, 4), ("NumCylinders", 348, 4),
                                                                                 ("NumHeads", 352, 4), ("NumSectors", 356, 4), ("SectorSize", 360, 4), ("DiskSize", 368, 8), ("BlockSize", 376, 4), ("BlockExtraData", 380, 4),
                                                                                 ("BlocksInHDD", 384, 4), ("BlocksAllocated", 388, 4)]),
    ("dissect.hypervisor.disk.c_hdd", "c_hdd", "pvd_header"): ("<", 64, [("m_Type", 16, 4), ("m_Heads", 20, 4), ("m_Cylinders", 24, 4), ("m_Sectors", 28, 4), ("m_Size", 32, 4), ("m_SizeInSectors_v1", 36, 4),
                                                                         ("m_SizeInSectors_v2", 36, 8), ("m_DiskInUse", 44, 4), ("m_FirstBlockOffset", 48, 4), ("m_Flags", 52, 4), ("m_FormatExtensionOffset", 56, 8)]),
    ("dissect.hypervisor.disk.c_vmdk", "c_vmdk", "VMDKSparseExtentHeader"): ("<", 512, [("version", 4, 4), ("flags", 8, 4), ("capacity", 12, 8), ("grain_size", 20, 8), ("descriptor_offset", 28, 8), ("descriptor_size", 36, 8),
                                                                                        ("num_grain_table_entries", 44, 4), ("secondary_grain_directory_offset", 48, 8), ("primary_grain_directory_offset", 56, 8),
                                                                                        ("overhead", 64, 8), ("is_dirty", 72, 1), ("compress_algorithm", 77, 2)]),
    # Hyper-V VMCX/VMRS containers and the ESXi envelope (no public specification: offsets as documented in the format notes of the
    # module headers and used by the independent encoders of replay/hyperv_corpus.py and replay/envelope_corpus.py)
    ("dissect.hypervisor.descriptor.c_hyperv", "c_hyperv", "HyperVStorageHeader"): ("<", 46, [("signature", 0, 4), ("checksum", 4, 4), ("sequence_number", 8, 2), ("version", 10, 4), ("alignment", 22, 4),
                                                                                              ("replay_log_offset", 26, 8), ("replay_log_size", 34, 8), ("header_size", 42, 4)]),
    ("dissect.hypervisor.descriptor.c_hyperv", "c_hyperv", "HyperVStorageReplayLog"): ("<", 34, [("signature", 0, 4), ("checksum", 4, 4), ("num_entries", 8, 4), ("max_entries", 13, 4)]),
    ("dissect.hypervisor.descriptor.c_hyperv", "c_hyperv", "HyperVStorageObjectTable"): ("<", 8, [("signature", 0, 4), ("num_entries", 4, 4)]),
    ("dissect.hypervisor.descriptor.c_hyperv", "c_hyperv", "HyperVStorageObjectTableEntry"): ("<", 18, [("type", 0, 1), ("checksum", 1, 4), ("offset", 5, 8), ("size", 13, 4), ("allocated", 17, 1)]),
    ("dissect.hypervisor.descriptor.c_hyperv", "c_hyperv", "HyperVStorageKeyTable"): ("<", 10, [("signature", 0, 2), ("index", 2, 2), ("sequence_number", 4, 2), ("checksum", 6, 4)]),
    ("dissect.hypervisor.descriptor.c_hyperv", "c_hyperv", "HyperVStorageKeyTableEntryHeader"): ("<", 21, [("type", 0, 2), ("size", 2, 4), ("parent_table_idx", 6, 2), ("parent_offset", 8, 4), ("checksum", 12, 4),
                                                                                                           ("insertion_sequence", 16, 4), ("data_offset", 20, 1)]),
    ("dissect.hypervisor.util.envelope", "c_envelope", "EnvelopeFileHeader"): ("<", 512, [("size", 504, 4), ("version", 508, 4)]),
    ("dissect.hypervisor.util.envelope", "c_envelope", "DataTransformAeadFooter"): ("<", 4096, [("size", 4088, 4), ("version", 4092, 4)]),
    ("dissect.hypervisor.util.envelope", "c_envelope", "DataTransformCryptoFooter"): ("<", 512, [("padding", 504, 4), ("version", 508, 4)]),
}
BYTES_FIELDS = {("c_vhdx", "header"): [("signature", 0, 4), ("file_write_guid", 16, 16), ("data_write_guid", 32, 16), ("log_guid", 48, 16)], ("c_vhdx", "region_table_entry"): [("guid", 0, 16)],
                ("c_vhdx", "metadata_table_entry"): [("item_id", 0, 16)], ("c_vhdx", "parent_locator_header"): [("locator_type", 0, 16)], ("c_vhd", "footer"): [("cookie", 0, 8), ("unique_id", 68, 16)],
                ("c_vhd", "dynamic_header"): [("cookie", 0, 8), ("parent_unique_id", 40, 16), ("parent_unicode_name", 64, 512)], ("c_vdi", "HeaderDescriptor"): [("UUIDVDI", 392, 16), ("UUIDSNAP", 408, 16), ("UUIDLink", 424, 16), ("UUIDParent", 440, 16)],
                ("c_hdd", "pvd_header"): [("m_Sig", 0, 16)], ("c_vmdk", "VMDKSparseExtentHeader"): [("magic", 0, 4)]}


def as_int_(v, endian):
    return int.from_bytes(bytes(v), "big" if endian == ">" else "little") if isinstance(v, (bytes, bytearray)) else int(v)


# constants of the formats, from the specifications (qcow2.txt; VMDK technote 5.0 / QEMU block/vmdk.c for SE-sparse; MS-VHDX 2.5.1.1; VDICore.h;
# ploop1_image.h) -- not from the repository: (module, cstruct name or None for a module-level name, constant) -> value
SPEC_CONSTANTS = {
    "c_qcow2": {("cs", "MIN_CLUSTER_BITS"): 9, ("cs", "MAX_CLUSTER_BITS"): 21, ("cs", "QCOW2_COMPRESSED_SECTOR_SIZE"): 512, ("cs", "QCOW2_COMPRESSION_TYPE_ZLIB"): 0, ("cs", "QCOW2_COMPRESSION_TYPE_ZSTD"): 1,
                ("cs", "L1E_SIZE"): 8, ("cs", "L2E_SIZE_NORMAL"): 8, ("cs", "L2E_SIZE_EXTENDED"): 16, ("cs", "L1E_OFFSET_MASK"): 0x00FFFFFFFFFFFE00, ("cs", "L2E_OFFSET_MASK"): 0x00FFFFFFFFFFFE00,
                ("cs", "L2E_COMPRESSED_OFFSET_SIZE_MASK"): 0x3FFFFFFFFFFFFFFF, ("cs", "QCOW_OFLAG_COPIED"): 1 << 63, ("cs", "QCOW_OFLAG_COMPRESSED"): 1 << 62, ("cs", "QCOW_OFLAG_ZERO"): 1,
                ("cs", "QCOW_EXTL2_SUBCLUSTERS_PER_CLUSTER"): 32, ("cs", "QCOW2_INCOMPAT_DIRTY"): 1, ("cs", "QCOW2_INCOMPAT_CORRUPT"): 2, ("cs", "QCOW2_INCOMPAT_DATA_FILE"): 4,
                ("cs", "QCOW2_INCOMPAT_COMPRESSION"): 8, ("cs", "QCOW2_INCOMPAT_EXTL2"): 16, ("cs", "QCOW2_EXT_MAGIC_END"): 0, ("cs", "QCOW2_EXT_MAGIC_BACKING_FORMAT"): 0xE2792ACA,
                ("cs", "QCOW2_EXT_MAGIC_FEATURE_TABLE"): 0x6803F857, ("cs", "QCOW2_EXT_MAGIC_DATA_FILE"): 0x44415441, (None, "QCOW2_MAGIC"): 0x514649FB},
    "c_vmdk": {("cs", "SPARSE_MAGICNUMBER"): 0x564D444B, ("cs", "SPARSE_GTE_EMPTY"): 0, ("cs", "SPARSE_GD_AT_END"): 0xFFFFFFFFFFFFFFFF, ("cs", "SPARSEFLAG_USE_REDUNDANT"): 2, ("cs", "SPARSEFLAG_COMPRESSED"): 0x10000,
               ("cs", "SPARSEFLAG_EMBEDDED_LBA"): 0x20000, ("cs", "SPARSE_COMPRESSALGORITHM_DEFLATE"): 1, ("cs", "SESPARSE_CONST_HEADER_MAGIC"): 0xCAFEBABE, ("cs", "SESPARSE_GRAIN_TYPE_MASK"): 0xF000000000000000,
               ("cs", "SESPARSE_GRAIN_TYPE_UNALLOCATED"): 0, ("cs", "SESPARSE_GRAIN_TYPE_FALLTHROUGH"): 0x1000000000000000, ("cs", "SESPARSE_GRAIN_TYPE_ZERO"): 0x2000000000000000,
               ("cs", "SESPARSE_GRAIN_TYPE_ALLOCATED"): 0x3000000000000000, ("cs", "GRAIN_MARKER_EOS"): 0, ("cs", "GRAIN_MARKER_GRAIN_TABLE"): 1, ("cs", "GRAIN_MARKER_GRAIN_DIRECTORY"): 2, ("cs", "GRAIN_MARKER_FOOTER"): 3,
               (None, "SECTOR_SIZE"): 512, (None, "COWD_MAGIC"): b"COWD", (None, "VMDK_MAGIC"): b"KDMV"},
    "c_vhdx": {("cs", "PAYLOAD_BLOCK_NOT_PRESENT"): 0, ("cs", "PAYLOAD_BLOCK_UNDEFINED"): 1, ("cs", "PAYLOAD_BLOCK_ZERO"): 2, ("cs", "PAYLOAD_BLOCK_UNMAPPED"): 3, ("cs", "PAYLOAD_BLOCK_FULLY_PRESENT"): 6,
               ("cs", "PAYLOAD_BLOCK_PARTIALLY_PRESENT"): 7, ("cs", "SB_BLOCK_NOT_PRESENT"): 0, ("cs", "SB_BLOCK_PRESENT"): 6, (None, "MB"): 1 << 20, (None, "ALIGNMENT"): 65536,
               (None, "BAT_REGION_GUID"): "2dc27766-f623-4200-9d64-115e9bfd4a08", (None, "METADATA_REGION_GUID"): "8b7ca206-4790-4b9a-b8fe-575f050f886e", (None, "FILE_PARAMETERS_GUID"): "caa16737-fa36-4d43-b3b6-33f0aa44e76b",
               (None, "VIRTUAL_DISK_SIZE_GUID"): "2fa54224-cd1b-4876-b211-5dbed83bf4b8", (None, "VIRTUAL_DISK_ID_GUID"): "beca12ab-b2e6-4523-93ef-c309e000c746", (None, "LOGICAL_SECTOR_SIZE_GUID"): "8141bf1d-a96f-4709-ba47-f233a8faab5f",
               (None, "PHYSICAL_SECTOR_SIZE_GUID"): "cda348c7-445d-4471-9cc9-e9885251c556", (None, "PARENT_LOCATOR_GUID"): "a8d35f2d-b30b-454d-abf7-d3d84834ab0c", (None, "VHDX_PARENT_LOCATOR_GUID"): "b04aefb7-d19e-4a81-b789-25b8e9445913"},
    "c_vhd": {(None, "SECTOR_SIZE"): 512},
    "c_vdi": {(None, "VDI_SIGNATURE"): 0xBEDA107F, (None, "UNALLOCATED"): -1, (None, "SPARSE"): -2},
    "c_hyperv": {("cs", "SIGNATURE_STORAGE_HEADER"): 0x01282014, ("cs", "FIRST_HEADER_OFFSET"): 0, ("cs", "SECOND_HEADER_OFFSET"): 0x1000, ("cs", "SIGNATURE_REPLAY_LOG_HEADER"): 0x01110003,
                 ("cs", "SIGNATURE_OBJECT_TABLE_HEADER"): 0x01110001, ("cs", "OBJECT_TABLE_OFFSET"): 0x2000, ("cs", "SIGNATURE_KEY_TABLE_HEADER"): 2,
                 ("enum", "ObjectEntryType.ObjectTable"): 1, ("enum", "ObjectEntryType.KeyTable"): 2, ("enum", "ObjectEntryType.File"): 3, ("enum", "ObjectEntryType.Free"): 4, ("enum", "ObjectEntryType.ReplayLog"): 6,
                 ("enum", "ObjectEntryType.ChangeTrackingBuffer"): 7, ("enum", "KeyDataType.Free"): 1, ("enum", "KeyDataType.Unknown"): 2, ("enum", "KeyDataType.Int"): 3, ("enum", "KeyDataType.UInt"): 4,
                 ("enum", "KeyDataType.Double"): 5, ("enum", "KeyDataType.String"): 6, ("enum", "KeyDataType.Array"): 7, ("enum", "KeyDataType.Bool"): 8, ("enum", "KeyDataType.Node"): 9, ("enum", "KeyDataFlag.FileObjectPointer"): 1},
    "c_envelope": {("enum", "AttributeType.Invalid"): 0, ("enum", "AttributeType.UInt8"): 1, ("enum", "AttributeType.UInt16"): 2, ("enum", "AttributeType.UInt32"): 3, ("enum", "AttributeType.UInt64"): 4,
                   ("enum", "AttributeType.Int8"): 5, ("enum", "AttributeType.Int16"): 6, ("enum", "AttributeType.Int32"): 7, ("enum", "AttributeType.Int64"): 8, ("enum", "AttributeType.Float"): 9,
                   ("enum", "AttributeType.Double"): 10, ("enum", "AttributeType.String"): 11, ("enum", "AttributeType.Bytes"): 12, (None, "FILE_HEADER_MAGIC"): b"DataTransformEnvelope",
                   (None, "FOOTER_AEAD_MAGIC"): b"DataTransformAeadFooter", (None, "FOOTER_CRYPTO_MAGIC"): b"DataTransformCryptoFooter", (None, "ENVELOPE_BLOCK_SIZE"): 4096,
                   ("typemap", "UInt8"): 1, ("typemap", "UInt16"): 2, ("typemap", "UInt32"): 4, ("typemap", "UInt64"): 8, ("typemap", "Int8"): 1, ("typemap", "Int16"): 2, ("typemap", "Int32"): 4, ("typemap", "Int64"): 8,
                   ("typemap", "Float"): 4, ("typemap", "Double"): 8},
    "c_hdd": {("cs", "SIGNATURE_STRUCTURED_DISK_V1"): b"WithoutFreeSpace", ("cs", "SIGNATURE_STRUCTURED_DISK_V2"): b"WithouFreSpacExt", ("cs", "SIGNATURE_DISK_IN_USE"): 0x746F6E59, ("cs", "SECTOR_LOG"): 9, (None, "SECTOR_SIZE"): 512},
}


def check_constants(rep, pid):
    """every constant of the definition modules that the read paths use has the value the format specification gives it"""
    only = LAYOUT_PROPS.get(pid)
    n = 0
    for cname, table in SPEC_CONSTANTS.items():
        if only is not None and cname not in only:
            continue
        name = f"constants:{cname}"
        why = []
        try:
            mod = importlib.import_module(CONST_MODULES.get(cname, "dissect.hypervisor.disk." + cname))
            cs = getattr(mod, cname)
            for (where, const), want in table.items():
                if where == "enum":
                    en, member = const.split(".")
                    have = int(getattr(getattr(cs, en), member).value)
                elif where == "typemap":  # width in bytes of the cstruct type an attribute type is read with
                    have = len(mod.ENVELOPE_ATTRIBUTE_TYPE_MAP[getattr(cs.AttributeType, const)])
                else:
                    have = getattr(cs if where == "cs" else mod, const, None)
                    if have is None and where == "cs":
                        have = getattr(cs, "consts", {}).get(const)
                norm = str(have).lower() if isinstance(want, str) else (bytes(have) if isinstance(want, bytes) and have is not None else have)
                n += 1
                if norm != want:
                    why.append(f"{const} is {have!r}, specified {want!r}" if not isinstance(want, int) or not isinstance(have, int) else f"{const} is {have:#x}, specified {want:#x}")
        except (ImportError, AttributeError, TypeError, ValueError) as e:
            why.append(f"constants cannot be read: {type(e).__name__}: {e}")
        rep.obligations[name] = {"verdict": "discharged" if not why else "undischarged", "atoms": len(table), "ms": 0, "backends": {"probe"}, "stages": set(), "line": 0, "props": [pid]}
        if why:
            r = replay(rep, name, None)
            p = driver.write_replay(pid, name, {"property": pid, "obligation": name, "verifier_output": "; ".join(why[:8]), **({"replayed": r["record"]} if r else {})})
            rep.violations.append((p, f"{name}: " + "; ".join(why[:3]) + (f" -- replayed: {r['text']}" if r else ""), r is None))
    rep.functions.append({"function": (", ".join(x + ".py" for x in only) if only else "c_*.py") + " (constants)", "contract": f"{n} masks, flags, states, magics and sizes equal the specification", "props": [pid]})


CONST_MODULES = {"c_hyperv": "dissect.hypervisor.descriptor.c_hyperv", "c_envelope": "dissect.hypervisor.util.envelope"}
LAYOUT_PROPS = {"C12": ("c_qcow2", "c_vmdk", "c_vhdx", "c_vhd", "c_vdi", "c_hdd", "c_hyperv", "c_envelope"), "C16": ("c_envelope",), "C17": ("c_hyperv",), "C01": ("c_qcow2",), "C02": ("c_vmdk",), "C03": ("c_vhdx",), "C04": ("c_vhd",), "C05": ("c_vdi",), "C06": ("c_hdd",), "C07": ("c_vhdx", "c_vdi", "c_hdd", "c_vmdk", "c_qcow2"),
                "C13": ("c_qcow2", "c_vmdk", "c_vhdx", "c_vhd", "c_vdi", "c_hdd"), "C14": None}


def check_extent_capture(rep, pid):
    """the extent-line pattern of the VMDK descriptor uses greedy quantifiers only: the exposed file name is the whole quoted name"""
    from pyvc import regexlang as R

    vm = importlib.import_module("dissect.hypervisor.disk.vmdk")
    lazy = R.lazy_quantifiers(vm.RE_EXTENT_DESCRIPTOR.pattern, vm.RE_EXTENT_DESCRIPTOR.flags)
    name = "vmdk:RE_EXTENT_DESCRIPTOR/capture.all_quantifiers_greedy"
    rep.obligations[name] = {"verdict": "discharged" if not lazy else "undischarged", "atoms": 1, "ms": 0, "backends": {"set-inclusion"}, "stages": set(), "line": 0, "props": [pid]}
    if lazy:
        w = 'RW 16 FLAT "my "old" disk-f001.vmdk" 0'
        mt = vm.RE_EXTENT_DESCRIPTOR.search(w)
        got = mt.groupdict().get("filename") if mt else None
        p = driver.write_replay(pid, name, {"property": pid, "obligation": name, "lazy_quantifiers": lazy, "witness_line": w, "captured_filename": got, "verifier_output": f"{len(lazy)} lazy quantifier(s) in RE_EXTENT_DESCRIPTOR"})
        rep.violations.append((p, f"RE_EXTENT_DESCRIPTOR has lazy quantifiers {lazy}; line {w!r} exposes the file name {got!r}", got == '"my "old" disk-f001.vmdk"'))


def check_layouts(rep, pid):
    """each specified field, written alone into an otherwise zero buffer, is what the real structure reports for that field -- for two
    distinctive values -- and every other specified field then reads zero"""
    n_fields = 0
    only = LAYOUT_PROPS.get(pid)
    for (modname, cname, sname), (endian, total, fields) in SPEC_LAYOUTS.items():
        if only is not None and cname not in only:
            continue
        name = f"layout:{cname}.{sname}"
        why = []
        try:
            cs = getattr(importlib.import_module(modname), cname)
            T = getattr(cs, sname)
            size = len(T)
            if total is not None and size != total:
                why.append(f"structure size {size}, specified {total}")
            if cs.endian != endian:
                why.append(f"byte order {cs.endian!r}, specified {endian!r}")
            bfields = BYTES_FIELDS.get((cname, sname), [])
            for fname, off, width in fields:
                for val in ((1 << (8 * width)) - 2, int.from_bytes(bytes(range(1, width + 1)), "big")):
                    buf = bytearray(max(size, off + width))
                    buf[off:off + width] = val.to_bytes(width, "big" if endian == ">" else "little")
                    obj = T(bytes(buf))
                    got = as_int_(getattr(obj, fname), endian)
                    if got != val:
                        why.append(f"{fname}: bytes {off}..{off + width} hold {val:#x}, the structure reports {got:#x}")
                        break
                    for other, o2, w2 in fields:
                        if other != fname and (o2 + w2 <= off or o2 >= off + width) and as_int_(getattr(obj, other), endian) != 0:
                            why.append(f"{other} is affected by the bytes of {fname}")
                    # the field depends on its own bytes only: same value when every other byte of the structure is 0xFF (a field that
                    # is wider than specified, or overlaps a neighbour, reads those bytes too)
                    buf = bytearray(b"\xff" * max(size, off + width))
                    buf[off:off + width] = val.to_bytes(width, "big" if endian == ">" else "little")
                    try:
                        got = as_int_(getattr(T(bytes(buf)), fname), endian)
                    except Exception as e:  # noqa: BLE001 -- e.g. an enum-typed neighbour that rejects 0xFF..: not a statement about this field
                        got = val
                    if got != val:
                        why.append(f"{fname}: bytes {off}..{off + width} hold {val:#x} and all other bytes 0xFF, the structure reports {got:#x} (the field reads bytes outside {off}..{off + width})")
                        break
                n_fields += 1
            for fname, off, width in bfields:
                buf = bytearray(size)
                pat = bytes((i * 7 + 1) % 251 for i in range(width))
                buf[off:off + width] = pat
                got = bytes(getattr(T(bytes(buf)), fname))
                if got != pat:
                    why.append(f"{fname}: bytes {off}..{off + width} are not what the structure reports")
                n_fields += 1
        except (AttributeError, ImportError, EOFError, TypeError, ValueError) as e:
            why.append(f"structure cannot be probed: {type(e).__name__}: {e}")
        rep.obligations[name] = {"verdict": "discharged" if not why else "undischarged", "atoms": len(fields), "ms": 0, "backends": {"probe"}, "stages": set(), "line": 0, "props": [pid]}
        if why:
            r = replay(rep, name, None)
            p = driver.write_replay(pid, name, {"property": pid, "obligation": name, "verifier_output": "; ".join(why[:6]), **({"replayed": r["record"]} if r else {})})
            rep.violations.append((p, f"{name}: " + "; ".join(why[:3]) + (f" -- replayed: {r['text']}" if r else ""), r is None))
    rep.functions.append({"function": (", ".join(x + ".py" for x in only) if only else "c_qcow2.py, c_vhdx.py, c_vhd.py, c_vdi.py, c_hdd.py, c_vmdk.py") + " (structure layouts)",
                          "contract": f"{n_fields} fields at the specified offset/width/byte order, each depending on its own bytes only", "props": [pid]})


# ---------------------------------------------------------------------------------------------- (2a) QCow2Snapshot.__init__
class SnapModel(Model):
    pymodule = "dissect.hypervisor.disk.qcow2"

    def __init__(self):
        super().__init__()
        c = importlib.import_module("dissect.hypervisor.disk.c_qcow2")
        self.c = c
        self.offset = z3.Int("offset")
        self.fields["qcow2.fh"] = FileV("fh")
        self.fsize, self.arr = self.file_field("qcow2.fh", "fh")
        self.truthy["fh"] = z3.BoolVal(True)
        self.globals["c_qcow2"] = ObjV("c_qcow2")
        self.methods[("c_qcow2", "QCowSnapshotHeader")] = lambda eng, st, args, node: cstruct_ext.parse_struct(eng, st, self, c.c_qcow2.QCowSnapshotHeader, ">", args[0], node)
        self.methods[("c_qcow2", "QCowSnapshotExtraData")] = self.parse_extra
        self.fields["c_qcow2.QCowSnapshotExtraData"] = ObjV("c_qcow2.QCowSnapshotExtraData")
        self.lens["c_qcow2.QCowSnapshotExtraData"] = IntV(z3.IntVal(len(c.c_qcow2.QCowSnapshotExtraData)))

    def parse_extra(self, eng, st, args, node):
        st.ghost["extra_arg"] = args[0]
        return cstruct_ext.parse_bytes(eng, st, self, self.c.c_qcow2.QCowSnapshotExtraData, ">", args[0], node)

    def on_attr_store(self, eng, st, path, name, v, node):
        return None


def _snapshot():
    def post(eng, st, rv):
        m = eng.model
        at = lambda i: z3.Select(m.arr, i)  # noqa: E731
        o = m.offset
        ex, ids, nms = be(at, o + 36, 4), be(at, o + 12, 2), be(at, o + 14, 2)
        idv, namev = st.attrs.get("self.id_str"), st.attrs.get("self.name")
        unk = st.attrs.get("self.unknown_extra")
        ea = st.ghost.get("extra_arg")
        goals = []

        def decoded(v, pos, n, what):
            src = v.memo.get(("decoded_from",)) if isinstance(v, OpaqueV) else None
            if src is None:
                return (what, z3.BoolVal(False))
            return (what, z3.And(z3.BoolVal(v.memo.get(("codec",)) == "utf-8"), src.n == n, forall_k(n, lambda k: src.at(k) == at(pos + k))))

        goals.append(decoded(idv, o + 40 + ex, ids, "id_is_the_utf8_text_after_the_extra_data"))
        goals.append(decoded(namev, o + 40 + ex + ids, nms, "name_is_the_utf8_text_after_the_id"))
        goals.append(("entry_size_rounded_up_to_8", eng.as_int(st.attrs["self.entry_size"], st, None) == ((40 + ex + ids + nms + 7) / 8) * 8))
        if isinstance(ea, BytesV):
            goals.append(("known_extra_fields_are_the_first_24_extra_bytes_zero_padded", z3.And(ea.n >= 24, forall_k(24, lambda k: ea.at(k) == z3.If(k < ex, at(o + 40 + k), 0)))))
        else:
            goals.append(("known_extra_fields_are_the_first_24_extra_bytes_zero_padded", z3.BoolVal(False)))
        un, uv = eng.opt_parts(unk)
        goals.append(("unknown_extra_is_the_rest_of_the_extra_data", z3.And(un == (ex <= 24), z3.Implies(ex > 24, z3.And(uv.n == ex - 24, forall_k(ex - 24, lambda k: uv.at(k) == at(o + 64 + k)))) if isinstance(uv, BytesV) else z3.BoolVal(False))))
        return goals

    c = FnContract(D + "qcow2.py", "QCow2Snapshot.__init__", ["C14"], SnapModel, params=lambda m: {"self": ObjV("self"), "qcow2": ObjV("qcow2"), "offset": IntV(m.offset)},
                   requires=lambda m: [m.offset >= 0, m.fsize >= 0, m.offset + 40 <= m.fsize, forall_k(m.fsize, lambda k: z3.And(z3.Select(m.arr, k) >= 0, z3.Select(m.arr, k) <= 255)),
                                       m.offset + 40 + be(lambda i: z3.Select(m.arr, i), m.offset + 36, 4) + be(lambda i: z3.Select(m.arr, i), m.offset + 12, 2) + be(lambda i: z3.Select(m.arr, i), m.offset + 14, 2) <= m.fsize],
                   post=post, raises={"UnicodeDecodeError": None}, note="the whole entry lies inside the file; offsets, sizes and contents symbolic")
    c.select_terms = True
    return c


# ---------------------------------------------------------------------------------------------- (2b) exposure contracts (gate mode)
def _exposures(repo):
    out = []

    def mk(relfile, modname, qual, clsname, params, post, note="", props=("C14",), extra=None):
        def model():
            m = GateModel(modname, relfile, clsname, repo=repo)
            if extra:
                extra(m)
            if "c_vhd" in m.cmods:  # read_footer(fh): used through its contract (returns the parsed c_vhd.footer, raises on a bad cookie)
                m.globals["read_footer"] = FuncRef_("read_footer")
                m.global_calls["read_footer"] = lambda eng, st, args, node: m.parse(eng, st, m.cmods["c_vhd"], m.cmods["c_vhd"].footer, args[0], node)
            m.global_calls["super"] = lambda eng, st, args, node: ObjV("super")
            m.methods[("super", "__init__")] = lambda eng, st, args, node, **kw: (st.ghost.__setitem__("super_init", (tuple(args), dict(kw))), NoneV())[1]
            return m

        return FnContract(relfile, qual, list(props), model, params=params, requires=lambda m: m.hyps, post=post, allow_any_exception=True, mode="exposure",
                          note=note or "gate mode: normal return => exposed attributes equal the parsed header fields")

    def stream_size(eng, st):
        a = st.ghost.get("super_init")
        if not a:
            raise Unsupported("AlignedStream.__init__ is not reached on this path")
        v = a[0][0] if a[0] else a[1].get("size")
        return eng.as_int(v, st, None)

    def vdi_model_extra(m):
        # array.array("i") and its frombytes/fromstring: the block map object; contract: the array holds the int32 values of the bytes it is given
        m.globals["array"] = ObjV("array_module")
        def new_array(eng, st, args, node):
            st.ghost["arrays_created"] = st.ghost.get("arrays_created", 0) + 1
            st.ghost["map_typecode"] = args[0].s if len(args) == 1 and isinstance(args[0], StrV) else None  # an initialiser argument is not the file's map
            return ObjV("block_map")

        m.methods[("array_module", "array")] = new_array
        m.truthy["block_map"] = z3.BoolVal(True)

        def load(eng, st, args, node):
            st.ghost["map_loads"] = st.ghost.get("map_loads", ()) + (args[0],)
            return NoneV()

        m.methods[("block_map", "frombytes")] = load
        m.methods[("block_map", "fromstring")] = load
        m.setitems = {"block_map": lambda eng, st, idx, v, node: st.ghost.__setitem__("map_stores", st.ghost.get("map_stores", 0) + 1)}

    def vdi_post(eng, st, rv):
        h = parsed(st, "HeaderDescriptor")
        g = lambda n: fld(eng, st, h, n).e  # noqa: E731
        a = lambda n: eng.as_int(st.attrs[f"self.{n}"], st, None)  # noqa: E731
        mp = st.attrs.get("self.map")
        loads = st.ghost.get("map_loads", ())
        fsize, arr = eng.model.file("fh")
        buf = loads[0] if len(loads) == 1 and isinstance(loads[0], BytesV) else None
        map_goal = z3.BoolVal(False)
        if isinstance(mp, ObjV) and mp.path == "block_map" and st.ghost.get("map_typecode") == "i" and st.ghost.get("arrays_created") == 1 and buf is not None and not st.ghost.get("map_stores"):
            want_n = zmax(zmin(4 * g("BlocksInHDD"), fsize - g("BlocksOffset")), z3.IntVal(0))
            map_goal = z3.And(buf.n == want_n, forall_k(buf.n, lambda k: buf.at(k) == arr(g("BlocksOffset") + k)))
        return [("block_map_is_the_int32_array_of_the_4_times_BlocksInHDD_bytes_at_BlocksOffset_and_nothing_else", map_goal),("size_is_DiskSize", stream_size(eng, st) == g("DiskSize")), ("block_size_is_BlockSize", a("block_size") == g("BlockSize")), ("sector_size_is_SectorSize", a("sector_size") == g("SectorSize")),
                ("data_offset_is_DataOffset", a("data_offset") == g("DataOffset"))]

    out.append(mk(D + "vdi.py", "dissect.hypervisor.disk.vdi", "VDI.__init__", "VDI", lambda m: {"self": ObjV("self"), "fh": FileV("fh"), "parent": OpaqueV("parent")}, vdi_post, props=("C14", "C05"), extra=vdi_model_extra))

    def hds_post(eng, st, rv):
        h = parsed(st, "pvd_header")
        g = lambda n: fld(eng, st, h, n).e  # noqa: E731
        a = lambda n: eng.as_int(st.attrs[f"self.{n}"], st, None)  # noqa: E731
        from .gates import bytes_is

        sig = fld(eng, st, h, "m_Sig")
        v1 = bytes_is(sig, b"WithoutFreeSpace")
        return [("size_is_512_times_the_sector_count_of_the_header_version", stream_size(eng, st) == 512 * z3.If(v1, g("m_SizeInSectors_v1"), g("m_SizeInSectors_v2"))),
                ("cluster_size_is_512_times_m_Sectors", a("cluster_size") == 512 * g("m_Sectors")), ("data_offset_is_m_FirstBlockOffset", a("data_offset") == g("m_FirstBlockOffset")),
                ("in_use_iff_the_in_use_signature", eng.truthy(st.attrs["self.in_use"]) == (g("m_DiskInUse") == 0x746F6E59))]

    out.append(mk(D + "hdd.py", "dissect.hypervisor.disk.hdd", "HDS.__init__", "HDS", lambda m: {"self": ObjV("self"), "fh": FileV("fh"), "parent": OpaqueV("parent")}, hds_post, props=("C14", "C06")))

    def disk_post(eng, st, rv):
        h = parsed(st, "footer")
        return [("size_is_footer_current_size", eng.as_int(st.attrs["self.size"], st, None) == fld(eng, st, h, "current_size").e)]

    out.append(mk(D + "vhd.py", "dissect.hypervisor.disk.vhd", "Disk.__init__", "Disk", lambda m: {"self": ObjV("self"), "fh": FileV("fh"), "footer": NoneV()}, disk_post,
                  note="footer not supplied: it is read from the file (read_footer is inlined by its contract: parses c_vhd.footer)", props=("C14", "C04")))
    return out


# ---------------------------------------------------------------------------------------------- fragments
def record(rep, pid, name, why, line):
    ok = not why
    rep.obligations[name] = {"verdict": "discharged" if ok else "undischarged", "atoms": 1, "ms": 0, "backends": {"z3-5.1"}, "stages": set(), "line": line, "props": ["C14"]}
    if not ok:
        text = "; ".join(sorted(set(why)))
        r = replay(rep, name, None)
        p = driver.write_replay(pid, name, {"property": pid, "obligation": name, "verifier_output": text, **({"replayed": r["record"]} if r else {})})
        rep.violations.append((p, f"{name}: {text}" + (f" -- replayed: {r['text']}" if r else ""), r is None))


def check_read_extensions(rep, pid):
    """QCow2._read_extensions, one loop iteration from an arbitrary `offset`: the extension header is parsed at `offset`; the walk stops
    (without exposing anything) if the header or the data would cross end_offset, or at the END magic; otherwise the data of a
    backing-format / feature-table / data-file / unknown extension is read at offset + 8 with exactly ext.len bytes, and the next
    iteration starts at offset + 8 + roundup8(ext.len).  Start: header_length; end: backing_file_offset or the cluster size"""
    name = "qcow2:QCow2._read_extensions/step"
    node, _ = find_function(rep.repo, D + "qcow2.py", "QCow2._read_extensions")
    loop = next(n for n in node.body if isinstance(n, ast.While))
    c = importlib.import_module("dissect.hypervisor.disk.c_qcow2")
    why = []

    class M(Model):
        pymodule = "dissect.hypervisor.disk.qcow2"

        def on_attr_store(self, eng, st, path, name, v, node):
            return None

    m = M()
    m.fields["self.fh"] = FileV("fh")
    fsize, arr = m.file_field("self.fh", "fh")
    m.truthy["fh"] = z3.BoolVal(True)
    m.globals["c_qcow2"] = ObjV("c_qcow2")
    m.methods[("c_qcow2", "QCowExtension")] = lambda eng, st, args, node: cstruct_ext.parse_struct(eng, st, m, c.c_qcow2.QCowExtension, ">", args[0], node)
    m.fields["c_qcow2.QCowExtension"] = ObjV("c_qcow2.QCowExtension")
    m.lens["c_qcow2.QCowExtension"] = IntV(z3.IntVal(len(c.c_qcow2.QCowExtension)))
    for nm in ("QCOW2_EXT_MAGIC_END", "QCOW2_EXT_MAGIC_BACKING_FORMAT", "QCOW2_EXT_MAGIC_FEATURE_TABLE", "QCOW2_EXT_MAGIC_CRYPTO_HEADER", "QCOW2_EXT_MAGIC_BITMAPS", "QCOW2_EXT_MAGIC_DATA_FILE"):
        m.fields[f"c_qcow2.{nm}"] = IntV(z3.IntVal(int(getattr(c.c_qcow2, nm))))
    for T in ("Qcow2CryptoHeaderExtension", "Qcow2BitmapHeaderExt"):
        m.methods[("c_qcow2", T)] = (lambda T: lambda eng, st, args, node: cstruct_ext.parse_struct(eng, st, m, getattr(c.c_qcow2, T), ">", args[0], node))(T)
    m.fields["self.unknown_extensions"] = ObjV("unknown_extensions")
    m.methods[("unknown_extensions", "append")] = lambda eng, st, args, node: (st.ghost.__setitem__("unknown", args[0]), NoneV())[1]
    off, end = z3.Ints("offset end_offset")
    at = lambda i: z3.Select(arr, i)  # noqa: E731
    eng = Engine(m, "qcow2:QCow2._read_extensions", node, allow_exc=("EOFError", "UnicodeDecodeError"))
    st = State(env={"self": ObjV("self"), "offset": IntV(off), "end_offset": IntV(end), "start_offset": IntV(off)},
               hyps=[off >= 0, end >= 0, off < end, end <= (1 << 21), fsize >= end, forall_k(fsize, lambda k: z3.And(at(k) >= 0, at(k) <= 255))], filepos={})
    magic, ln = be(at, off, 4), be(at, off + 4, 4)
    nxt = off + 8 + ((ln + 7) / 8) * 8
    SPEC = {"self.backing_format": 0xE2792ACA, "self.feature_table": 0x6803F857, "self.image_data_file": 0x44415441}
    n_cont = 0
    for e, out in eng.run(loop.body, st):
        if isinstance(out, tuple) and out[0] == "raise":
            continue
        hy = list(e.hyps)
        if out == "break":
            if not implies(hy, z3.Or(off + 8 > end, ln > end - (off + 8), magic == 0)):
                why.append("the walk stops at an extension that is neither invalid nor the END marker")
            if any(k in e.attrs for k in SPEC) or "unknown" in e.ghost:
                why.append("something is exposed on a path that stops the walk")
            continue
        n_cont += 1
        if not implies(hy, eng.as_int(e.env["offset"], e, None) == nxt):
            why.append("the next extension is not sought at offset + 8 + roundup8(len)")
        exposed = [k for k in SPEC if k in e.attrs]
        for k in exposed:
            v = e.attrs[k]
            src = v.memo.get(("decoded_from",)) if isinstance(v, OpaqueV) else v
            if not implies(hy, magic == SPEC[k]):
                why.append(f"{k} is set for another extension magic")
            if not isinstance(src, BytesV) or not implies(hy, z3.And(src.n == ln, z3.ForAll([K], z3.Implies(z3.And(0 <= K, K < ln), src.at(K) == at(off + 8 + K))))):
                why.append(f"{k} is not exactly the ext.len bytes at offset + 8")
            if isinstance(v, OpaqueV) and (v.memo.get(("codec",)) != "utf-8" or not v.tag.startswith("str")):
                why.append(f"{k} is not the plain UTF-8 decoding of the stored bytes ({v.tag})")
        if "unknown" in e.ghost:
            u = e.ghost["unknown"]
            ok = isinstance(u, TupleV) and len(u.items) == 2 and isinstance(u.items[1], BytesV)
            if not ok or not implies(hy, z3.And(u.items[1].n == ln, z3.ForAll([K], z3.Implies(z3.And(0 <= K, K < ln), u.items[1].at(K) == at(off + 8 + K))))):
                why.append("an unknown extension is not recorded with exactly its ext.len bytes")
            if sat(hy + [z3.Or(*[magic == v for v in list(SPEC.values()) + [0, 0x0537BE77, 0x23852875]])]):
                why.append("a known extension is filed as unknown")
    if n_cont == 0:
        why.append("no path continues the walk")
    # start / end of the walk
    src = ast.unparse(node)
    if "start_offset = self.header.header_length" not in src or "end_offset = self.header.backing_file_offset or 1 << self.cluster_bits" not in src or "offset = start_offset" not in src:
        why.append("the walk does not run from header_length to (backing_file_offset or the cluster size)")
    rep.functions.append({"function": D + "qcow2.py:QCow2._read_extensions (loop body + bounds)", "contract": " ".join(check_read_extensions.__doc__.split())[:300] + " (end_offset <= 2 MiB: header extensions lie in the first cluster)", "props": ["C14"]})
    record(rep, pid, name, why, node.lineno)


def check_vhdx(rep, pid):
    """VHDX.__init__: the active header is never the copy with the lower sequence number.  ParentLocator.__init__, loop body for an
    arbitrary entry: key = UTF-16-LE decoding of the key_length bytes at locator offset + key_offset, value likewise, entries[key] = value"""
    node, _ = find_function(rep.repo, D + "vhdx.py", "VHDX.__init__")
    why = []
    stmt = next((s for s in node.body if isinstance(s, ast.Assign) and ast.unparse(s.targets[0]) == "self.header"), None)
    if stmt is None or not (isinstance(stmt.value, ast.IfExp) and {ast.unparse(stmt.value.body), ast.unparse(stmt.value.orelse)} == {"header1", "header2"}):
        raise Unsupported("self.header is not chosen by a conditional expression between header1 and header2")
    m = Model()
    s1, s2 = z3.Ints("seq1 seq2")
    m.fields.update({"header1.sequence_number": IntV(s1), "header2.sequence_number": IntV(s2)})
    eng = Engine(m, "vhdx:VHDX.__init__", node, allow_exc="*")
    st = State(env={"header1": ObjV("header1"), "header2": ObjV("header2")}, hyps=[s1 >= 0, s1 <= U64, s2 >= 0, s2 <= U64], filepos={})
    cond = eng.truthy(eng.ev(stmt.value.test, st))
    for chosen, guard in ((ast.unparse(stmt.value.body), cond), (ast.unparse(stmt.value.orelse), z3.Not(cond))):
        if sat(st.hyps + [guard, z3.Not((s1 >= s2) if chosen == "header1" else (s2 >= s1))]):
            why.append(f"{chosen} is selected although the other copy has a higher sequence number")
    rep.functions.append({"function": D + "vhdx.py:VHDX.__init__ (header choice), ParentLocator.__init__ (entry loop body)", "contract": " ".join(check_vhdx.__doc__.split())[:300], "props": ["C14"]})
    record(rep, pid, "vhdx:VHDX.__init__/header_choice", why, stmt.lineno)
    # parent locator
    why = []
    node, _ = find_function(rep.repo, D + "vhdx.py", "ParentLocator.__init__")
    loop = next(n for n in node.body if isinstance(n, ast.For))
    if ast.unparse(loop.iter) != "self._entries":
        why.append("the loop does not run over the parsed entries")

    class M(FragModel):
        pass

    m = M()
    m.fields["fh"] = FileV("fh")
    fsize, arr = m.file_field("fh", "fh")
    at = lambda i: z3.Select(arr, i)  # noqa: E731
    base = z3.Int("self.offset")
    ko, vo, kl, vl = z3.Ints("key_offset value_offset key_length value_length")
    m.fields.update({"self.offset": IntV(base), "entry.key_offset": IntV(ko), "entry.value_offset": IntV(vo), "entry.key_length": IntV(kl), "entry.value_length": IntV(vl), "self.entries": OpaqueV("entries")})
    eng = Engine(m, "vhdx:ParentLocator.__init__", node, allow_exc=("UnicodeDecodeError",))
    hy0 = [base >= 0, ko >= 0, vo >= 0, kl >= 0, kl <= 0xFFFF, vl >= 0, vl <= 0xFFFF, fsize >= base + ko + kl, fsize >= base + vo + vl]
    st = State(env={"self": ObjV("self"), "fh": FileV("fh"), loop.target.id: ObjV("entry")}, hyps=list(hy0), filepos={})
    done = 0
    for e, out in eng.run(loop.body, st):
        if isinstance(out, tuple):
            continue
        done += 1
        k, v = e.env.get("key"), e.env.get("value")
        for what, val, pos, n in (("key", k, base + ko, kl), ("value", v, base + vo, vl)):
            src = val.memo.get(("decoded_from",)) if isinstance(val, OpaqueV) else None
            if src is None or val.memo.get(("codec",)) != "utf-16-le":
                why.append(f"the {what} is not decoded as UTF-16-LE")
            elif not implies(e.hyps, z3.And(src.n == n, z3.ForAll([K], z3.Implies(z3.And(0 <= K, K < n), src.at(K) == at(pos + K))))):
                why.append(f"the {what} is not the {what}_length bytes at locator offset + {what}_offset")
        ev = e.ghost.get("events", ())
        if len(ev) != 1 or ev[0][0] != "store" or ev[0][1] != "entries" or not (ev[0][2] == describe_(k) and ev[0][3] == describe_(v)):
            why.append(f"the pair is not stored as entries[key] = value: {ev}")
    if not done:
        why.append("the loop body never completes")
    record(rep, pid, "vhdx:ParentLocator.__init__/entry_decoding", why, node.lineno)


def check_vmdk(rep, pid):
    """SparseDisk.__init__: an embedded descriptor is the text before the first NUL of the descriptor_size * 512 bytes at
    descriptor_offset * 512, handed to DiskDescriptor.parse.  DiskDescriptor.parse, loop body for an arbitrary line: blank and '#' lines
    are skipped; RW/RDONLY/NOACCESS lines that match the extent grammar append one ExtentDescriptor built from the named groups and
    add its sector count; any other line stores <setting>.strip() -> <value>.strip(' "') of line.partition('=') in ddb (ddb.*) or attr.
    ExtentDescriptor.__post_init__: sectors -> int, filename without quotes, start_sector -> int"""
    why = []
    node, _ = find_function(rep.repo, D + "vmdk.py", "SparseDisk.__init__")
    src = ast.unparse(node)
    frag = next((n for n in ast.walk(node) if isinstance(n, ast.If) and ast.unparse(n.test) == "self.header.descriptor_size > 0"), None)
    if frag is None:
        raise Unsupported("embedded descriptor branch `if self.header.descriptor_size > 0` not found")
    m = FragModel()
    m.fields["fh"] = FileV("fh")
    fsize, arr = m.file_field("fh", "fh")
    at = lambda i: z3.Select(arr, i)  # noqa: E731
    do, ds = z3.Ints("descriptor_offset descriptor_size")
    m.fields.update({"self.header": ObjV("self.header"), "self.header.descriptor_offset": IntV(do), "self.header.descriptor_size": IntV(ds)})
    m.truthy["self.header"] = z3.BoolVal(True)
    m.globals["SECTOR_SIZE"] = IntV(z3.IntVal(512))
    m.globals["DiskDescriptor"] = ObjV("DiskDescriptor")
    m.methods[("DiskDescriptor", "parse")] = lambda eng, st, args, node: (st.ghost.__setitem__("parse_arg", args[0]), ObjV("descriptor"))[1]
    m.split_arg = None

    eng = Engine(m, "vmdk:SparseDisk.__init__", node, allow_exc="*")
    st = State(env={"self": ObjV("self"), "fh": FileV("fh")}, hyps=[do >= 0, ds > 0, fsize >= (do + ds) * 512], filepos={})
    # bytes.split(b"\x00", 1)[0] is the prefix before the first NUL (stdlib, assumed): modelled as an uninterpreted prefix of its receiver
    ok_paths = 0
    try:
        for e, out in eng.run(frag.body, st):
            if isinstance(out, tuple):
                continue
            ok_paths += 1
            buf = e.env.get("descriptor_buf")
            if not isinstance(buf, BytesV) or not implies(e.hyps, z3.And(buf.n == ds * 512, z3.ForAll([K], z3.Implies(z3.And(0 <= K, K < buf.n), buf.at(K) == at(do * 512 + K))))):
                why.append("the descriptor buffer is not the descriptor_size * 512 bytes at descriptor_offset * 512")
    except Unsupported as ex:
        # the split/decode chain on bytes is outside the byte model: check it syntactically on the real source instead
        if "split" not in str(ex) and "decode" not in str(ex):
            raise
        ok_paths = 1
        seek_ok = "fh.seek(self.header.descriptor_offset * SECTOR_SIZE)" in src and "descriptor_buf = fh.read(self.header.descriptor_size * SECTOR_SIZE)" in src
        if not seek_ok:
            why.append("the descriptor buffer is not read as descriptor_size * 512 bytes at descriptor_offset * 512")
    if "DiskDescriptor.parse(descriptor_buf.split(b'\\x00', 1)[0].decode())" not in src:
        why.append("the embedded descriptor is not the decoded text before the first NUL of the buffer")
    if ok_paths == 0:
        why.append("the embedded descriptor branch never completes")
    rep.functions.append({"function": D + "vmdk.py:SparseDisk.__init__ (embedded descriptor), DiskDescriptor.parse (line loop body), ExtentDescriptor.__post_init__", "contract": " ".join(check_vmdk.__doc__.split())[:300], "props": ["C14"]})
    record(rep, pid, "vmdk:SparseDisk.__init__/embedded_descriptor_position", why, frag.lineno)
    # DiskDescriptor.parse
    why = []
    node, _ = find_function(rep.repo, D + "vmdk.py", "DiskDescriptor.parse")
    loop = next(n for n in node.body if isinstance(n, ast.For))
    m = FragModel()
    m.globals["RE_EXTENT_DESCRIPTOR"] = OpaqueV("RE")
    m.globals["log"] = OpaqueV("log")
    m.global_calls["ExtentDescriptor"] = lambda eng, st, args, node, **kw: (st.ghost.__setitem__("extent_kw", {k: describe_(v) for k, v in kw.items()}), ObjV("extent"))[1]
    m.fields["extent.sectors"] = IntV(z3.Int("extent.sectors"))
    m.truthy["extent"] = z3.BoolVal(True)
    eng = Engine(m, "vmdk:DiskDescriptor.parse", node, allow_exc="*")
    st = State(env={"cls": OpaqueV("cls"), "vmdk_config": OpaqueV("text"), "descriptor_settings": OpaqueV("attr"), "disk_db": OpaqueV("ddb"), "extents": ListV(EMPTY_()), "sectors": IntV(z3.Int("sectors0"))}, hyps=[], filepos={})
    it = describe_(eng.ev(loop.iter, st))
    if it != "text.split('\\n')":
        why.append(f"lines come from {it}; specified text.split('\\n')")
    st.env[loop.target.id] = OpaqueV("line")
    L = "line.strip()"
    KEY, VAL = f"{L}.partition('=')#0.strip()", f"{L}.partition('=')#2.strip(' \"')"
    kinds = set()
    for e, out in eng.run(loop.body, st):
        if isinstance(out, tuple):
            continue
        ev = e.ghost.get("events", ())
        stripped = eng.opaque_calls.get(L)
        comment = eng.opaque_calls.get(f"{L}.startswith('#')")
        is_ext = eng.opaque_calls.get(f"{L}.startswith(('RW ', 'RDONLY ', 'NOACCESS '))") or eng.opaque_calls.get(f"{L}.startswith(<TupleV>)")
        if stripped is None or comment is None or is_ext is None:
            why.append("lines are not classified by strip() / startswith('#') / startswith(('RW ', 'RDONLY ', 'NOACCESS '))")
            break
        skip = z3.Or(z3.Not(eng.truthy(stripped)), eng.truthy(comment))
        ext = z3.And(z3.Not(skip), eng.truthy(is_ext))
        if not ev:
            # nothing recorded: a skipped line, or an extent line the grammar rejects (logged and dropped)
            match = eng.opaque_calls.get(f"RE.search({L})")
            cond = z3.Or(skip, z3.And(ext, z3.Not(eng.truthy(match)))) if match is not None else skip
            if not implies(e.hyps, cond):
                why.append("a setting line or a matching extent line is dropped")
            kinds.add("skip")
        elif ev[0][0] == "append":
            kinds.add("extent")
            kw = e.ghost.get("extent_kw", {})
            if ev != (("append", "extents", "extent"),) or kw.get("raw") != L or not any(v.startswith(f"RE.search({L}).groupdict()") for v in kw.values()):
                why.append(f"an extent line does not append ExtentDescriptor(raw=line, **match.groupdict()): {ev} {kw}")
            if not implies(e.hyps, ext):
                why.append("a line that is not an extent line is filed as an extent")
            if not implies(e.hyps, eng.as_int(e.env["sectors"], e, None) == z3.Int("sectors0") + z3.Int("extent.sectors")):
                why.append("the total sector count is not increased by the extent's sectors")
        elif ev[0][0] == "store":
            kinds.add("setting")
            isddb = eng.opaque_calls.get(f"{KEY}.startswith('ddb.')")
            want_base = None
            if len(ev) != 1 or (ev[0][2], ev[0][3]) != (KEY, VAL):
                why.append(f"a setting is stored as {ev}; specified [{KEY}] = {VAL}")
            elif isddb is None or not implies(e.hyps, z3.And(z3.Not(skip), z3.Not(eng.truthy(is_ext)), eng.truthy(isddb) if ev[0][1] == "ddb" else z3.Not(eng.truthy(isddb)))):
                why.append("a setting goes to the wrong dictionary (ddb.* -> ddb, everything else -> attr) or a skipped/extent line is stored")
    if kinds != {"skip", "extent", "setting"}:
        why.append(f"line kinds handled: {sorted(kinds)}")
    record(rep, pid, "vmdk:DiskDescriptor.parse/line_loop", why, node.lineno)
    # ExtentDescriptor.__post_init__
    why = []
    node, _ = find_function(rep.repo, D + "vmdk.py", "ExtentDescriptor.__post_init__")
    m = FragModel()
    for f_ in ("sectors", "filename", "start_sector"):
        m.fields[f"self.{f_}"] = OpaqueV(f_)
    m.global_calls["int"] = lambda eng, st, args, node: OpaqueV(f"int({describe_(args[0])})")
    eng = Engine(m, "vmdk:ExtentDescriptor.__post_init__", node, allow_exc="*")
    st = State(env={"self": ObjV("self")}, hyps=[], filepos={})
    outs = [(e, o) for e, o in eng.run(node.body, st) if not isinstance(o, tuple) or o[0] == "return"]
    for e, out in outs:
        fn_t, ss_t = eng.truthy(m.fields["self.filename"]), eng.truthy(m.fields["self.start_sector"])
        got = {k: describe_(e.attrs[f"self.{k}"]) if f"self.{k}" in e.attrs else None for k in ("sectors", "filename", "start_sector")}
        if got["sectors"] != "int(sectors)":
            why.append(f"sectors becomes {got['sectors']}; specified int(sectors)")
        if got["filename"] not in (None, "filename.strip('\"')") or (got["filename"] is None and sat(list(e.hyps) + [fn_t])) or (got["filename"] is not None and sat(list(e.hyps) + [z3.Not(fn_t)])):
            why.append(f"filename becomes {got['filename']}; specified: without the surrounding quotes, when present")
        if got["start_sector"] not in (None, "int(start_sector)") or (got["start_sector"] is None and sat(list(e.hyps) + [ss_t])):
            why.append(f"start_sector becomes {got['start_sector']}; specified int(start_sector) when present")
    if not outs:
        why.append("never completes")
    record(rep, pid, "vmdk:ExtentDescriptor.__post_init__/conversions", why, node.lineno)


def EMPTY_():
    from pyvc.engine import EMPTY

    return EMPTY


def check_hdd_xml(rep, pid):
    """Parallels DiskDescriptor.xml classes: Storage(start = int(Start.text), end = int(End.text), images = Image.from_xml over
    iterfind('Image')); Image(UUID(GUID.text), Type.text, File.text); Shot(UUID(GUID.text), UUID(ParentGUID.text));
    Snapshots(top_guid = UUID(TopGUID.text) iff the element exists, shots = Shot.from_xml over iterfind('Shot'));
    StorageData(Storage.from_xml over iterfind('Storage')); Descriptor: StorageData / Snapshots from find('StorageData') / find('Snapshots')"""
    F = D + "hdd.py"
    why = []

    def run(qual, env):
        node, _ = find_function(rep.repo, F, qual)
        m = FragModel()
        m.global_calls["int"] = lambda eng, st, args, node: OpaqueV(f"int({describe_(args[0])})")
        m.global_calls["UUID"] = lambda eng, st, args, node: OpaqueV(f"UUID({describe_(args[0])})")
        m.global_calls["list"] = lambda eng, st, args, node: OpaqueV(f"list({describe_(args[0])})")
        m.global_calls["map"] = lambda eng, st, args, node: OpaqueV(f"map({', '.join(describe_(a) for a in args)})")
        m.global_calls["cls"] = lambda eng, st, args, node, **kw: (st.ghost.__setitem__("cls_args", tuple(describe_(a) for a in args)), ObjV("instance"))[1]
        for g_ in ("Storage", "Image", "Shot", "StorageData", "Snapshots"):
            m.globals[g_] = OpaqueV(g_)
        eng = Engine(m, f"hdd:{qual}", node, allow_exc="*")
        st = State(env=dict(env), hyps=[], filepos={})
        return node, eng, [(e, o) for e, o in eng.run(node.body, st) if isinstance(o, tuple) and o[0] == "return"]

    el = {"element": OpaqueV("el")}
    for qual, want in (("Storage._from_xml", ("int(el.find('Start').text)", "int(el.find('End').text)", "list(map(Image.from_xml, el.iterfind('Image')))")),
                       ("Image._from_xml", ("UUID(el.find('GUID').text)", "el.find('Type').text", "el.find('File').text")),
                       ("Shot._from_xml", ("UUID(el.find('GUID').text)", "UUID(el.find('ParentGUID').text)")),
                       ("StorageData._from_xml", ("list(map(Storage.from_xml, el.iterfind('Storage')))",))):
        node, eng, outs = run(qual, {**el, "cls": FuncRef_("cls")})
        got = [e.ghost.get("cls_args") for e, o in outs]
        if got != [want]:
            why.append(f"{qual} builds {got}; specified {want}")
    node, eng, outs = run("Snapshots._from_xml", {**el, "cls": FuncRef_("cls")})
    tg = eng.opaque_calls.get("el.find('TopGUID')")
    if tg is None:
        why.append("Snapshots: TopGUID is not looked up")
    else:
        is_none = tg.memo.get(("eq", "None"))
        for e, o in outs:
            a = e.ghost.get("cls_args")
            if not a or len(a) != 2 or a[1] != "list(map(Shot.from_xml, el.iterfind('Shot')))":
                why.append(f"Snapshots builds {a}")
                continue
            if a[0] == "UUID(el.find('TopGUID').text)":
                if is_none is None or not implies(e.hyps, z3.Not(is_none)):
                    why.append("Snapshots: TopGUID parsed although the element may be missing")
            elif is_none is None or not implies(e.hyps, is_none):
                why.append(f"Snapshots: a present TopGUID element is exposed as {a[0]} instead of UUID(text) (presence must be tested with `is not None`: a childless element is falsy)")
        if not outs:
            why.append("Snapshots._from_xml never returns")
    rep.functions.append({"function": F + ": Storage/Image/Shot/StorageData/Snapshots._from_xml", "contract": " ".join(check_hdd_xml.__doc__.split())[:300], "props": ["C14"]})
    record(rep, pid, "hdd:DiskDescriptor.xml/element_to_field_mapping", why, 0)


def FuncRef_(name):
    from pyvc.engine import FuncRef

    return FuncRef(name)


def extra_checks(rep, pid, ledger, known):
    if pid != "C14":
        # other properties use the exposure contracts of this module (selected through their props) and the layout obligations of the
        # structures their format is parsed with: a field that moved or changed width changes what the read path computes from it
        if pid in LAYOUT_PROPS:
            check_layouts(rep, pid)
            check_constants(rep, pid)
        return
    for fn in (check_layouts, check_constants, check_extent_capture, check_read_extensions, check_vhdx, check_vmdk, check_hdd_xml):
        try:
            fn(rep, pid)
        except (Unsupported, StopIteration) as e:
            rep.unsupported.append(f"{fn.__name__}: unsupported({e})")


def contracts(repo):
    return [_snapshot()] + _exposures(repo)


def _corpus(rep):
    import json
    import os
    import subprocess

    from replay.harness import PY, VERIF

    if getattr(rep, "_meta_corpus", None) is None:
        env = dict(os.environ, PYTHONPATH=f"{rep.repo}:{VERIF}")
        n = 120 if rep.tier == "quick" else 2500
        try:
            p = subprocess.run([PY, "-m", "replay.meta_corpus", str(rep.seed), str(n)], capture_output=True, text=True, timeout=1500, env=env, cwd=VERIF)
            rep._meta_corpus = json.loads(p.stdout) if p.returncode == 0 else {"error": p.stderr[-400:]}
        except Exception as e:  # noqa: BLE001
            rep._meta_corpus = {"error": f"{type(e).__name__}: {e}"}
    return rep._meta_corpus


FMT_OF = {"qcow2": "qcow2", "c_qcow2": "qcow2", "vhdx": "vhdx", "c_vhdx": "vhdx", "vmdk": "vmdk", "c_vmdk": "vmdk", "vhd": "vhd", "c_vhd": "vhd", "vdi": "vdi", "c_vdi": "vdi", "hdd": "hdd", "c_hdd": "hds"}


def replay(rep, ob_name, qs):
    res = _corpus(rep)
    if "error" in res:
        rep.notes.append(f"metadata corpus failed to run: {res['error']}")
        return None
    head = ob_name.split(":")[1].split(".")[0] if ob_name.startswith("layout:") else ob_name.split(":")[0]
    fmts = {FMT_OF.get(head, head)} | ({"hds"} if head in ("hdd", "c_hdd") else set())
    fails = [f for f in res["failures"] if f["format"] in fmts]
    if not fails:
        return None
    f = fails[0]
    return {"found": True, "finding_key": f"meta:{f['format']}", "text": f"generated {f['format']} metadata (seed {f['seed']} case {f['case']}): {f['problem'][:220]}",
            "record": {"meta_case": f, "rerun": "PYTHONPATH=/repo:/verif python -m replay.meta_corpus <seed> <n>"}}


def bounded(rep, pid, known):
    if pid != "C14":
        return
    res = _corpus(rep)
    if "error" in res:
        rep.errors.append(f"metadata corpus failed to run: {res['error']}")
        return
    rep.bounded.append({"block": "c14.metadata", "level": "bounded (generated metadata on the real code; NOT counted as proved)", "evaluations": res["evaluations"], "distinct_nontrivial": res["evaluations"],
                        "rule": res["rule"], "failures": res["n_failures"], "groups": res["groups"]})
    seen = set()
    for f in res["failures"]:
        if f["format"] in seen:
            continue
        seen.add(f["format"])
        p = driver.write_replay(pid, f"bounded.meta.{f['format']}", {"property": pid, **f})
        rep.violations.append((p, f"generated {f['format']} metadata case {f['case']}: {f['problem'][:220]}", False))


def trusted(pid):
    if pid != "C14":
        return ["gate-mode frame assumption for the constructor exposure contract (unknown calls do not change parsed header fields); cstruct layout probed under C14"]
    return ["A3 cstruct parses a structure per its declared layout; the layout obligations probe the real definitions field by field against the specification tables",
            "bytes.decode(codec), int(), UUID(), re (extent grammar: C10), ElementTree find/iterfind, dict/list semantics: assumed (stdlib); the proof pins which bytes / call chains feed which exposed value",
            "gate-mode frame assumption for the exposure contracts (unknown calls do not change parsed fields)",
            "QCow2.__init__ backing-name read, QCow2.snapshots table walk, VHDX metadata item lookup, VHD dynamic header exposure, HDD/Descriptor file handling: bounded block only"]
