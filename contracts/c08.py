"""C08: a disk stream behaves as an immutable byte array under any access history.

Proof part: (1) AlignedStream (contracts.stream) against the L-stream contract of `_read`; (2) each format's `_read` / read_sectors
satisfies that L-stream contract (contracts tagged C08 in the format modules), with the same Guest function for the byte and the
sector interface; (3) history independence: the functional contracts mention only (offset, length) and the immutable image; the
engine obliges that no attribute is assigned outside __init__ (frame.no_attribute_store) and tracks the file position, so a read
that is not preceded by its own seek cannot satisfy its content obligation; lru_cache / cached_property wrappers are over functions
whose contracts make the result a function of the arguments and the file only.
Bounded part: random operation histories for every format x stream buffer sizes."""
from __future__ import annotations

import json
import os
import subprocess

from pyvc import driver


def extra_checks(rep, pid, ledger, known):
    pass


def bounded(rep, pid, known):
    from replay.harness import PY, VERIF

    n = 12 if rep.tier == "quick" else 80
    procs = []
    for fmt in ("vhd", "vdi", "hds", "vhdx", "vmdk", "hdd", "qcow2"):
        for align in (512, 1536, 4096, 8192, 12288):
            env = dict(os.environ, PYTHONPATH=f"{rep.repo}:{VERIF}", DISSECT_STREAM_BUFFER_SIZE=str(align))
            procs.append((fmt, align, subprocess.Popen([PY, "-m", "replay.history_real", fmt, str(rep.seed + align), str(n)], stdout=subprocess.PIPE, stderr=subprocess.PIPE, text=True, env=env, cwd=VERIF)))
    evals = distinct = 0
    nf = 0
    for fmt, align, p in procs:
        try:
            out, err = p.communicate(timeout=600)
            res = json.loads(out)
        except Exception as e:  # noqa: BLE001
            p.kill()
            rep.errors.append(f"history block {fmt}/{align} failed to run: {type(e).__name__}: {e} {err[-300:] if 'err' in dir() else ''}")
            continue
        evals += res["evaluations"]
        distinct += res["distinct"]
        for f in res["failures"][:2]:
            nf += 1
            key = f"{fmt}:history:{f['kind']}"
            pth = driver.write_replay(pid, f"history.{fmt}.{align}.{f['kind']}", {"property": pid, "fmt": fmt, **f})
            if not any(v[0] == pth for v in rep.violations):
                rep.violations.append((pth, f"{fmt} stream, buffer {align}: {f['kind']} after history {f.get('history')} {f.get('detail', '')[:100]}", False))
    rep.bounded.append({"block": "c08.histories", "level": "bounded (random operation sequences on the real streams; NOT counted as proved)", "evaluations": evals, "distinct_nontrivial": distinct,
                        "rule": "6 stream classes x stream buffer sizes {512, 1536, 4096, 8192, 12288} (DISSECT_STREAM_BUFFER_SIZE) x generated images x 40-step histories of seek(SET/CUR/END)/read(0, small, aligned+-1, -1, past end)/peek/readinto/readoffset/read_sectors against a byte-array model; distinct = (image, buffer size)",
                        "failures": nf})
