"""Contracts for the QCOW2 read path (C01; also C08, C13): _read_compressed, count_contiguous_subclusters, _yield_runs, _read.

Specification: QEMU docs/interop/qcow2.txt.  Geometry (cluster_bits, extended L2) is a case parameter as in contracts/qcow2.py; this
module covers the *standard L2* cases 9..21 for the run computation (extended L2 entries stay with the bounded block) and all 21 cases
for the compressed-cluster descriptor.

Compressed cluster descriptor (bits 0..61 of the L2 entry): with x = 62 - (cluster_bits - 8), bits 0..x-1 are the host offset (any
byte alignment) and bits x..61 the number of additional 512-byte sectors; the compressed data occupies
(sectors + 1) * 512 - (host offset mod 512) bytes from the host offset.  Inflate is an assumed callee contract (A3)."""
from __future__ import annotations

import z3

from .common import *
from .qcow2 import FILE, GeomModel, _case_name, _cases, bits, cq


def fresh_bytes_(name):
    from pyvc.engine import fresh_bytes

    return fresh_bytes(name)


class ReadModel(GeomModel):
    """`self` of the QCow2 methods, for one geometry case"""

    def __init__(self, cb, ext):
        super().__init__(cb, ext)
        for k, v in list(self.fields.items()):
            if k.startswith("qcow2."):
                self.fields["self." + k[6:]] = v
        self.x = 62 - (cb - 8)
        self.fields["self.csize_shift"] = IntV(z3.IntVal(self.x))
        self.fields["self.csize_mask"] = IntV(z3.IntVal((1 << (cb - 8)) - 1))
        self.fields["self.cluster_offset_mask"] = IntV(z3.IntVal((1 << self.x) - 1))
        self.fields["c_qcow2.QCOW2_COMPRESSED_SECTOR_SIZE"] = IntV(z3.IntVal(512))
        self.fsize, self.farr = self.file_field("self.fh", "fh")
        self.truthy["fh"] = z3.BoolVal(True)
        self.DEC = fresh_bytes_("inflated")
        self.methods[("self", "_decompress")] = self.decompress
        self.global_calls["offset_into_cluster"] = self.c_oic

    def c_oic(self, eng, st, args, node):
        x = eng.as_int(args[1], st, node)
        eng.pre(st, x >= 0, node)
        q, r = eng.euclid(st, x, z3.IntVal(self.cs))
        return IntV(r)

    def decompress(self, eng, st, args, node):
        st.ghost["inflate_arg"] = args[0]
        st.ghost["inflate_calls"] = st.ghost.get("inflate_calls", 0) + 1
        return self.DEC


def _read_compressed(cb, ext):
    d0, o0, n0 = z3.Ints("descriptor0 offset0 length0")

    def post(eng, st, rv):
        m = eng.model
        x = m.x
        coffset = d0 % (1 << x)
        nb = (d0 / (1 << x)) % (1 << (cb - 8)) + 1
        csize = nb * 512 - coffset % 512
        buf = st.ghost.get("inflate_arg")
        if not isinstance(buf, BytesV) or st.ghost.get("inflate_calls") != 1 or not isinstance(rv, BytesV):
            return [("inflates_once_and_returns_bytes", z3.BoolVal(False))]
        avail = zmax(zmin(csize, m.fsize - coffset), z3.IntVal(0))
        oic = o0 % m.cs
        return [("compressed_bytes_are_csize_bytes_at_the_host_offset", z3.And(buf.n == avail, forall_k(buf.n, lambda k: buf.at(k) == z3.Select(m.farr, coffset + k)))),
                ("result_is_the_inflated_cluster_from_the_offset_in_cluster", z3.And(rv.n == zmax(zmin(oic + n0, m.DEC.n) - oic, z3.IntVal(0)), forall_k(rv.n, lambda k: rv.at(k) == m.DEC.at(oic + k))))]

    c = FnContract(FILE, "QCow2._read_compressed", ["C01", "C08", "C13"], lambda: ReadModel(cb, ext),
                   params=lambda m: {"self": ObjV("self"), "cluster_descriptor": IntV(d0), "offset": IntV(o0), "length": IntV(n0)},
                   requires=lambda m: [d0 >= 0, d0 < (1 << 62), o0 >= 0, n0 >= 0, m.fsize >= 0, m.DEC.n >= 0, m.DEC.n <= m.cs], post=post, case=_case_name(cb, ext),
                   note="descriptor is any 62-bit value (host offsets of any byte alignment, above 4 GiB); inflate assumed")
    c.select_terms = True
    return c


# ------------------------------------------------------------------------------------------------ count_contiguous_subclusters (standard L2)
class CountModel(GeomModel):
    def __init__(self, cb):
        super().__init__(cb, False)
        self.E = z3.Function("L2E", I, I)  # entry of the current L2 table by index
        self.methods[("l2_table", "entry")] = lambda eng, st, args, node: IntV(self.E(eng.as_int(args[0], st, node)))
        self.methods[("l2_table", "bitmap")] = lambda eng, st, args, node: IntV(z3.IntVal(0))
        self.global_calls["get_subcluster_range_type"] = self.c_range_type
        self.fields["c_qcow2.L2E_OFFSET_MASK"] = self.fields["c_qcow2.L2E_OFFSET_MASK"]

    def c_range_type(self, eng, st, args, node):
        e = eng.as_int(args[1], st, node)
        eng.pre(st, z3.And(e >= 0, e <= U64), node)
        return TupleV([IntV(self.spec_subcluster_type_std(e)), IntV(z3.IntVal(1))])  # proved in contracts/qcow2.py for every standard case

    def offs(self, e):
        return bits(e, 9, 56) * 512


def _count_contiguous(cb):
    nb0, i0 = z3.Ints("nb_clusters0 l2_index0")

    def same(m, j):
        SCT = m.SCT
        t0, tj = m.spec_subcluster_type_std(m.E(i0)), m.spec_subcluster_type_std(m.E(i0 + j))
        chk = z3.Or(t0 == SCT["QCOW2_SUBCLUSTER_NORMAL"], t0 == SCT["QCOW2_SUBCLUSTER_ZERO_ALLOC"], t0 == SCT["QCOW2_SUBCLUSTER_UNALLOCATED_ALLOC"])
        return z3.And(tj == t0, z3.Implies(chk, m.offs(m.E(i0 + j)) == m.offs(m.E(i0)) + j * m.cs))

    def post(eng, st, rv):
        m = eng.model
        r = eng.as_int(rv, st, None)
        t0 = m.spec_subcluster_type_std(m.E(i0))
        J = z3.Int("j")
        return [("at_least_one_at_most_requested", z3.And(r >= 1, r <= nb0)), ("compressed_clusters_are_never_merged", z3.Implies(t0 == m.SCT["QCOW2_SUBCLUSTER_COMPRESSED"], r == 1)),
                ("all_counted_clusters_have_the_type_of_the_first_and_consecutive_host_offsets", z3.ForAll([J], z3.Implies(z3.And(0 <= J, J < r), same(m, J))))]

    def loop_inv(eng, st, i):
        m = eng.model
        cnt = st.env["count"].e
        J = z3.Int("j")
        SCT = m.SCT
        t0 = m.spec_subcluster_type_std(m.E(i0))
        parts = [cnt == i, z3.ForAll([J], z3.Implies(z3.And(0 <= J, J < i), same(m, J)))]
        if "expected_type" in st.env:
            et, eo, co = st.env["expected_type"], st.env["expected_offset"], st.env["check_offset"]
            etn, etv = eng.opt_parts(et)
            eon, eov = eng.opt_parts(eo)
            chk = z3.Or(t0 == SCT["QCOW2_SUBCLUSTER_NORMAL"], t0 == SCT["QCOW2_SUBCLUSTER_ZERO_ALLOC"], t0 == SCT["QCOW2_SUBCLUSTER_UNALLOCATED_ALLOC"])
            parts.append(z3.Implies(i >= 1, z3.And(z3.Not(etn), etv.e == t0 if etv is not None else False, z3.Not(eon), z3.Implies(chk, eov.e == m.offs(m.E(i0)) + (i - 1) * m.cs) if eov is not None else False,
                                                   eng.truthy(co) == chk, t0 != SCT["QCOW2_SUBCLUSTER_COMPRESSED"])))
        return z3.And(*parts)

    return FnContract(FILE, "count_contiguous_subclusters", ["C01", "C07", "C11"], lambda: CountModel(cb),
                      params=lambda m: {"qcow2": ObjV("qcow2"), "nb_clusters": IntV(nb0), "sc_index": IntV(z3.IntVal(0)), "l2_table": ObjV("l2_table"), "l2_index": IntV(i0)},
                      requires=lambda m: [nb0 >= 1, i0 >= 0, i0 + nb0 <= (1 << m.l2_bits), z3.ForAll([T], z3.And(m.E(T) >= 0, m.E(T) <= U64))], post=post,
                      loops={("For", 0): LoopSpec(inv=lambda eng, st: loop_inv(eng, st, st.env["$i0"].e),
                                                  shapes={"expected_type": "optint", "expected_offset": "optint", "check_offset": "bool", "count": "int", "first_sc": "local", "l2_entry": "local", "l2_bitmap": "local", "sc_type": "local", "sc_count": "local"})},
                      case=_case_name(cb, False), note="standard L2: the sub-cluster index is 0, every L2 entry is any 64-bit value")


def contracts(repo):
    import os

    # ctz / cto: 33 return paths x up to 32 bit clauses each, about two minutes of solver wall time: thorough tier only
    out = [_bitcount("ctz"), _bitcount("cto")] if os.environ.get("VERIF_TIER_EFFECTIVE", "quick") == "thorough" else []
    for cb, ext in _cases():
        out.append(_geometry(repo, cb, ext))
        if not ext:
            # version-2 header: qcow2.txt gives it 72 bytes; whatever follows (header extensions, the backing file name) is not a feature field
            out.append(_geometry(repo, cb, False, free=("incompatible_features", "compatible_features", "autoclear_features", "refcount_order", "header_length", "compression_type"), version=2))
        out.append(_read_compressed(cb, ext))
        out += _l2_accessors(cb, ext)
        if not ext:
            out.append(_count_contiguous(cb))
            out.append(_yield_runs(cb))
            out.append(_read(cb))
        elif cb == 14 or os.environ.get("VERIF_TIER_EFFECTIVE", "quick") == "thorough":
            out.append(_count_contiguous_ext(cb))  # about 40 s of VC generation per geometry: one geometry in the quick tier, all 8 in the thorough tier
    out.append(_compression(repo))
    out += [_decompress(0, "zlib"), _decompress(1, "zstd"), _decompress(7, "unknown-type")]
    for i in range(32):
        out += _ext_bits(i)
    if os.environ.get("VERIF_TIER_EFFECTIVE", "quick") == "thorough" or os.environ.get("VERIF_EXPERIMENT"):
        # extended L2 run computation: about 80 s of VC generation and one query of more than a minute per geometry: thorough tier only
        for cb, ext in _cases():
            if ext:
                out.append(_yield_runs_ext(cb))
    for cb, ext in _cases():
        if ext:
            out.append(_read(cb, True))  # the consumer needs only the per-run contract (proved by _yield_runs in the thorough tier for these geometries)
    return out


# ------------------------------------------------------------------------------------------------ guest specification (standard L2) and the run contract
class RunModel(ReadModel):
    """QCow2 object for _yield_runs / _read, standard L2 entries; tables are total uninterpreted functions of their index"""

    def __init__(self, cb):
        super().__init__(cb, False)
        self.l2s = 1 << self.l2_bits
        self.L1 = z3.Function("L1", I, I)
        self.E2 = z3.Function("L2", I, I, I)  # (l2 table offset, index) -> entry
        # number of entries of the L1 table in use: header.l1_size for the active image (loader contract QCow2.l1_table/loads_the_specified_table),
        # the snapshot's own l1_size for a snapshot view (QCow2Snapshot.l1_table) -- the read path must go by the table it actually holds
        self.L1N = self.int_field("self.header.l1_size", 0, U32, None)
        self.lens["self.l1_table"] = IntV(self.L1N)
        self.obj_field("self.header")
        self.fields["self.l1_table"] = ObjV("self.l1_table")
        self.items["self.l1_table"] = self.l1_get
        self.methods[("self", "l2_table")] = self.open_l2
        self.methods[("l2_table", "entry")] = lambda eng, st, args, node: IntV(self.E2(st.ghost["cur_l2off"], eng.as_int(args[0], st, node)))
        self.methods[("l2_table", "bitmap")] = lambda eng, st, args, node: IntV(z3.IntVal(0))
        self.truthy["l2_table"] = z3.BoolVal(True)
        self.has_backing = z3.Bool("has_backing_file")
        self.fields["self.has_backing_file"] = BoolV(self.has_backing)
        self.BACK = z3.Function("BackingGuest", I, I)  # the backing image's guest bytes, zero beyond its end
        self.DATA = z3.Array("data_file", I, I)
        self.INFL = z3.Function("Inflated", I, I, I)  # (compressed cluster descriptor, offset in cluster) -> byte (A3)
        self.G = z3.Function("QGuest", I, I)
        register_opaque("QGuest", self.guest_def)
        self.global_calls.update({"offset_to_l1_index": self.c_l1i, "offset_to_l2_index": self.c_l2i, "offset_to_sc_index": lambda eng, st, args, node: IntV(z3.IntVal(0)),
                                  "size_to_clusters": self.c_s2c, "count_contiguous_subclusters": self.c_count, "get_subcluster_type": self.c_get_subcluster_type})
        self.hyps = [z3.ForAll([T], z3.And(self.L1(T) >= 0, self.L1(T) <= U64)), z3.ForAll([T], z3.And(self.E2(z3.Int("u"), T) >= 0, self.E2(z3.Int("u"), T) <= U64)) if False else z3.BoolVal(True)]

    def offs(self, e):
        return bits(e, 9, 56) * 512

    # ---- SPEC: classification of one guest cluster, and the guest byte
    def cluster(self, c):
        q1, l2i, f1 = ediv(c, z3.IntVal(self.l2s))
        l2off = self.offs(self.L1(q1))
        e = self.E2(l2off, l2i)
        unalloc1 = z3.Or(q1 >= self.L1N, l2off == 0)
        t = z3.If(unalloc1, self.SCT["QCOW2_SUBCLUSTER_UNALLOCATED_PLAIN"], self.spec_subcluster_type_std(e))
        return t, e, [f1]

    def guest_def(self, x):
        c, o, f0 = ediv(x, z3.IntVal(self.cs))
        t, e, fs = self.cluster(c)
        S = self.SCT
        bk = z3.If(self.has_backing, self.BACK(x), 0)
        val = z3.If(z3.Or(t == S["QCOW2_SUBCLUSTER_UNALLOCATED_PLAIN"], t == S["QCOW2_SUBCLUSTER_UNALLOCATED_ALLOC"]), bk,
                    z3.If(z3.Or(t == S["QCOW2_SUBCLUSTER_ZERO_PLAIN"], t == S["QCOW2_SUBCLUSTER_ZERO_ALLOC"]), 0,
                          z3.If(t == S["QCOW2_SUBCLUSTER_NORMAL"], z3.Select(self.DATA, self.offs(e) + o), self.INFL(e % (1 << 62), o))))
        return val, [f0] + fs

    def run_value(self, sc_type, roff, hoff, k):
        """what _read produces for byte k of a run (sc_type, read_offset, host_offset, length)"""
        S = self.SCT
        x = roff + k
        unalloc = z3.Or(sc_type == S["QCOW2_SUBCLUSTER_UNALLOCATED_PLAIN"], sc_type == S["QCOW2_SUBCLUSTER_UNALLOCATED_ALLOC"])
        zero = z3.Or(sc_type == S["QCOW2_SUBCLUSTER_ZERO_PLAIN"], sc_type == S["QCOW2_SUBCLUSTER_ZERO_ALLOC"])
        _q, ro, _f = ediv(roff, z3.IntVal(self.cs))  # offset of the run's first byte in its cluster (Euclid witness; the fact is added by the users)
        return z3.If(unalloc, z3.If(self.has_backing, self.BACK(x), 0), z3.If(zero, 0, z3.If(sc_type == S["QCOW2_SUBCLUSTER_NORMAL"], z3.Select(self.DATA, hoff + k), self.INFL(hoff, ro + k))))

    # ---- callee contracts (each proved in contracts/qcow2.py or above)
    def l1_get(self, eng, st, idx, node):
        i = eng.as_int(idx, st, node)
        eng.may_raise("IndexError", st, z3.And(i >= 0, i < self.L1N), node)
        return IntV(self.L1(i))

    def open_l2(self, eng, st, args, node):
        st.ghost["cur_l2off"] = eng.as_int(args[0], st, node)
        return ObjV("l2_table")

    def c_l1i(self, eng, st, args, node):
        x = eng.as_int(args[1], st, node)
        eng.pre(st, x >= 0, node)
        qc, _r = eng.euclid(st, x, z3.IntVal(self.cs))
        q1, _l = eng.euclid(st, qc, z3.IntVal(self.l2s))
        return IntV(q1)  # == x div (l2_size * cluster_size): second postcondition of the helper contract

    def c_l2i(self, eng, st, args, node):
        x = eng.as_int(args[1], st, node)
        eng.pre(st, x >= 0, node)
        qc, _r = eng.euclid(st, x, z3.IntVal(self.cs))
        _q1, l2i = eng.euclid(st, qc, z3.IntVal(self.l2s))
        return IntV(l2i)

    def c_s2c(self, eng, st, args, node):
        x = eng.as_int(args[1], st, node)
        eng.pre(st, x >= 0, node)
        q, r = eng.euclid(st, x + self.cs - 1, z3.IntVal(self.cs))
        return IntV(q)

    def c_get_subcluster_type(self, eng, st, args, node):
        e = eng.as_int(args[1], st, node)
        eng.pre(st, z3.And(e >= 0, e <= U64), node)
        return IntV(self.spec_subcluster_type_std(e))

    def c_count(self, eng, st, args, node):
        nb, sci, l2i = eng.as_int(args[1], st, node), eng.as_int(args[2], st, node), eng.as_int(args[4], st, node)
        eng.pre(st, z3.And(nb >= 1, sci == 0, l2i >= 0, l2i + nb <= self.l2s), node, tag="count_contiguous.requires")
        off = st.ghost["cur_l2off"]
        cnt = fresh("sc_count")
        J = z3.Int("j")
        S = self.SCT
        t0 = self.spec_subcluster_type_std(self.E2(off, l2i))
        chk = z3.Or(t0 == S["QCOW2_SUBCLUSTER_NORMAL"], t0 == S["QCOW2_SUBCLUSTER_ZERO_ALLOC"], t0 == S["QCOW2_SUBCLUSTER_UNALLOCATED_ALLOC"])
        st.hyps.append(z3.And(cnt >= 1, cnt <= nb, z3.Implies(t0 == S["QCOW2_SUBCLUSTER_COMPRESSED"], cnt == 1)))
        st.hyps.append(z3.ForAll([J], z3.Implies(z3.And(0 <= J, J < cnt), z3.And(self.spec_subcluster_type_std(self.E2(off, l2i + J)) == t0,
                                                                                   z3.Implies(chk, self.offs(self.E2(off, l2i + J)) == self.offs(self.E2(off, l2i)) + J * self.cs)))))
        return IntV(cnt)


def _yield_runs(cb):
    offset0, length0 = z3.Ints("offset0 length0")

    def inv(eng, st):
        offset, length = st.env["offset"].e, st.env["length"].e
        plen = st.ghost["plen"]
        return z3.And(offset >= offset0, offset + length == offset0 + length0, plen == offset - offset0, length >= 0)

    def on_yield(eng, st, v, node):
        m = eng.model
        sc_type, roff, hoff, n = (eng.as_int(x, st, node) for x in v.items)
        plen = st.ghost["plen"]
        eng.ob("yield.run_starts_where_the_previous_one_ended", st, z3.And(roff == offset0 + plen, n >= 1, n <= length0 - plen), node)
        # per-byte statement for an arbitrary byte kk of the run, with the cluster it falls into as an explicit witness
        kk = fresh("kk")
        o0q, o0, f_o = ediv(roff, z3.IntVal(m.cs))
        j, rr, f_j = ediv(o0 + kk, z3.IntVal(m.cs))
        s2 = st.fork()
        s2.hyps += [f_o, f_j, kk >= 0, kk < n]
        s2.anchor(j, cls="unit")
        s2.anchor(kk, cls="byte")
        eng.ob("yield.run_bytes_are_the_guest_bytes", s2, m.G(roff + kk) == m.run_value(sc_type, roff, hoff, kk), node)
        eng.ob("yield.compressed_runs_stay_inside_one_cluster", st, z3.Implies(sc_type == m.SCT["QCOW2_SUBCLUSTER_COMPRESSED"], z3.And(o0 + n <= m.cs, hoff >= 0, hoff < (1 << 62))), node)
        eng.ob("yield.type_is_a_valid_subcluster_type", st, z3.And(sc_type >= 0, sc_type <= 6, sc_type != m.SCT["QCOW2_SUBCLUSTER_INVALID"]), node)
        st.hyps.append(f_o)
        st.ghost["plen"] = plen + n

    def post(eng, st, rv):
        return [("runs_cover_the_request_exactly", st.ghost["plen"] == length0)]

    c = FnContract(FILE, "QCow2._yield_runs", ["C01", "C07", "C08", "C11"], lambda: RunModel(cb), params=lambda m: {"self": ObjV("self"), "offset": IntV(offset0), "length": IntV(length0)},
                   requires=lambda m: m.hyps + [offset0 >= 0, length0 >= 0, z3.ForAll([T], z3.And(m.L1(T) >= 0, m.L1(T) <= U64)), z3.ForAll([z3.Int("u"), T], z3.And(m.E2(z3.Int("u"), T) >= 0, m.E2(z3.Int("u"), T) <= U64))],
                   post=post, on_yield=on_yield, ghost=lambda m: {"plen": z3.IntVal(0)},
                   loops={("While", 0): LoopSpec(inv, lambda eng, st: st.env["length"].e, ghost_havoc={"plen": "int"},
                                                 shapes={k: "local" for k in ("sc_type", "host_offset", "read_count", "l1_index", "l2_index", "sc_index", "offset_in_cluster", "bytes_needed", "bytes_available", "l2_offset",
                                                                              "l2_table", "l2_entry", "l2_bitmap", "host_cluster_offset", "nb_clusters", "sc_count")})},
                   case=_case_name(cb, False), note="generator: per-yield obligations relative to the ghost position; L1/L2 contents arbitrary 64-bit values, image size unbounded")
    c.select_terms = True
    c.cost = 20
    return c


# ------------------------------------------------------------------------------------------------ _read: consumer of the run sequence
class ConsumeMixin:
    def setup_consumer(self):
        self.dsize, self.darr = self.file_field("self.data_file", "data")
        self.bsize, self.barr = self.file_field("self.backing_file", "backing")
        self.truthy.update({"data": z3.BoolVal(True), "backing": self.has_backing})
        self.DATA = self.darr
        self.methods[("self", "_yield_runs")] = self.runs
        self.methods[("self", "_read_compressed")] = self.c_read_compressed
        self.globals["QCow2SubclusterType"] = ObjV("SCT")

    def run_ok(self, el, plen, offset0):
        sc_type, roff, hoff, n = (x.e for x in el.items)
        S = self.SCT
        _q, ro, f_ro = ediv(roff, z3.IntVal(self.cs))
        return z3.And(roff == offset0 + plen, n >= 1, sc_type >= 0, sc_type <= 6, f_ro, forall_k(n, lambda k: self.G(roff + k) == self.run_value(sc_type, roff, hoff, k)),
                      z3.Implies(sc_type == S["QCOW2_SUBCLUSTER_COMPRESSED"], z3.And(ro + n <= self.cs, hoff >= 0, hoff < (1 << 62))), sc_type != S["QCOW2_SUBCLUSTER_INVALID"],
                      # A6 (well-formed image, not a property of the run computation): mapped host clusters lie inside the data file
                      z3.Implies(sc_type == S["QCOW2_SUBCLUSTER_NORMAL"], z3.And(hoff >= 0, hoff + n <= self.dsize)))

    def runs(self, eng, st, args, node):
        o, n = (eng.as_int(a, st, node) for a in args)
        eng.pre(st, z3.And(o >= 0, n >= 0), node)
        st.ghost["runs_args"] = (o, n)

        def elem():
            return TupleV([IntV(fresh("run_type")), IntV(fresh("run_roff")), IntV(fresh("run_hoff")), IntV(fresh("run_size"))])

        return SeqV(elem, lambda el, plen: self.run_ok(el, plen, o), lambda el: el.items[3].e, n)

    def c_read_compressed(self, eng, st, args, node):
        desc, off, ln = (eng.as_int(a, st, node) for a in args)
        q, oic = eng.euclid(st, off, z3.IntVal(self.cs))
        eng.pre(st, z3.And(desc >= 0, desc < (1 << 62), off >= 0, ln >= 0, oic + ln <= self.cs), node, tag="_read_compressed.requires")
        # contract of _read_compressed (proved above) with A3: a compressed cluster inflates to a whole cluster
        return BytesV(ln, lambda k, desc=desc, oic=oic: self.INFL(desc, oic + k))


class ConsumeModel(RunModel, ConsumeMixin):
    def __init__(self, cb):
        RunModel.__init__(self, cb)
        self.setup_consumer()


def _read(cb, ext=False):
    offset0, length0 = z3.Ints("offset0 length0")

    def inv(eng, st):
        m = eng.model
        acc = st.env["result"].joined
        plen = st.ghost["plen0"]
        return z3.And(acc.n == plen, forall_k(plen, lambda k: acc.at(k) == m.G(offset0 + k)))

    def post(eng, st, rv):
        m = eng.model
        r = ret_bytes(rv)
        a = st.ghost.get("runs_args")
        return [("runs_requested_for_exactly_this_range", z3.And(a[0] == offset0, a[1] == length0) if a else z3.BoolVal(False)), ("len_exact", r.n == length0),
                ("content", forall_k(length0, lambda k: r.at(k) == m.G(offset0 + k)))]

    def requires(m):
        return [offset0 >= 0, length0 >= 0, m.dsize >= 0, m.bsize >= 0, byte_range_axiom(m.darr), byte_range_axiom(m.barr),
                z3.ForAll([K], z3.Implies(K >= 0, m.BACK(K) == z3.If(K < m.bsize, z3.Select(m.barr, K), 0))),  # backing image = its bytes, zero beyond its end (C07)
                z3.ForAll([z3.Int("u"), K], z3.And(m.INFL(z3.Int("u"), K) >= 0, m.INFL(z3.Int("u"), K) <= 255))]

    def mk_model():
        if not ext:
            return ConsumeModel(cb)

        class ConsumeModelExt(ExtRunModel, ConsumeMixin):
            pass

        m = ConsumeModelExt(cb)
        m.setup_consumer()
        return m

    c = FnContract(FILE, "QCow2._read", ["C01", "C07", "C08", "C13"], mk_model, params=lambda m: {"self": ObjV("self"), "offset": IntV(offset0), "length": IntV(length0)},
                   requires=requires, post=post, loops={("For", 0): LoopSpec(inv, shapes={"unalloc_zeroed": "local", "data": "local"})}, shifts=r"^(run_size|plen0|run_roff)!", case=_case_name(cb, ext),
                   note="consumer of the run sequence of _yield_runs (per-run contract proved on the generator); backing file = stream of the backing image's guest bytes; inflate assumed (A3); host clusters inside the data file (A6)")
    c.select_terms = True
    c.cost = 30 if ext else 4
    return c


# ------------------------------------------------------------------------------------------------ L2Table accessors (both entry formats)
class L2Model(GeomModel):
    def __init__(self, cb, ext):
        super().__init__(cb, ext)
        self.TBL = z3.Function("l2_words", I, I)  # the table as read from the file: big-endian 64-bit words (cstruct array read, A3)
        self.fields["self.qcow2"] = ObjV("qcow2")
        self.fields["self._table"] = ObjV("self._table")
        self.items["self._table"] = lambda eng, st, idx, node: IntV(self.TBL(eng.as_int(idx, st, node)))


def _l2_accessors(cb, ext):
    i0 = z3.Int("idx0")
    w = 2 if ext else 1
    mk = lambda qual, goal, what: FnContract(FILE, f"L2Table.{qual}", ["C01"], lambda: L2Model(cb, ext), params=lambda m: {"self": ObjV("self"), "idx": IntV(i0)},  # noqa: E731
                                             requires=lambda m: [i0 >= 0, i0 < (1 << m.l2_bits)], post=lambda eng, st, rv: [(what, eng.as_int(rv, st, None) == goal(eng.model))], case=_case_name(cb, ext))
    return [mk("entry", lambda m: m.TBL(i0 * w), "first_word_of_the_entry"), mk("bitmap", (lambda m: m.TBL(i0 * 2 + 1)) if ext else (lambda m: z3.IntVal(0)), "second_word_of_an_extended_entry_else_0")]


# ------------------------------------------------------------------------------------------------ bit counting helpers and the derived geometry of QCow2.__init__
CFILE_ = "dissect/hypervisor/disk/c_qcow2.py"


def _bitcount(which):
    """ctz / cto over a 32-bit window: result r with bits 0..r-1 all zero (one) and, if r < 32, bit r one (zero)"""
    v0 = z3.Int("value0")
    want = 0 if which == "ctz" else 1

    def post(eng, st, rv):
        r = eng.as_int(rv, st, None)
        B_ = z3.Int("b")
        bit = lambda b: (v0 / 2 ** b) % 2  # noqa: E731
        rs = z3.simplify(r)
        if not z3.is_int_value(rs):
            return [("result_is_a_constant_position_on_every_path", z3.BoolVal(False))]
        k = rs.as_long()
        goals = [("in_range", z3.BoolVal(0 <= k <= 32))]
        goals.append(("lower_bits_all_%s" % ("zero" if which == "ctz" else "one"), z3.And(*[bit(b) == want for b in range(k)]) if k else z3.BoolVal(True)))
        goals.append(("stop_bit_differs", bit(k) == 1 - want if k < 32 else z3.BoolVal(True)))
        return goals

    return FnContract(CFILE_, which, ["C01"], lambda: Model(), params=lambda m: {"value": IntV(v0), "size": IntV(z3.IntVal(32))}, requires=lambda m: [v0 >= 0, v0 <= U64], post=post,
                      loops={("For", 0): LoopSpec(inv=lambda eng, st: z3.BoolVal(True), unroll=32)}, note="size is the constant 32 used by every caller; value any 64-bit integer")


def _geometry(repo, cb, ext, free=(), version=3):
    """QCow2.__init__ with the header pinned to one geometry: the derived attributes the read path relies on have their specified values"""
    from .gates import GateModel

    def model():
        m = GateModel("dissect.hypervisor.disk.qcow2", FILE, "QCow2", repo=repo)
        base_parse = m.parse

        def parse(eng, st, cs, T_, arg, node):
            obj = base_parse(eng, st, cs, T_, arg, node)
            if T_.__name__ == "QCowHeader":
                pins = {"version": version, "cluster_bits": cb, "incompatible_features": 16 if ext else 0, "crypt_method": 0, "backing_file_offset": 0, "header_length": 112, "compression_type": 0}
                for k, v in pins.items():
                    if k not in free:
                        m.fields[f"{obj.path}.{k}"] = IntV(z3.IntVal(v))
            return obj

        m.parse = parse
        m.globals["ctz"] = FuncRef_("ctz")

        def ctz(eng, st, args, node):
            v = z3.simplify(eng.as_int(args[0], st, node))
            if not z3.is_int_value(v):
                # a value that the path condition determines uniquely (e.g. a quotient introduced through Euclid witnesses) is a constant too
                sol = z3.Solver()
                sol.add(*st.hyps)
                if sol.check() == z3.sat:
                    cand = sol.model().eval(v, model_completion=True)
                    sol.add(v != cand)
                    if z3.is_int_value(cand) and sol.check() == z3.unsat:
                        v = cand
            def ctz_const(x):
                i = 0
                while i < 32 and not (x >> i) & 1:
                    i += 1
                return i

            if not z3.is_int_value(v):
                # a value with a few possible constants under the path condition (e.g. `16 if <flag> else 8` with an unknown flag): the
                # contract of ctz is evaluated on each of them
                sol = z3.Solver()
                sol.add(*st.hyps)
                cands = []
                while len(cands) <= 4 and sol.check() == z3.sat:
                    cand = sol.model().eval(v, model_completion=True)
                    if not z3.is_int_value(cand):
                        break
                    cands.append(cand.as_long())
                    sol.add(v != cand)
                if not cands or len(cands) > 4 or sol.check() != z3.unsat:
                    raise Unsupported(f"ctz of a non-constant value {v}")
                e = z3.IntVal(ctz_const(cands[-1]))
                for c_ in cands[:-1]:
                    e = z3.If(v == c_, z3.IntVal(ctz_const(c_)), e)
                return IntV(e)
            return IntV(z3.IntVal(ctz_const(v.as_long())))  # contract of ctz (proved above), evaluated on a constant

        m.global_calls["ctz"] = ctz
        m.global_calls["super"] = lambda eng, st, args, node: ObjV("super")
        m.methods[("super", "__init__")] = lambda eng, st, args, node, **kw: NoneV()
        return m

    spc = 32 if ext else 1
    l2e = 16 if ext else 8
    x = 62 - (cb - 8)
    want = {"cluster_bits": cb, "cluster_size": 1 << cb, "subclusters_per_cluster": spc, "subcluster_size": (1 << cb) // spc, "subcluster_bits": cb - (5 if ext else 0), "_l2_entry_size": l2e,
            "l2_bits": cb - (4 if ext else 3), "l2_size": 1 << (cb - (4 if ext else 3)), "csize_shift": x, "csize_mask": (1 << (cb - 8)) - 1, "cluster_offset_mask": (1 << x) - 1}

    def post(eng, st, rv):
        goals = []
        for k, v in want.items():
            a = st.attrs.get(f"self.{k}")
            goals.append((f"{k}_is_{v}", eng.as_int(a, st, None) == v if isinstance(a, (IntV, BoolV)) else z3.BoolVal(False)))
        return goals

    return FnContract(FILE, "QCow2.__init__", ["C01"], model, params=lambda m: {"self": ObjV("self"), "fh": FileV("fh"), "data_file": OpaqueV("data_file"), "backing_file": NoneV()},
                      requires=lambda m: m.hyps, post=post, allow_any_exception=True, mode="geometry", case=_case_name(cb, ext) + (",v2" if version == 2 else ""),
                      note="gate mode with cluster_bits / extended-L2 flag pinned to the case: the class invariant the read-path contracts assume (RunModel / ReadModel fields)"
                           + ("; version 2: the 32 bytes after the 72-byte header (where version 3 keeps its feature bits, refcount order and header length) are arbitrary and must not influence the geometry" if version == 2 else ""))


# ------------------------------------------------------------------------------------------------ QCow2._decompress
class DecompressModel(Model):
    """`self` of QCow2._decompress for one compression type (case parameter); cluster size symbolic.  INF is the complete inflation of
    `buf` (assumed to exist: A3 zlib / zstd); the contract is about how much of it is produced and that nothing else is returned."""

    def __init__(self, ctype):
        super().__init__()
        c = cq()
        self.hyps = []
        self.fields["self.compression_type"] = IntV(z3.IntVal(ctype))
        self.cs = self.int_field("self.cluster_size", 512, 1 << 21, self.hyps)
        self.globals["c_qcow2"] = ObjV("c_qcow2")
        for nm in ("QCOW2_COMPRESSION_TYPE_ZLIB", "QCOW2_COMPRESSION_TYPE_ZSTD"):
            self.fields[f"c_qcow2.{nm}"] = IntV(z3.IntVal(int(getattr(c.c_qcow2, nm))))
        self.BUF = fresh_bytes_("buf")
        self.INF = fresh_bytes_("inflate_of_buf")
        self.hyps += [self.BUF.n >= 0, self.INF.n >= 0]
        self.globals.update({"zlib": ObjV("zlib"), "zstd": ObjV("zstd"), "BytesIO": FuncRef_("BytesIO")})
        self.methods[("zlib", "decompressobj")] = self.zlib_obj
        self.methods[("zlib_dctx", "decompress")] = self.zlib_decompress
        self.methods[("zstd", "ZstdDecompressor")] = lambda eng, st, args, node: ObjV("zstd_dctx")
        self.methods[("zstd_dctx", "stream_reader")] = self.zstd_reader
        self.methods[("zstd_reader", "tell")] = lambda eng, st, args, node: IntV(st.ghost["rpos"])
        self.methods[("zstd_reader", "read")] = self.zstd_read
        self.global_calls["BytesIO"] = lambda eng, st, args, node: (eng.pre(st, z3.BoolVal(args and args[0] is self.BUF), node, tag="wraps_the_compressed_bytes"), ObjV("bytesio_of_buf"))[1]
        self.truthy.update({"zlib_dctx": z3.BoolVal(True), "zstd_dctx": z3.BoolVal(True), "zstd_reader": z3.BoolVal(True), "bytesio_of_buf": z3.BoolVal(True)})

    def zlib_obj(self, eng, st, args, node):
        # qcow2.txt: compressed clusters are raw deflate streams with a 12-bit window: wbits == -12
        w = eng.as_int(args[0], st, node) if args else z3.IntVal(15)
        eng.pre(st, w == -12, node, tag="raw_deflate_window_12")
        return ObjV("zlib_dctx")

    def _produce(self, st, pos, limit, exact):
        """A3: a streaming decompressor asked for at most `limit` bytes at output position `pos` returns the next k bytes of INF,
        k == min(limit, rest) for zlib's decompress(data, max_length) (exact), 1 <= k <= min(limit, rest) for a reader (0 only at the end)"""
        r = fresh_bytes_("chunk")
        rest = self.INF.n - pos
        if exact:
            st.hyps.append(r.n == zmin(limit, rest))
        else:
            st.hyps.append(z3.And(r.n >= 0, r.n <= zmin(limit, rest), z3.Implies(z3.And(rest > 0, limit > 0), r.n >= 1)))
        st.hyps.append(forall_k(r.n, lambda k: r.at(k) == self.INF.at(pos + k)))
        st.ghost["alloc"] = st.ghost.get("alloc", z3.IntVal(0)) + r.n
        return r

    def zlib_decompress(self, eng, st, args, node):
        eng.pre(st, z3.BoolVal(args[0] is self.BUF), node, tag="inflates_the_compressed_bytes")
        if len(args) < 2:
            eng.pre(st, z3.BoolVal(False), node, tag="max_length_given")
            return self._produce(st, z3.IntVal(0), self.INF.n, True)
        n = eng.as_int(args[1], st, node)
        eng.pre(st, n >= 1, node, tag="max_length_is_positive")  # zlib: max_length 0 means "no limit"
        return self._produce(st, z3.IntVal(0), n, True)

    def zstd_reader(self, eng, st, args, node):
        eng.pre(st, z3.BoolVal(isinstance(args[0], ObjV) and args[0].path == "bytesio_of_buf"), node, tag="reads_the_compressed_bytes")
        st.ghost["rpos"] = z3.IntVal(0)
        return ObjV("zstd_reader")

    def zstd_read(self, eng, st, args, node):
        n = eng.as_int(args[0], st, node) if args else z3.IntVal(-1)
        eng.pre(st, n >= 1, node, tag="read_size_is_positive")  # read(-1) / read() return everything that is left
        r = self._produce(st, st.ghost["rpos"], n, False)
        st.ghost["rpos"] = st.ghost["rpos"] + r.n
        return r


def _decompress(ctype, label):
    def inv(eng, st):
        m = eng.model
        acc, rpos = st.env["result"].joined, st.ghost["rpos"]
        return z3.And(acc.n == rpos, rpos >= 0, rpos <= m.cs, rpos <= m.INF.n, forall_k(acc.n, lambda k: acc.at(k) == m.INF.at(k)), st.ghost["alloc"] == rpos)

    def post(eng, st, rv):
        m = eng.model
        r = ret_bytes(rv)
        return [("at_most_one_cluster", r.n <= m.cs), ("is_the_inflated_data_up_to_one_cluster", z3.And(r.n == zmin(m.cs, m.INF.n), forall_k(r.n, lambda k: r.at(k) == m.INF.at(k)))),
                ("allocation_bounded_by_the_cluster", st.ghost.get("alloc", z3.IntVal(0)) <= m.cs)]

    return FnContract(FILE, "QCow2._decompress", ["C01", "C11", "C13"], lambda: DecompressModel(ctype),
                      params=lambda m: {"self": ObjV("self"), "buf": m.BUF}, requires=lambda m: m.hyps, post=post,
                      raises={"Error": lambda eng, st: z3.BoolVal(ctype not in (0, 1))}, ghost=lambda m: {"alloc": z3.IntVal(0), "rpos": z3.IntVal(0)},
                      loops={("While", 0): LoopSpec(inv, lambda eng, st: eng.model.cs - st.ghost["rpos"], ghost_havoc={"rpos": "int", "alloc": "int"})},
                      shifts=r"^(chunk_len|rpos)!", case=label,
                      note="compression type is a case parameter (zlib, zstd, anything else); cluster size and the compressed bytes symbolic; the inflation of the bytes is an "
                           "uninterpreted byte string (A3), the contract bounds how much of it is produced (a max_length / read size of 0 or less means 'no limit')")


def _compression(repo):
    """QCow2.__init__, compression type: qcow2.txt -- the compression_type field (byte 104) exists only in version-3 headers longer than 104
    bytes; otherwise the image uses zlib (0).  Version, header_length and the field are arbitrary; the geometry is pinned to one legal case."""
    from .gates import GateModel, fld, parsed

    def model():
        # the geometry of case cb=16 is pinned; version, header_length and compression_type range over their machine types
        return _geometry(repo, 16, False, free=("version", "header_length", "compression_type")).model()

    def post(eng, st, rv):
        h = parsed(st, "QCowHeader")
        g = lambda n: eng.as_int(fld(eng, st, h, n), st, None)  # noqa: E731
        a = st.attrs.get("self.compression_type")
        want = z3.If(z3.And(g("version") == 3, g("header_length") > 104), g("compression_type"), 0)
        return [("compression_type_is_the_header_field_iff_the_v3_header_is_longer_than_104_bytes_else_zlib", eng.as_int(a, st, None) == want if isinstance(a, (IntV, BoolV)) else z3.BoolVal(False))]

    return FnContract(FILE, "QCow2.__init__", ["C01", "C14"], model, params=lambda m: {"self": ObjV("self"), "fh": FileV("fh"), "data_file": OpaqueV("data_file"), "backing_file": NoneV()},
                      requires=lambda m: m.hyps, post=post, allow_any_exception=True, mode="geometry", case="compression_type",
                      note="gate mode; version, header_length and compression_type symbolic")


def FuncRef_(name):
    from pyvc.engine import FuncRef

    return FuncRef(name)


# ------------------------------------------------------------------------------------------------ extended L2 entries: sub-cluster bitmaps
class ExtBitsModel(GeomModel):
    """qcow2 object for the extended-L2 bit functions.  Only has_subclusters / has_data_file / subclusters_per_cluster are declared:
    the functions are thereby shown not to depend on the cluster size (touching any other attribute is Unsupported)."""

    def __init__(self):
        super().__init__(16, True)
        for k in [k for k in self.fields if k.startswith("qcow2.") and k not in ("qcow2.has_subclusters", "qcow2.has_data_file", "qcow2.subclusters_per_cluster")]:
            del self.fields[k]
        from pyvc.engine import bitlist_int

        self.bitmap, self.bit_facts = bitlist_int("l2_bitmap", 64)
        self.alloc = self.bitmap.bl[:32]
        self.zero = self.bitmap.bl[32:]
        self.both, self.any_alloc = z3.Bool("some_subcluster_is_both_allocated_and_zero"), z3.Bool("some_allocation_bit_is_set")
        self.bit_facts += [self.both == z3.Or(*[z3.And(self.alloc[k] == 1, self.zero[k] == 1) for k in range(32)]), self.any_alloc == z3.Or(*[self.alloc[k] == 1 for k in range(32)])]
        self.global_calls["cto"] = lambda eng, st, args, node: self.count(args, 0)
        self.global_calls["ctz"] = lambda eng, st, args, node: self.count(args, 1)

    def count(self, args, stop):
        """contract of cto / ctz over a 32-bit window (proved for plain integers in the thorough tier), on a bit list"""
        v = args[0]
        if not isinstance(v, IntV) or v.bl is None:
            raise Unsupported("cto/ctz of a value without a bit list")
        bl = list(v.bl[:32]) + [z3.IntVal(0)] * max(0, 32 - len(v.bl))
        r = z3.IntVal(32)
        for i in range(31, -1, -1):
            r = z3.If(bl[i] == stop, z3.IntVal(i), r)
        return IntV(r)

    # SPEC (qcow2.txt, extended L2 entries): type of sub-cluster i
    def spec_sc_type(self, e, i):
        CT, S = self.CT, self.SCT
        ct = self.spec_cluster_type(e)
        both, any_alloc = self.both, self.any_alloc  # named abbreviations (defined in bit_facts) keep the terms small
        normal = z3.If(both, S["QCOW2_SUBCLUSTER_INVALID"], z3.If(self.zero[i] == 1, S["QCOW2_SUBCLUSTER_ZERO_ALLOC"], z3.If(self.alloc[i] == 1, S["QCOW2_SUBCLUSTER_NORMAL"], S["QCOW2_SUBCLUSTER_UNALLOCATED_ALLOC"])))
        unalloc = z3.If(any_alloc, S["QCOW2_SUBCLUSTER_INVALID"], z3.If(self.zero[i] == 1, S["QCOW2_SUBCLUSTER_ZERO_PLAIN"], S["QCOW2_SUBCLUSTER_UNALLOCATED_PLAIN"]))
        return z3.If(ct == CT["QCOW2_CLUSTER_COMPRESSED"], S["QCOW2_SUBCLUSTER_COMPRESSED"], z3.If(ct == CT["QCOW2_CLUSTER_NORMAL"], normal, unalloc))

    def c_get_subcluster_type(self, eng, st, args, node):
        e = eng.as_int(args[1], st, node)
        i = z3.simplify(eng.as_int(args[3], st, node))
        if not z3.is_int_value(i):
            raise Unsupported("sub-cluster index is a case constant")
        return IntV(self.spec_sc_type(e, i.as_long()))


def _ext_bits(i):
    e0 = z3.Int("l2_entry0")

    def params(m, idx_name):
        return {"qcow2": ObjV("qcow2"), "l2_entry": IntV(e0), "l2_bitmap": m.bitmap, idx_name: IntV(z3.IntVal(i))}

    def req(m):
        return [e0 >= 0, e0 <= U64] + m.bit_facts

    def mk_type():
        def model():
            m = ExtBitsModel()
            del m.global_calls["get_subcluster_type"]
            return m

        return FnContract(FILE, "get_subcluster_type", ["C01", "C07", "C11"], model, params=lambda m: params(m, "sc_index"), requires=req,
                          post=lambda eng, st, rv: [("subcluster_type_per_qcow2_txt", eng.as_int(rv, st, None) == eng.model.spec_sc_type(e0, i))], case=f"extl2,sc={i}",
                          note="extended L2 entry: first word any 64-bit value, bitmap = 64 independent bits; independent of the cluster size")

    def post_range(eng, st, rv):
        m = eng.model
        t, n = (eng.as_int(x, st, None) for x in rv.items)
        T_ = lambda k: m.spec_sc_type(e0, k)  # noqa: E731
        goals = [("type_of_the_first_subcluster", t == T_(i)), ("count_in_range", z3.And(n >= 1, n <= 32 - i))]
        S = m.SCT
        # compressed clusters are counted whole (their sub-cluster type does not depend on the bitmap)
        goals.append(("all_counted_subclusters_have_that_type", z3.And(*[z3.Implies(j < n, T_(i + j) == t) for j in range(32 - i)])))
        goals.append(("count_is_maximal", z3.Or(n == 32 - i, *[z3.And(n == j, T_(i + j) != t) for j in range(1, 32 - i)])))
        return goals

    def model_range():
        return ExtBitsModel()

    c_range = FnContract(FILE, "get_subcluster_range_type", ["C01", "C07", "C11"], model_range, params=lambda m: params(m, "sc_from"), requires=req, post=post_range,
                         raises={"Error": lambda eng, st: eng.model.spec_sc_type(e0, i) == eng.model.SCT["QCOW2_SUBCLUSTER_INVALID"]}, case=f"extl2,sc={i}",
                         note="raises exactly for entries whose bitmap is invalid (a sub-cluster both allocated and zero, or allocation bits on an unallocated cluster)")
    return [mk_type(), c_range]


# ------------------------------------------------------------------------------------------------ extended L2: run counting over sub-clusters
class ExtTables:
    """L2 table of extended entries: first words E(idx), bitmap bits B(idx, k) (0/1), with named abbreviations for the two
    whole-bitmap conditions; T(idx, k) is the qcow2.txt type of sub-cluster k of entry idx"""

    def setup_tables(self, key=None):
        self.E = (lambda i: self.E2(key, i)) if key is not None else z3.Function("L2E", I, I)
        Bf = z3.Function("L2B", I, I, I) if key is None else None
        self.B = (lambda i, k: Bf(i, k)) if key is None else (lambda i, k: self.B3(key, i, k))
        self.BothF = z3.Function("BothAllocAndZero", I, B) if key is None else None
        self.AnyF = z3.Function("AnyAllocBit", I, B) if key is None else None

    def table_axioms(self):
        t = T
        return [z3.ForAll([t], z3.And(self.E(t) >= 0, self.E(t) <= U64)),
                z3.ForAll([t], z3.And(*[z3.And(self.B(t, k) >= 0, self.B(t, k) <= 1) for k in range(64)])),
                z3.ForAll([t], self.BothF(t) == z3.Or(*[z3.And(self.B(t, k) == 1, self.B(t, 32 + k) == 1) for k in range(32)])),
                z3.ForAll([t], self.AnyF(t) == z3.Or(*[self.B(t, k) == 1 for k in range(32)]))]

    def bitmap_value(self, idx):
        from pyvc.engine import bitlist_value

        bl = tuple(self.B(idx, k) for k in range(64))
        return IntV(bitlist_value(bl), (0, 64), bl)

    def T_at(self, idx, k):
        """type of sub-cluster k (a Python int) of entry idx"""
        CT, S = self.CT, self.SCT
        ct = self.spec_cluster_type(self.E(idx))
        normal = z3.If(self.BothF(idx), S["QCOW2_SUBCLUSTER_INVALID"], z3.If(self.B(idx, 32 + k) == 1, S["QCOW2_SUBCLUSTER_ZERO_ALLOC"], z3.If(self.B(idx, k) == 1, S["QCOW2_SUBCLUSTER_NORMAL"], S["QCOW2_SUBCLUSTER_UNALLOCATED_ALLOC"])))
        unalloc = z3.If(self.AnyF(idx), S["QCOW2_SUBCLUSTER_INVALID"], z3.If(self.B(idx, 32 + k) == 1, S["QCOW2_SUBCLUSTER_ZERO_PLAIN"], S["QCOW2_SUBCLUSTER_UNALLOCATED_PLAIN"]))
        return z3.If(ct == CT["QCOW2_CLUSTER_COMPRESSED"], S["QCOW2_SUBCLUSTER_COMPRESSED"], z3.If(ct == CT["QCOW2_CLUSTER_NORMAL"], normal, unalloc))

    def T_sym(self, idx, s):
        """type of sub-cluster s (a z3 integer in 0..31) of entry idx"""
        e = self.T_at(idx, 31)
        for k in range(30, -1, -1):
            e = z3.If(s == k, self.T_at(idx, k), e)
        return e

    def c_range_type_ext(self, eng, st, args, node):
        """contract of get_subcluster_range_type for extended entries (proved above for each of the 32 constant sc_from values; a symbolic
        sc_from in 0..31 is the union of those cases)"""
        bm = args[2]
        s = eng.as_int(args[3], st, node)
        idx = st.ghost.get("cur_idx")
        if idx is None or not isinstance(bm, IntV) or bm.bl is None:
            raise Unsupported("get_subcluster_range_type on a bitmap that does not come from l2_table.bitmap")
        eng.pre(st, z3.And(s >= 0, s <= 31), node, tag="range_type.requires")
        t0 = self.T_sym(idx, s)
        eng.may_raise("Error", st, t0 != self.SCT["QCOW2_SUBCLUSTER_INVALID"], node)
        t, n = fresh("sc_type"), fresh("sc_count")
        st.hyps.append(z3.And(t == t0, n >= 1, n <= 32 - s, z3.Implies(t == self.SCT["QCOW2_SUBCLUSTER_COMPRESSED"], n == 32 - s),
                              *[z3.Implies(z3.And(s <= k, k < s + n), self.T_at(idx, k) == t) for k in range(32)],
                              z3.Or(s + n == 32, self.T_sym(idx, s + n) != t)))
        return TupleV([IntV(t), IntV(n)])


class ExtCountModel(GeomModel, ExtTables):
    def __init__(self, cb):
        GeomModel.__init__(self, cb, True)
        self.setup_tables()
        self.methods[("l2_table", "entry")] = self.entry
        self.methods[("l2_table", "bitmap")] = lambda eng, st, args, node: self.bitmap_value(eng.as_int(args[0], st, node))
        self.global_calls["get_subcluster_range_type"] = self.c_range_type_ext

    def entry(self, eng, st, args, node):
        i = eng.as_int(args[0], st, node)
        st.ghost["cur_idx"] = i
        return IntV(self.E(i))

    def offs(self, e):
        return bits(e, 9, 56) * 512


def _count_contiguous_ext(cb):
    nb0, i0, s0 = z3.Ints("nb_clusters0 l2_index0 sc_index0")

    def chk(m, t0):
        S = m.SCT
        return z3.Or(t0 == S["QCOW2_SUBCLUSTER_NORMAL"], t0 == S["QCOW2_SUBCLUSTER_ZERO_ALLOC"], t0 == S["QCOW2_SUBCLUSTER_UNALLOCATED_ALLOC"])

    def covered(m, J, upto_sub=None):
        """every sub-cluster of cluster l2_index0 + J that the count covers has the first type; host clusters consecutive"""
        t0 = m.T_sym(i0, s0)
        return z3.And(*[z3.Implies(z3.Or(J > 0, k >= s0), m.T_at(i0 + J, k) == t0) for k in range(32)],
                      z3.Implies(chk(m, t0), m.offs(m.E(i0 + J)) == m.offs(m.E(i0)) + J * m.cs))

    def loop_inv(eng, st):
        m = eng.model
        i = st.env["$i0"].e
        cnt = st.env["count"].e
        J = z3.Int("j")
        t0 = m.T_sym(i0, s0)
        parts = [z3.Implies(i >= 1, cnt == 32 * i - s0), z3.Implies(i == 0, cnt == 0), z3.ForAll([J], z3.Implies(z3.And(0 <= J, J < i), covered(m, J)))]
        et, eo, co = st.env["expected_type"], st.env["expected_offset"], st.env["check_offset"]
        etn, etv = eng.opt_parts(et)
        eon, eov = eng.opt_parts(eo)
        parts.append(z3.Implies(i >= 1, z3.And(z3.Not(etn), etv.e == t0 if etv is not None else False, z3.Not(eon), z3.Implies(chk(m, t0), eov.e == m.offs(m.E(i0)) + (i - 1) * m.cs) if eov is not None else False,
                                               eng.truthy(co) == chk(m, t0), t0 != m.SCT["QCOW2_SUBCLUSTER_COMPRESSED"])))
        return z3.And(*parts)

    def post(eng, st, rv):
        m = eng.model
        r = eng.as_int(rv, st, None)
        t0 = m.T_sym(i0, s0)
        J = z3.Int("j")
        # the counted range is [s0, s0 + r) in sub-cluster positions counted from cluster l2_index0; full = number of completely covered clusters
        full, rest, f = ediv(s0 + r, z3.IntVal(32))
        return [("count_in_range", z3.And(r >= 1, s0 + r <= 32 * nb0)), ("compressed_clusters_are_counted_whole_and_alone", z3.Implies(t0 == m.SCT["QCOW2_SUBCLUSTER_COMPRESSED"], r == 32 - s0)),
                ("fully_covered_clusters_have_the_first_type_and_consecutive_host_offsets", z3.Implies(f, z3.ForAll([J], z3.Implies(z3.And(0 <= J, J < full), covered(m, J))))),
                ("the_partly_covered_last_cluster_too", z3.Implies(z3.And(f, rest > 0), z3.And(*[z3.Implies(z3.And(z3.Or(full > 0, k >= s0), k < rest), m.T_at(i0 + full, k) == t0) for k in range(32)],
                                                                                            z3.Implies(chk(m, t0), m.offs(m.E(i0 + full)) == m.offs(m.E(i0)) + full * m.cs))))]

    c = FnContract(FILE, "count_contiguous_subclusters", ["C01", "C07", "C11"], lambda: ExtCountModel(cb),
                   params=lambda m: {"qcow2": ObjV("qcow2"), "nb_clusters": IntV(nb0), "sc_index": IntV(s0), "l2_table": ObjV("l2_table"), "l2_index": IntV(i0)},
                   requires=lambda m: [nb0 >= 1, i0 >= 0, i0 + nb0 <= (1 << m.l2_bits), s0 >= 0, s0 <= 31] + m.table_axioms(), post=post, raises={"Error": None},
                   loops={("For", 0): LoopSpec(inv=loop_inv, shapes={"expected_type": "optint", "expected_offset": "optint", "check_offset": "bool", "count": "int", "first_sc": "local", "l2_entry": "local", "l2_bitmap": "local",
                                                                     "sc_type": "local", "sc_count": "local"})},
                   case=_case_name(cb, True), note="extended L2: entries and 64-bit bitmaps arbitrary; positions counted in sub-clusters")
    c.select_terms = False
    c.cost = 100
    return c


# ------------------------------------------------------------------------------------------------ extended L2: _yield_runs / _read
class ExtRunModel(ReadModel, ExtTables):
    """QCow2 object for _yield_runs with extended L2 entries (sub-clusters)"""

    def __init__(self, cb):
        ReadModel.__init__(self, cb, True)
        self.l2s = 1 << self.l2_bits
        self.scs = self.cs // 32
        self.L1 = z3.Function("L1", I, I)
        self.E2 = z3.Function("L2", I, I, I)
        self.B3 = z3.Function("L2B", I, I, I, I)  # (l2 table offset, index, bit) -> 0/1
        self.Both2 = z3.Function("BothAllocAndZero", I, I, B)
        self.Any2 = z3.Function("AnyAllocBit", I, I, B)
        self.L1N = self.int_field("self.header.l1_size", 0, U32, None)
        self.lens["self.l1_table"] = IntV(self.L1N)  # see RunModel: the length of the L1 table the object holds
        self.obj_field("self.header")
        self.fields["self.l1_table"] = ObjV("self.l1_table")
        self.items["self.l1_table"] = self.l1_get
        self.methods[("self", "l2_table")] = self.open_l2
        self.methods[("l2_table", "entry")] = self.entry
        self.methods[("l2_table", "bitmap")] = self.bitmap
        self.truthy["l2_table"] = z3.BoolVal(True)
        self.has_backing = z3.Bool("has_backing_file")
        self.fields["self.has_backing_file"] = BoolV(self.has_backing)
        self.BACK = z3.Function("BackingGuest", I, I)
        self.DATA = z3.Array("data_file", I, I)
        self.INFL = z3.Function("Inflated", I, I, I)
        self.G = z3.Function("QGuestX", I, I)
        register_opaque("QGuestX", self.guest_def)
        self.global_calls.update({"offset_to_l1_index": self.c_l1i, "offset_to_l2_index": self.c_l2i, "offset_to_sc_index": self.c_sci, "size_to_clusters": self.c_s2c,
                                  "count_contiguous_subclusters": self.c_count, "get_subcluster_type": self.c_type})

    # tables of the L2 table at offset `off`
    def tbl(self, off):
        m = self

        class V_(ExtTables):
            CT, SCT = m.CT, m.SCT
            spec_cluster_type = m.spec_cluster_type

            def E(self_, i):
                return m.E2(off, i)

            def B(self_, i, k):
                return m.B3(off, i, k)

            def BothF(self_, i):
                return m.Both2(off, i)

            def AnyF(self_, i):
                return m.Any2(off, i)

        return V_()

    def axioms(self):
        u, t = z3.Int("u"), T
        return [z3.ForAll([t], z3.And(self.L1(t) >= 0, self.L1(t) <= U64)), z3.ForAll([u, t], z3.And(self.E2(u, t) >= 0, self.E2(u, t) <= U64)),
                z3.ForAll([u, t], z3.And(*[z3.And(self.B3(u, t, k) >= 0, self.B3(u, t, k) <= 1) for k in range(64)])),
                z3.ForAll([u, t], self.Both2(u, t) == z3.Or(*[z3.And(self.B3(u, t, k) == 1, self.B3(u, t, 32 + k) == 1) for k in range(32)])),
                z3.ForAll([u, t], self.Any2(u, t) == z3.Or(*[self.B3(u, t, k) == 1 for k in range(32)]))]

    def offs(self, e):
        return bits(e, 9, 56) * 512

    def guest_def(self, x):
        c, o, f0 = ediv(x, z3.IntVal(self.cs))
        sub, _r, f1 = ediv(o, z3.IntVal(self.scs))
        q1, l2i, f2 = ediv(c, z3.IntVal(self.l2s))
        l2off = self.offs(self.L1(q1))
        tb = self.tbl(l2off)
        e = self.E2(l2off, l2i)
        S = self.SCT
        t = z3.If(z3.Or(q1 >= self.L1N, l2off == 0), S["QCOW2_SUBCLUSTER_UNALLOCATED_PLAIN"], tb.T_sym(l2i, sub))
        bk = z3.If(self.has_backing, self.BACK(x), 0)
        val = z3.If(z3.Or(t == S["QCOW2_SUBCLUSTER_UNALLOCATED_PLAIN"], t == S["QCOW2_SUBCLUSTER_UNALLOCATED_ALLOC"]), bk,
                    z3.If(z3.Or(t == S["QCOW2_SUBCLUSTER_ZERO_PLAIN"], t == S["QCOW2_SUBCLUSTER_ZERO_ALLOC"]), 0,
                          z3.If(t == S["QCOW2_SUBCLUSTER_NORMAL"], z3.Select(self.DATA, self.offs(e) + o), self.INFL(e % (1 << 62), o))))
        return val, [f0, f1, f2]

    run_value = RunModel.run_value
    l1_get = RunModel.l1_get
    c_l1i = RunModel.c_l1i
    c_l2i = RunModel.c_l2i
    c_s2c = RunModel.c_s2c

    def open_l2(self, eng, st, args, node):
        st.ghost["cur_l2off"] = eng.as_int(args[0], st, node)
        return ObjV("l2_table")

    def entry(self, eng, st, args, node):
        i = eng.as_int(args[0], st, node)
        st.ghost["cur_idx"] = i
        return IntV(self.E2(st.ghost["cur_l2off"], i))

    def bitmap(self, eng, st, args, node):
        from pyvc.engine import bitlist_value

        i = eng.as_int(args[0], st, node)
        bl = tuple(self.B3(st.ghost["cur_l2off"], i, k) for k in range(64))
        return IntV(bitlist_value(bl), (0, 64), bl)

    def c_sci(self, eng, st, args, node):
        x = eng.as_int(args[1], st, node)
        eng.pre(st, x >= 0, node)
        qs, _r = eng.euclid(st, x, z3.IntVal(self.scs))
        _q, sci = eng.euclid(st, qs, z3.IntVal(32))
        return IntV(sci)  # (x div subcluster_size) mod 32: contract of offset_to_sc_index (contracts/qcow2.py)

    def c_type(self, eng, st, args, node):
        e, s = eng.as_int(args[1], st, node), eng.as_int(args[3], st, node)
        eng.pre(st, z3.And(e >= 0, e <= U64, s >= 0, s <= 31), node)
        tb = self.tbl(st.ghost["cur_l2off"])
        return IntV(tb.T_sym(st.ghost["cur_idx"], s))  # union of the 32 per-index contracts proved above

    def c_count(self, eng, st, args, node):
        """contract of count_contiguous_subclusters for extended entries (proved above)"""
        nb, s0, i0 = eng.as_int(args[1], st, node), eng.as_int(args[2], st, node), eng.as_int(args[4], st, node)
        eng.pre(st, z3.And(nb >= 1, s0 >= 0, s0 <= 31, i0 >= 0, i0 + nb <= self.l2s), node, tag="count_contiguous.requires")
        off = st.ghost["cur_l2off"]
        tb = self.tbl(off)
        t0 = tb.T_sym(i0, s0)
        S = self.SCT
        eng.may_raise("Error", st, t0 != S["QCOW2_SUBCLUSTER_INVALID"], node)
        r = fresh("sc_count")
        J = z3.Int("j")
        chk = z3.Or(t0 == S["QCOW2_SUBCLUSTER_NORMAL"], t0 == S["QCOW2_SUBCLUSTER_ZERO_ALLOC"], t0 == S["QCOW2_SUBCLUSTER_UNALLOCATED_ALLOC"])

        def covered(Jv):
            return z3.And(*[z3.Implies(z3.Or(Jv > 0, k >= s0), tb.T_at(i0 + Jv, k) == t0) for k in range(32)], z3.Implies(chk, self.offs(self.E2(off, i0 + Jv)) == self.offs(self.E2(off, i0)) + Jv * self.cs))

        full, rest, f = ediv(s0 + r, z3.IntVal(32))
        st.hyps.append(z3.And(f, r >= 1, s0 + r <= 32 * nb, z3.Implies(t0 == S["QCOW2_SUBCLUSTER_COMPRESSED"], r == 32 - s0)))
        st.hyps.append(z3.ForAll([J], z3.Implies(z3.And(0 <= J, J < full), covered(J))))
        st.hyps.append(z3.Implies(rest > 0, z3.And(*[z3.Implies(z3.And(z3.Or(full > 0, k >= s0), k < rest), tb.T_at(i0 + full, k) == t0) for k in range(32)],
                                                   z3.Implies(chk, self.offs(self.E2(off, i0 + full)) == self.offs(self.E2(off, i0)) + full * self.cs))))
        st.anchor(full, cls="unit")
        return IntV(r)


def _yield_runs_ext(cb):
    offset0, length0 = z3.Ints("offset0 length0")

    def inv(eng, st):
        offset, length = st.env["offset"].e, st.env["length"].e
        plen = st.ghost["plen"]
        return z3.And(offset >= offset0, offset + length == offset0 + length0, plen == offset - offset0, length >= 0)

    def on_yield(eng, st, v, node):
        m = eng.model
        sc_type, roff, hoff, n = (eng.as_int(x, st, node) for x in v.items)
        plen = st.ghost["plen"]
        eng.ob("yield.run_starts_where_the_previous_one_ended", st, z3.And(roff == offset0 + plen, n >= 1, n <= length0 - plen), node)
        kk = fresh("kk")
        o0q, o0, f_o = ediv(roff, z3.IntVal(m.cs))
        j, rr, f_j = ediv(o0 + kk, z3.IntVal(m.cs))
        sub, _sr, f_s = ediv(rr, z3.IntVal(m.scs))
        s2 = st.fork()
        s2.hyps += [f_o, f_j, f_s, kk >= 0, kk < n]
        s2.anchor(j, cls="unit")
        s2.anchor(kk, cls="byte")
        eng.ob("yield.run_bytes_are_the_guest_bytes", s2, m.G(roff + kk) == m.run_value(sc_type, roff, hoff, kk), node)
        eng.ob("yield.compressed_runs_stay_inside_one_cluster", st, z3.Implies(sc_type == m.SCT["QCOW2_SUBCLUSTER_COMPRESSED"], z3.And(o0 + n <= m.cs, hoff >= 0, hoff < (1 << 62))), node)
        eng.ob("yield.type_is_a_valid_subcluster_type", st, z3.And(sc_type >= 0, sc_type <= 6, sc_type != m.SCT["QCOW2_SUBCLUSTER_INVALID"]), node)
        st.hyps.append(f_o)
        st.ghost["plen"] = plen + n

    def post(eng, st, rv):
        return [("runs_cover_the_request_exactly", st.ghost["plen"] == length0)]

    c = FnContract(FILE, "QCow2._yield_runs", ["C01", "C07", "C08", "C11"], lambda: ExtRunModel(cb), params=lambda m: {"self": ObjV("self"), "offset": IntV(offset0), "length": IntV(length0)},
                   requires=lambda m: [offset0 >= 0, length0 >= 0] + m.axioms(), post=post, on_yield=on_yield, ghost=lambda m: {"plen": z3.IntVal(0)}, raises={"Error": None},
                   loops={("While", 0): LoopSpec(inv, lambda eng, st: st.env["length"].e, ghost_havoc={"plen": "int"},
                                                 shapes={k: "local" for k in ("sc_type", "host_offset", "read_count", "l1_index", "l2_index", "sc_index", "offset_in_cluster", "bytes_needed", "bytes_available", "l2_offset",
                                                                              "l2_table", "l2_entry", "l2_bitmap", "host_cluster_offset", "nb_clusters", "sc_count")})},
                   case=_case_name(cb, True), note="extended L2: generator contract at sub-cluster granularity; entries and bitmaps arbitrary; an invalid bitmap raises Error")
    c.select_terms = True
    c.cost = 200
    return c


def trusted(pid):
    import os

    out = ["A3 zlib / zstd streaming decompressors: decompressobj(-12).decompress(data, n >= 1) returns the first min(n, len) bytes of the inflation of data; a zstd stream reader's read(n >= 1) returns "
           "the next 1..n bytes (0 only at the end).  QCow2._decompress is proved against these (at most one cluster is produced, it is the prefix of the inflation, the limit is never 0 = unlimited); "
           "that the inflation of a well-formed compressed cluster is the guest's cluster content is the format's definition (Inflated(descriptor, offset))",
           "A6 (well-formed image) mapped host clusters lie inside the data file; L1/L2 tables are total functions of their index (cstruct array reads, lru_cache on l2_table: A3)",
           "callee contracts used by the read path are the proved ones: index helpers (contracts/qcow2.py, incl. the nested L1 form), get_subcluster_type/range_type, count_contiguous_subclusters, _read_compressed, derived geometry of __init__"]
    if os.environ.get("VERIF_TIER_EFFECTIVE", "quick") != "thorough":
        out.append("quick tier only: the per-run contract of _yield_runs for the 8 extended-L2 geometries is assumed by their _read contracts (it is proved in the thorough tier; the bounded block exercises it in both); "
                   "extended-L2 count_contiguous_subclusters is proved for cluster_bits 14 only (all 8 in the thorough tier); ctz/cto are proved in the thorough tier")
    return out
