"""Shared vocabulary for the sidecar contracts."""
from __future__ import annotations

import z3

from pyvc.engine import (B, I, LambdaV, OpaqueV, SetListV, ediv, BoolV, BytesV, FileV, IntV, ListV, LoopSpec, NoneV, ObjV, OptV, SeqV, StrV, TupleV,
                         Unsupported, fresh, zmax, zmin)
from pyvc.discharge import register_opaque
from pyvc.model import FnContract, Model

K = z3.Int("k")  # byte index in quantified contracts
T = z3.Int("t")  # table index (BAT / map entry): instantiated by pattern only
U32 = 0xFFFFFFFF
U64 = 0xFFFFFFFFFFFFFFFF


def forall_k(n, body_of_k, k=K):
    """forall k. 0 <= k < n  =>  body(k)"""
    return z3.ForAll([k], z3.Implies(z3.And(0 <= k, k < n), body_of_k(k)))


def bytes_eq_guest(b: BytesV, guest, base):
    """b[k] == guest(base + k) for all k < len(b)"""
    return forall_k(b.n, lambda k: b.at(k) == guest(base + k))


def be(at, pos, width):
    """big-endian unsigned integer stored in `width` bytes at pos"""
    e = at(pos)
    for i in range(1, width):
        e = e * 256 + at(pos + i)
    return e


def le(at, pos, width):
    e = at(pos + width - 1)
    for i in range(width - 2, -1, -1):
        e = e * 256 + at(pos + i)
    return e


def byte_range_axiom(arr):
    """every byte of a file is in 0..255"""
    return z3.ForAll([T], z3.And(z3.Select(arr, T) >= 0, z3.Select(arr, T) <= 255))


def ret_bytes(rv):
    if isinstance(rv, BytesV):
        return rv
    if isinstance(rv, ListV):
        return rv.joined
    raise Unsupported(f"function returned {type(rv).__name__}, contract expects bytes")


def lstream_post(rv, guest, offset0, length0, size):
    """L-stream clauses (a) and (b) of DESIGN.md section 7 for a `_read(offset, length)` result."""
    r = ret_bytes(rv)
    inr = offset0 + length0 <= size
    return [
        ("len_exact_in_range", z3.Implies(inr, r.n == length0)),
        ("len_covers_tail", z3.Implies(z3.Not(inr), r.n >= size - offset0)),
        ("content", forall_k(zmin(r.n, size - offset0), lambda k: r.at(k) == guest(offset0 + k))),
    ]


# ------------------------------------------------------------------------------------------------ replay glue
_SEARCH_CACHE = {}


def default_classify(spec, f):
    d = f.get("detail", "")
    exc = d.split(":")[0] if f["kind"] == "exception" else ""
    return f"{f.get('api', '?')}:{f['kind']}" + (f":{exc}" if exc else "")


def search_cached(rep, fmt, n_specs, hints=None, classify=default_classify, budget_s=90):
    from replay import harness

    key = (fmt, rep.repo, rep.seed, n_specs, str(hints))
    if key not in _SEARCH_CACHE:
        _SEARCH_CACHE[key] = harness.search(rep.repo, fmt, seed=rep.seed, n_specs=n_specs, hints=hints, classify=classify, budget_s=budget_s)
    return _SEARCH_CACHE[key]


def make_replay(fmt, n_specs=150, classify=default_classify, relevant=None):
    """Refutation step 3/4 of DESIGN.md section 4 for one format: small-scope search on the real code, seeded with the
    solver candidate's geometry where it is within the machine ranges."""

    def replay(rep, ob_name, qs):
        r = search_cached(rep, fmt, n_specs, classify=classify)
        if r["harness_errors"]:
            rep.notes.append(f"replay harness errors ({fmt}): {r['harness_errors'][0]['detail'][-300:]}")
        fails = r["failures"]
        if relevant:
            fails = [f for f in fails if relevant(ob_name, f)] or []
        if not fails:
            return None
        f = fails[0]
        reqs = [f["failure"]["req"] + [f["failure"]["api"]]] if "req" in f["failure"] else []
        return {"found": True, "finding_key": f"{fmt}:{f['key']}",
                "text": f"real code fails on {fmt} image {f['spec']} request {f['failure'].get('req')} via {f['failure'].get('api')}: {f['failure']['kind']} {f['failure'].get('detail', '')[:120]}"
                        + (f" expected {f['failure'].get('expected')} observed {f['failure'].get('observed')} first_diff {f['failure'].get('first_diff')}" if f["failure"]["kind"] == "mismatch" else ""),
                "record": {"fmt": fmt, "spec": f["spec"], "requests": reqs, "failure": f["failure"], "search": {k: r[k] for k in ("evaluations", "specs", "n_failures")},
                           "rerun": f"./check {rep.pid} --replay <this file>"}}

    return replay


def make_bounded(fmt, label, quick_specs=60, thorough_specs=600, classify=default_classify):
    """Bounded stand-in / CPython cross-check: never counted as proved; a failing real input is a violation."""

    def bounded(rep, pid, known):
        from pyvc import driver

        n = thorough_specs if rep.tier == "thorough" else quick_specs
        if n == 0:
            return
        r = search_cached(rep, fmt, n, classify=classify)
        rep.bounded.append({"block": label, "level": "bounded (small-scope search on the real code; NOT counted as proved)", "evaluations": r["evaluations"],
                            "distinct_nontrivial": r["distinct_nontrivial"], "rule": r["rule"], "failures": r["n_failures"], "wall_s": r["wall_s"]})
        if r["harness_errors"]:
            rep.errors.append(f"bounded block {label}: harness error {r['harness_errors'][0]['detail'][-300:]}")
        known_keys = {k["key"]: k for k in known.get("findings", []) if k.get("property") == pid and k.get("status") == "known"}
        seen = set()
        for f in r["failures"]:
            key = f"{fmt}:{f['key']}"
            if key in seen:
                continue
            seen.add(key)
            if key in known_keys:
                msg = f"{known_keys[key]['what']} [bounded block {label}]"
                if msg not in rep.known:
                    rep.known.append(msg)
                continue
            reqs = [f["failure"]["req"] + [f["failure"]["api"]]] if "req" in f["failure"] else []
            p = driver.write_replay(pid, f"bounded.{label}.{key}", {"property": pid, "fmt": fmt, "spec": f["spec"], "requests": reqs, "failure": f["failure"]})
            if not any(v[0] == p for v in rep.violations):
                rep.violations.append((p, f"bounded block {label}: real code fails on {f['spec']} request {f['failure'].get('req')}: {f['failure']['kind']} {f['failure'].get('detail', '')[:100]}", False))

    return bounded
