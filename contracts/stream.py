"""C08: AlignedStream (dissect.util.stream, the dependency every disk stream builds on) under contract, extracted from the
*installed* source the same mechanical way as the repository's functions ("dependency verified from installed source").

Abstract view: the stream is an immutable byte array A of length `size`.  The back end `_read(o, n)` is used only through the
L-stream contract that each format's `_read` is proved to satisfy (DESIGN.md 7):
   requires  o % align == 0, 0 <= o < size, n > 0, n % align == 0
   ensures   len(r) == n if o + n <= size else len(r) >= size - o ;  r[k] == A[o + k] for k < min(len(r), size - o)
Class invariant INV:  align > 0, size >= 0, _pos >= 0, _pos_align == _pos - _pos % align,
                      _buf is None  or  _buf is the L-stream result for (_pos_align, align).
Contracts:  read(n) returns A[pos : pos+m] with m = max(0, min(n, size-pos)) (n == -1: to the end), advances pos by m, keeps INV;
            seek/_seek/_set_pos/_fill_buf/peek/readoffset/tell accordingly."""
from __future__ import annotations

import os

import z3

from pyvc.engine import fresh_bytes
from .common import *


def stream_root():
    import dissect.util.stream as s

    f = os.path.abspath(s.__file__)
    root = f[: -len("dissect/util/stream.py")]
    return root


FILE = "dissect/util/stream.py"


class StreamModel(Model):
    def __init__(self):
        super().__init__()
        self.hyps = []
        self.size = z3.Int("self.size")
        self.align = z3.Int("self.align")
        self.pos = z3.Int("pos0")
        self.pa = z3.Int("pos_align0")
        self.buf_none = z3.Bool("buf0_is_none")
        self.buf = fresh_bytes("buf0")
        self.A = z3.Function("A", I, I)
        self.fields["self.size"] = OptV(z3.BoolVal(False), IntV(self.size))
        self.fields["self.align"] = IntV(self.align)
        self.fields["self._lock"] = ObjV("self._lock")
        self.globals["io"] = ObjV("io")
        self.fields["io.SEEK_SET"] = IntV(z3.IntVal(0))
        self.fields["io.SEEK_CUR"] = IntV(z3.IntVal(1))
        self.fields["io.SEEK_END"] = IntV(z3.IntVal(2))
        self.methods[("self", "_read")] = self.backend_read
        self.methods[("self", "_set_pos")] = self.c_set_pos
        self.methods[("self", "_fill_buf")] = self.c_fill_buf
        self.methods[("self", "_seek")] = self.c_seek_calc
        self.methods[("self", "seek")] = self.c_seek
        self.methods[("self", "read")] = self.c_read
        self.stores_allowed = {"self._pos", "self._pos_align", "self._buf"}
        self.qa, self.ra = z3.Ints("pos_q pos_r")

    # ---- state
    def init_attrs(self):
        return {"self._pos": IntV(self.pos), "self._pos_align": IntV(self.pa), "self._buf": OptV(self.buf_none, self.buf)}

    def buf_ok(self, isnone, b: BytesV, pa):
        """_buf is the back end's answer for the aligned block at pa"""
        lim = self.size - pa
        return z3.Implies(z3.Not(isnone), z3.And(b.n >= 0, z3.Implies(pa + self.align <= self.size, b.n == self.align), z3.Implies(pa + self.align > self.size, b.n >= lim),
                                                 forall_k(zmin(b.n, lim), lambda k: b.at(k) == self.A(pa + k))))

    def inv(self, eng, st, attrs=None):
        a = attrs or st.attrs
        pos, pa = a["self._pos"].e, a["self._pos_align"].e
        isn, b = eng.opt_parts(a["self._buf"])
        b = b if b is not None else EMPTY_
        q, r = eng.euclid(st, pos, self.align)
        return z3.And(self.align > 0, self.size >= 0, pos >= 0, pa == pos - r, self.buf_ok(isn, b, pa))

    # ---- callee contracts (each proved below on the real method)
    def backend_read(self, eng, st, args, node):
        o, n = (eng.as_int(a, st, node) for a in args)
        qo, ro = eng.euclid(st, o, self.align)
        qn, rn = eng.euclid(st, n, self.align)
        eng.pre(st, z3.And(ro == 0, o >= 0, o < self.size, n > 0, rn == 0), node)
        r = fresh_bytes("be")
        lim = self.size - o
        st.hyps.append(z3.And(r.n >= 0, z3.Implies(o + n <= self.size, r.n == n), z3.Implies(o + n > self.size, r.n >= lim),
                              forall_k(zmin(r.n, lim), lambda k: r.at(k) == self.A(o + k))))
        return r

    def c_set_pos(self, eng, st, args, node):
        pos = eng.as_int(args[0], st, node)
        eng.pre(st, pos >= 0, node)
        q, r = eng.euclid(st, pos, self.align)
        new_pa = pos - r
        old_pa = st.attrs["self._pos_align"].e
        isn, b = eng.opt_parts(st.attrs["self._buf"])
        st.attrs["self._buf"] = OptV(z3.Or(isn, old_pa != new_pa), b if b is not None else EMPTY_)
        st.attrs["self._pos_align"] = IntV(new_pa)
        st.attrs["self._pos"] = IntV(pos)
        return NoneV()

    def c_fill_buf(self, eng, st, args, node):
        # contract of _fill_buf (proved below): position unchanged; the buffer satisfies the invariant for the current aligned
        # block and is present whenever the position lies inside the stream
        pos, pa = st.attrs["self._pos"].e, st.attrs["self._pos_align"].e
        nb_none = fresh("buf_isnone", B)
        nb = fresh_bytes("filled")
        st.hyps.append(z3.And(nb.n >= 0, self.buf_ok(nb_none, nb, pa), z3.Implies(z3.And(pos < self.size, pa < self.size), z3.Not(nb_none))))
        st.attrs["self._buf"] = OptV(nb_none, nb)
        return NoneV()

    def c_seek_calc(self, eng, st, args, node):
        pos = eng.as_int(args[0], st, node)
        wh = eng.as_int(args[1], st, node) if len(args) > 1 else z3.IntVal(0)
        cur = st.attrs["self._pos"].e
        eng.may_raise("ValueError", st, z3.Not(z3.And(wh == 0, pos < 0)), node)
        eng.may_raise("OSError", st, z3.And(wh >= 0, wh <= 2), node)
        r = z3.If(wh == 0, pos, z3.If(wh == 1, zmax(z3.IntVal(0), cur + pos), zmax(z3.IntVal(0), self.size + pos)))
        return IntV(r)

    def c_seek(self, eng, st, args, node):
        r = self.c_seek_calc(eng, st, args, node)
        self.c_set_pos(eng, st, [r], node)
        return r

    def c_read(self, eng, st, args, node):
        n = eng.as_int(args[0], st, node) if args else z3.IntVal(-1)
        eng.may_raise("ValueError", st, n >= -1, node)
        pos = st.attrs["self._pos"].e
        rest = zmax(z3.IntVal(0), self.size - pos)
        m = z3.If(n == -1, rest, zmin(n, rest))
        r = BytesV(m, lambda i, pos=pos: self.A(pos + i))
        st.hyps.append(m >= 0)
        self.c_set_pos(eng, st, [IntV(pos + m)], node)
        # the buffer may have been (re)filled for the new aligned block
        nb_none = fresh("buf_isnone", B)
        nb = fresh_bytes("buf_after")
        st.hyps.append(self.buf_ok(nb_none, nb, st.attrs["self._pos_align"].e))
        st.attrs["self._buf"] = OptV(nb_none, nb)
        return r


EMPTY_ = BytesV(z3.IntVal(0), lambda i: z3.IntVal(0))


def _mk():
    return StreamModel()


def _pre(m, eng_like=None):
    return []


def _contract(qual, params_of, post, raises=None, loops=None, extra_req=None, note=""):
    def requires(m):
        # INV on the entry state (Euclid witness for pos % align supplied as constants)
        from pyvc.engine import EUCLID

        EUCLID.append((m.pos, m.align, m.qa, m.ra))  # the invariant's pos % align witnesses take part in the uniqueness lemma instances
        st_like = [m.align > 0, m.size >= 0, m.pos >= 0, m.pos == m.qa * m.align + m.ra, 0 <= m.ra, m.ra < m.align, m.pa == m.pos - m.ra,
                   m.buf_ok(m.buf_none, m.buf, m.pa), m.buf.n >= 0]
        return st_like + (extra_req(m) if extra_req else [])

    c = FnContract(FILE, qual, ["C08"], _mk, params=params_of, requires=requires, post=post, raises=raises or {}, loops=loops or {},
                   shifts=r"^(buf0_len|be_len|filled_len|r_len)!", note=note or "installed dissect.util source; lock ignored (A1: single-threaded)")
    c.repo_root = stream_root()
    c.init_attrs = lambda m: m.init_attrs()
    return c


def _post_inv(eng, st):
    return eng.model.inv(eng, st)


def _set_pos():
    p = z3.Int("newpos")

    def post(eng, st, rv):
        m = eng.model
        q, r = eng.euclid(st, p, m.align)
        isn, b = eng.opt_parts(st.attrs["self._buf"])
        return [("pos", st.attrs["self._pos"].e == p), ("pos_align", st.attrs["self._pos_align"].e == p - r),
                ("buffer_dropped_iff_block_changes", isn == z3.Or(m.buf_none, m.pa != p - r)), ("inv", _post_inv(eng, st))]

    return _contract("AlignedStream._set_pos", lambda m: {"self": ObjV("self"), "pos": IntV(p)}, post, extra_req=lambda m: [p >= 0])


def _seek_calc():
    p, w = z3.Ints("seekpos whence")

    def post(eng, st, rv):
        m = eng.model
        r = eng.as_int(rv, st, None)
        return [("value", r == z3.If(w == 0, p, z3.If(w == 1, zmax(z3.IntVal(0), m.pos + p), zmax(z3.IntVal(0), m.size + p)))), ("nonneg", r >= 0)]

    return _contract("AlignedStream._seek", lambda m: {"self": ObjV("self"), "pos": IntV(p), "whence": IntV(w)}, post,
                     raises={"ValueError": lambda eng, st: z3.And(w == 0, p < 0), "OSError": lambda eng, st: z3.Or(w < 0, w > 2),
                             "IOError": lambda eng, st: z3.Or(w < 0, w > 2)})


def _seek():
    p, w = z3.Ints("seekpos whence")

    def post(eng, st, rv):
        m = eng.model
        want = z3.If(w == 0, p, z3.If(w == 1, zmax(z3.IntVal(0), m.pos + p), zmax(z3.IntVal(0), m.size + p)))
        return [("returns_new_pos", eng.as_int(rv, st, None) == want), ("pos", st.attrs["self._pos"].e == want), ("inv", _post_inv(eng, st))]

    return _contract("AlignedStream.seek", lambda m: {"self": ObjV("self"), "pos": IntV(p), "whence": IntV(w)}, post,
                     raises={"ValueError": None, "OSError": None})


def _fill_buf():
    def post(eng, st, rv):
        m = eng.model
        isn, b = eng.opt_parts(st.attrs["self._buf"])
        return [("inv", _post_inv(eng, st)), ("pos_unchanged", z3.And(st.attrs["self._pos"].e == m.pos, st.attrs["self._pos_align"].e == m.pa)),
                ("filled_when_inside", z3.Implies(z3.And(m.pos < m.size, m.pa < m.size), z3.Not(isn)))]

    return _contract("AlignedStream._fill_buf", lambda m: {"self": ObjV("self")}, post)


def _read():
    n0 = z3.Int("n0")

    def post(eng, st, rv):
        m = eng.model
        r = ret_bytes(rv)
        rest = zmax(z3.IntVal(0), m.size - m.pos)
        want = z3.If(n0 == -1, rest, zmin(n0, rest))
        # segment boundaries of the result: [head from the buffer][aligned blocks][tail from the refilled buffer]
        hb = m.pos - m.pa
        head = z3.If(hb != 0, zmin(want, m.align - hb), z3.IntVal(0))
        qb, rb = eng.euclid(st, want - head, m.align)
        st.anchor(hb, head, head + qb * m.align, cls="byte")
        return [("length", r.n == want), ("content", forall_k(r.n, lambda k: r.at(k) == m.A(m.pos + k))),
                ("position_advances", st.attrs["self._pos"].e == m.pos + want), ("inv", _post_inv(eng, st))]

    return _contract("AlignedStream.read", lambda m: {"self": ObjV("self"), "n": IntV(n0)}, post, raises={"ValueError": lambda eng, st: n0 < -1},
                     note="all eight paths (misaligned head x aligned blocks x tail); size is not None for every disk stream of the package")


def _peek():
    n0 = z3.Int("n0")

    def post(eng, st, rv):
        m = eng.model
        r = ret_bytes(rv)
        rest = zmax(z3.IntVal(0), m.size - m.pos)
        want = z3.If(n0 == -1, rest, zmin(n0, rest))
        return [("length", r.n == want), ("content", forall_k(r.n, lambda k: r.at(k) == m.A(m.pos + k))), ("position_unchanged", st.attrs["self._pos"].e == m.pos), ("inv", _post_inv(eng, st))]

    return _contract("AlignedStream.peek", lambda m: {"self": ObjV("self"), "n": IntV(n0)}, post, raises={"ValueError": None})


def _readoffset():
    o0, l0 = z3.Ints("o0 l0")

    def post(eng, st, rv):
        m = eng.model
        r = ret_bytes(rv)
        rest = zmax(z3.IntVal(0), m.size - o0)
        want = z3.If(l0 == -1, rest, zmin(l0, rest))
        return [("length", r.n == want), ("content", forall_k(r.n, lambda k: r.at(k) == m.A(o0 + k))), ("inv", _post_inv(eng, st))]

    return _contract("AlignedStream.readoffset", lambda m: {"self": ObjV("self"), "offset": IntV(o0), "length": IntV(l0)}, post,
                     raises={"ValueError": None}, extra_req=lambda m: [o0 >= 0])


def contracts(repo):
    return [_set_pos(), _seek_calc(), _seek(), _fill_buf(), _read(), _peek(), _readoffset()]


def trusted(pid):
    return ["AlignedStream is a dependency (dissect.util), verified from the installed source", "A1 the stream lock is ignored (single-threaded use)",
            "every disk stream of the package passes a size that is not None (checked by the constructors' contracts where present)"]
