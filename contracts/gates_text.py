"""C12 gates of the text / container parsers (envelope, keystore, key safe, Parallels HDD), in gate mode (see contracts/gates.py)."""
from __future__ import annotations

import z3

from .common import *
from .gates import GateModel, bytes_is, fld, gate, parsed


def memo(v, rel, const):
    """the (memoised) answer of the unknown value `v` to the question (rel, const); Unsupported when the code never asked it"""
    if not isinstance(v, OpaqueV) or (rel, const) not in v.memo:
        raise Unsupported(f"the code does not test {rel} {const!r} on this value on this path")
    return v.memo[(rel, const)]


def contracts(repo):
    gate.repo = repo
    out = []
    E = "dissect/hypervisor/util/envelope.py"
    EM = "dissect.hypervisor.util.envelope"

    # ESXi envelope (crypto-util): magic "DataTransformEnvelope", version 2, required attributes, AES-256-GCM, AEAD footer version 1
    def env_accept(eng, st, rv):
        h = parsed(st, "EnvelopeFileHeader")
        attrs = st.attrs.get("self.attributes")
        goals = [("magic", bytes_is(fld(eng, st, h, "magic"), b"DataTransformEnvelope")), ("version_2", fld(eng, st, h, "version").e == 2)]
        for name in ("vmware.keyInfo", "vmware.cipherName", "vmware.keyHash"):
            goals.append((f"required_attribute:{name}", memo(attrs, "inr", name)))
        goals.append(("cipher_is_aes_256_gcm", memo(st.attrs.get("self.cipher_name"), "eq", "AES-256-GCM")))
        goals.append(("aead_footer_version_1", fld(eng, st, parsed(st, "DataTransformAeadFooter"), "version").e == 1))
        return goals

    out.append(gate(E, EM, "Envelope.__init__", lambda m: {"self": ObjV("self"), "fh": FileV("fh"), "verify": OpaqueV("verify")}, env_accept, clsname="Envelope",
                    note="header block, attribute dictionary and footer are arbitrary; the attribute dictionary is an unknown mapping whose membership answers are explored both ways"))
    out.append(gate(E, EM, "KeyStore.__init__", lambda m: {"self": ObjV("self"), "store": OpaqueV("store")},
                    lambda eng, st, rv: [("mode_is_NONE", memo(st.attrs.get("self.mode"), "eq", "NONE"))], clsname="KeyStore"))
    V = "dissect/hypervisor/descriptor/vmx.py"
    VM = "dissect.hypervisor.descriptor.vmx"
    out.append(gate(V, VM, "KeySafe.from_text", lambda m: {"cls": OpaqueV("cls"), "text": OpaqueV("text")},
                    lambda eng, st, rv: [("identifier_is_vmware_key", memo(st.env.get("identifier"), "eq", "vmware:key"))], clsname="KeySafe"))

    def locator_accept(eng, st, rv):
        ident = st.env.get("identifier")
        kinds = [memo(ident, "eq", k) for k in ("list", "pair", "phrase") if isinstance(ident, OpaqueV) and ("eq", k) in ident.memo]
        if not kinds:
            raise Unsupported("no locator kind is tested on this path")
        return [("known_locator_kind", z3.Or(*kinds))]

    out.append(gate(V, VM, "_parse_key_locator", lambda m: {"locator_string": OpaqueV("locator_string")}, locator_accept,
                    note="only list / pair / phrase locators are implemented; every other identifier must raise"))
    H = "dissect/hypervisor/disk/hdd.py"
    HM = "dissect.hypervisor.disk.hdd"

    def hdd_init_accept(eng, st, rv):
        dp = st.env.get("descriptor_path")
        ex = dp.memo.get(("attr", "exists")) if isinstance(dp, OpaqueV) else None
        res = ex.memo.get(("call0",)) if isinstance(ex, OpaqueV) else None
        if res is None:
            raise Unsupported("descriptor_path.exists() is not consulted on this path")
        return [("descriptor_xml_exists", eng.truthy(res))]

    out.append(gate(H, HM, "HDD.__init__", lambda m: {"self": ObjV("self"), "path": OpaqueV("path")}, hdd_init_accept, clsname="HDD",
                    note="a directory without DiskDescriptor.xml must be refused"))
    return out


def sparse_header_gate(rep, pid):
    """VMDK: every sparse-extent header that SparseDisk uses -- the leading one and the footer copy of stream-optimized images -- is built by
    SparseExtentHeader, whose constructor is the magic gate (its contract: normal return => magic is KDMV / COWD / SE-sparse).  Shape
    obligation: in vmdk.py the three raw header structures are parsed nowhere but inside SparseExtentHeader.__init__, and every value
    stored into self.header in SparseDisk.__init__ is a SparseExtentHeader(...) call."""
    import ast
    import os

    from pyvc import driver

    rel = "dissect/hypervisor/disk/vmdk.py"
    name = "vmdk:SparseDisk.__init__/every_header_passes_the_magic_gate"
    tree = ast.parse(open(os.path.join(rep.repo, rel)).read())
    from pyvc import alpha

    alpha.restore_module(tree, rel)
    why = []
    raw = ("VMDKSparseExtentHeader", "COWDSparseExtentHeader", "VMDKSESparseConstHeader")
    for cls in [n for n in tree.body if isinstance(n, ast.ClassDef)]:
        for fn in [n for n in cls.body if isinstance(n, ast.FunctionDef)]:
            for c in ast.walk(fn):
                if isinstance(c, ast.Call) and isinstance(c.func, ast.Attribute) and c.func.attr in raw and (cls.name, fn.name) != ("SparseExtentHeader", "__init__"):
                    why.append(f"{cls.name}.{fn.name} line {c.lineno}: {ast.unparse(c)[:60]} parses a raw header without the magic gate")
            if (cls.name, fn.name) == ("SparseDisk", "__init__"):
                for a_ in ast.walk(fn):
                    if isinstance(a_, ast.Assign) and any(isinstance(t, ast.Attribute) and t.attr == "header" and isinstance(t.value, ast.Name) and t.value.id == "self" for t in a_.targets):
                        v = a_.value
                        if not (isinstance(v, ast.Call) and isinstance(v.func, ast.Name) and v.func.id == "SparseExtentHeader"):
                            why.append(f"SparseDisk.__init__ line {a_.lineno}: self.header = {ast.unparse(v)[:60]} is not a SparseExtentHeader(...) call")
    rep.functions.append({"function": f"{rel}:SparseDisk.__init__ (header and footer selection)", "contract": "every header in use was built by SparseExtentHeader (the magic gate)", "props": ["C12"]})
    rep.obligations[name] = {"verdict": "discharged" if not why else "undischarged", "atoms": 1, "ms": 0, "backends": {"set-inclusion"}, "stages": set(), "line": 0, "props": ["C12"]}
    if why:
        p = driver.write_replay(pid, name, {"property": pid, "obligation": name, "verifier_output": "; ".join(why)})
        rep.violations.append((p, "; ".join(why[:3]), True))


def extra_checks(rep, pid, ledger, known):
    """HDD.open: every image that is stacked has type Compressed or Plain (body of the per-image loop, executed for an arbitrary image)"""
    import ast

    from pyvc import driver
    from pyvc.engine import Engine, State, find_function

    try:
        sparse_header_gate(rep, pid)
    except (OSError, SyntaxError) as e:
        rep.unsupported.append(f"vmdk:SparseDisk.__init__/every_header_passes_the_magic_gate: unsupported({e})")

    name = "hdd:HDD.open/image_type_gate"
    try:
        node, _ = find_function(rep.repo, "dissect/hypervisor/disk/hdd.py", "HDD.open")
        loop = next((n for n in ast.walk(node) if isinstance(n, ast.For) and isinstance(n.target, ast.Name) and n.target.id == "guid"), None)
        if loop is None:
            raise Unsupported("per-image loop `for guid in chain[::-1]` not found in HDD.open")
        m = GateModel("dissect.hypervisor.disk.hdd", "dissect/hypervisor/disk/hdd.py", "HDD", repo=rep.repo)
        eng = Engine(m, "hdd:HDD.open", node, allow_exc="*")
        st = State(env={"self": ObjV("self"), "storage": OpaqueV("storage"), "guid": OpaqueV("guid"), "stream": OpaqueV("stream")}, hyps=[], filepos={})
        outs = eng.run(loop.body, st)
        ok = True
        why = ""
        for e, out in outs:
            if out is not None and not (isinstance(out, str)):
                continue  # raised / returned
            img = e.env.get("image")
            t = img.memo.get(("attr", "type")) if isinstance(img, OpaqueV) else None
            qs = [t.memo[k] for k in (("eq", "Compressed"), ("eq", "Plain")) if isinstance(t, OpaqueV) and k in t.memo]
            s = z3.Solver()
            s.add(*e.hyps)
            s.add(z3.Not(z3.Or(*qs)) if qs else z3.BoolVal(True))
            if s.check() != z3.unsat:
                ok = False
                why = "a path through the per-image loop body completes normally for an image whose type is neither 'Compressed' nor 'Plain'"
    except Unsupported as e:
        rep.unsupported.append(f"{name}: unsupported({e})")
        return
    rep.functions.append({"function": "dissect/hypervisor/disk/hdd.py:HDD.open (per-image loop body)", "contract": "normal completion => image.type in {Compressed, Plain}", "props": ["C12"]})
    rep.obligations[name] = {"verdict": "discharged" if ok else "undischarged", "atoms": len(outs), "ms": 0, "backends": {"z3-5.1"}, "stages": set(), "line": loop.lineno, "props": ["C12"]}
    if not ok:
        p = driver.write_replay(pid, name, {"property": pid, "obligation": name, "verifier_output": why})
        rep.violations.append((p, why, True))


from .gates import replay  # noqa: E402,F401  (same corpus-based replay)


def trusted(pid):
    return ["gate mode frame assumption (see contracts.gates)", "string equality / dictionary membership answers are unknown Booleans, one per (value, constant): both outcomes explored"]
