"""C03 (also C07, C13): the derived geometry that the VHDX read contracts assume as class invariant is what VHDX.__init__ and
BlockAllocationTable.__init__ establish.

MS-VHDX 2.5: sectors per block = BlockSize / LogicalSectorSize; chunk ratio = (2^23 * LogicalSectorSize) / BlockSize; payload blocks =
ceil(VirtualDiskSize / BlockSize); sector-bitmap blocks = ceil(payload blocks / chunk ratio).

The two assignment statements of VHDX.__init__ and the body of BlockAllocationTable.__init__ are executed with block size, sector size
and disk size symbolic (any positive integers: the quotients are characterised by their defining inequalities, no case split)."""
from __future__ import annotations

import ast

import z3

from pyvc import driver
from pyvc.engine import Engine, State, find_function
from .common import *

FILE = "dissect/hypervisor/disk/vhdx.py"


def _floor_div(q, x, d):
    return z3.And(q * d <= x, x < q * d + d)


def _check(hyps, goal):
    s = z3.Solver()
    s.set(timeout=20000)
    s.add(*hyps)
    s.add(z3.Not(goal))
    return s.check()


def extra_checks(rep, pid, ledger, known):
    name1, name2 = "vhdx:VHDX.__init__/derived_geometry", "vhdx:BlockAllocationTable.__init__/derived_counts"
    rep.functions.append({"function": f"{FILE}:VHDX.__init__ (derived geometry statements), BlockAllocationTable.__init__", "contract": "sectors per block, chunk ratio, payload / sector-bitmap block counts per MS-VHDX 2.5", "props": ["C03", "C07", "C13"]})

    class M(Model):
        pymodule = "dissect.hypervisor.disk.vhdx"  # module-level integer constants are read from the module under check

        def on_attr_store(self, eng, st, path, name, v, node):
            return None

    # --- VHDX.__init__
    try:
        node, _ = find_function(rep.repo, FILE, "VHDX.__init__")
        stmts = [s_ for s_ in node.body if isinstance(s_, ast.Assign) and ast.unparse(s_.targets[0]) in ("self._sectors_per_block", "self._chunk_ratio")]
        if len(stmts) != 2:
            raise Unsupported("the assignments of self._sectors_per_block / self._chunk_ratio were not found in VHDX.__init__")
        m = M()
        bs, ss = z3.Ints("block_size sector_size")
        m.fields.update({"self.block_size": IntV(bs), "self.sector_size": IntV(ss)})
        eng = Engine(m, "vhdx:VHDX.__init__", node, allow_exc=())
        st = State(env={"self": ObjV("self")}, hyps=[bs >= 1, ss >= 1], filepos={})
        why = []
        outs = eng.run(stmts, st)
        for e, out in outs:
            spb, cr = e.attrs.get("self._sectors_per_block"), e.attrs.get("self._chunk_ratio")
            if not isinstance(spb, IntV) or _check(e.hyps, _floor_div(spb.e, bs, ss)) != z3.unsat:
                why.append("_sectors_per_block is not floor(block_size / sector_size)")
            if not isinstance(cr, IntV) or _check(e.hyps, _floor_div(cr.e, (1 << 23) * ss, bs)) != z3.unsat:
                why.append("_chunk_ratio is not floor(2^23 * sector_size / block_size)")
        for ob in eng.obligations:
            if _check(ob.hyps, ob.goal) != z3.unsat:
                why.append(f"side obligation {ob.name.split('/')[-1]} fails")
        _rec(rep, pid, name1, why, stmts[0].lineno)
    except Unsupported as e:
        rep.unsupported.append(f"{name1}: unsupported({e})")
    # --- BlockAllocationTable.__init__
    try:
        node, _ = find_function(rep.repo, FILE, "BlockAllocationTable.__init__")
        m = M()
        size, bs, cr = z3.Ints("size block_size chunk_ratio")
        has_parent = z3.Bool("has_parent")
        m.fields.update({"vhdx._chunk_ratio": IntV(cr), "vhdx.size": IntV(size), "vhdx.block_size": IntV(bs), "vhdx.parent": OptV(z3.Not(has_parent), ObjV("parent_disk"))})
        m.truthy["parent_disk"] = z3.BoolVal(True)
        m.global_calls["lru_cache"] = lambda eng, st, args, node, **kw: ObjV("lru")
        m.methods[("lru", "__call__")] = lambda eng, st, args, node: ObjV("cached_get")
        m.fields["self.get"] = ObjV("get")
        eng = Engine(m, "vhdx:BlockAllocationTable.__init__", node, allow_exc=())
        st = State(env={"self": ObjV("self"), "vhdx": ObjV("vhdx"), "offset": IntV(z3.Int("offset"))}, hyps=[size >= 0, bs >= 1, cr >= 1], filepos={})
        why = []
        for e, out in eng.run(node.body, st):
            pb, sb, ec = (e.attrs.get(f"self.{k}") for k in ("_pb_count", "_sb_count", "entry_count"))
            if not all(isinstance(v, IntV) for v in (pb, sb, ec)):
                why.append("the counts are not all set")
                continue
            if _check(e.hyps, _floor_div(pb.e, size + bs - 1, bs)) != z3.unsat:
                why.append("_pb_count is not ceil(size / block_size)")
            if _check(e.hyps, _floor_div(sb.e, pb.e + cr - 1, cr)) != z3.unsat:
                why.append("_sb_count is not ceil(payload blocks / chunk ratio)")
            # entries: differencing disks keep a sector-bitmap entry after every chunk; otherwise only the interleaved ones before the last payload block
            q = z3.Int("q_interleaved")
            want = z3.If(has_parent, ec.e == sb.e * (cr + 1), z3.Exists([q], z3.And(_floor_div(q, pb.e - 1, cr), ec.e == pb.e + q)))
            if _check(list(e.hyps) + [pb.e >= 1], want) != z3.unsat:
                why.append("entry_count is not payload blocks plus the interleaved sector-bitmap entries")
        for ob in eng.obligations:
            if _check(ob.hyps, ob.goal) != z3.unsat:
                why.append(f"side obligation {ob.name.split('/')[-1]} fails")
        _rec(rep, pid, name2, why, node.lineno)
    except Unsupported as e:
        rep.unsupported.append(f"{name2}: unsupported({e})")


def _rec(rep, pid, name, why, line):
    ok = not why
    rep.obligations[name] = {"verdict": "discharged" if ok else "undischarged", "atoms": 1, "ms": 0, "backends": {"z3-5.1"}, "stages": set(), "line": line, "props": ["C03", "C07", "C13"]}
    if not ok:
        text = "; ".join(sorted(set(why)))
        p = driver.write_replay(pid, name, {"property": pid, "obligation": name, "verifier_output": text})
        rep.violations.append((p, f"{name}: {text}", True))
