"""C07, VMDK parent gate: a delta disk (parentCID != ffffffff) is never presented without its parent.

VMDK.__init__, the two places that decide whether a parent is opened, executed over uninterpreted descriptor values (call-chain
contracts, see contracts/config_c18.py): in the descriptor-file branch  self.parent = open_parent(path.parent,
attr['parentFileNameHint'])  happens iff  attr['parentCID'] != 'ffffffff'  (anything that prevents it must raise, not continue); in
the sparse-extent branch  sparse_disk.parent = open_parent(...)  iff the extent has an embedded descriptor whose parentCID is not
ffffffff."""
from __future__ import annotations

import ast

import z3

from pyvc import driver
from pyvc.engine import Engine, State, find_function
from .common import *
from .config_c18 import FragModel, describe_, implies

FILE = "dissect/hypervisor/disk/vmdk.py"


def _record(rep, pid, name, why, line):
    ok = not why
    rep.obligations[name] = {"verdict": "discharged" if ok else "undischarged", "atoms": 1, "ms": 0, "backends": {"z3-5.1"}, "stages": set(), "line": line, "props": ["C07"]}
    if not ok:
        text = "; ".join(sorted(set(why)))
        p = driver.write_replay(pid, name, {"property": pid, "obligation": name, "verifier_output": text})
        rep.violations.append((p, f"{name}: {text}", True))


def extra_checks(rep, pid, ledger, known):
    name1, name2 = "vmdk:VMDK.__init__/parent_gate.descriptor_file", "vmdk:VMDK.__init__/parent_gate.sparse_extent"
    try:
        node, _ = find_function(rep.repo, FILE, "VMDK.__init__")
        loop = next(n for n in node.body if isinstance(n, ast.For) and ast.unparse(n.iter) == "fhs")
        branch = next(n for n in loop.body if isinstance(n, ast.If) and "b'# Di'" in ast.unparse(n.test))
        sparse = next(n for n in branch.orelse if isinstance(n, ast.If))
    except (Unsupported, StopIteration) as e:
        rep.unsupported.append(f"{name1}: unsupported({e})")
        return
    rep.functions.append({"function": f"{FILE}:VMDK.__init__ (descriptor-file branch, sparse-extent branch)", "contract": "parent opened iff parentCID != ffffffff (descriptor) / iff an embedded descriptor says so (sparse extent)", "props": ["C07"]})

    def model():
        m = FragModel()
        m.globals["DiskDescriptor"] = ObjV("DiskDescriptor")
        m.methods[("DiskDescriptor", "parse")] = lambda eng, st, args, node: ObjV("desc")
        m.fields["desc.attr"] = OpaqueV("attr")
        m.fields["desc.extents"] = TupleV([])
        m.truthy["desc"] = z3.BoolVal(True)
        m.global_calls["open_parent"] = lambda eng, st, args, node: (st.ghost.__setitem__("open_parent", st.ghost.get("open_parent", ()) + (tuple(describe_(a) for a in args),)), ObjV("parent_disk"))[1]
        m.global_calls["SparseDisk"] = lambda eng, st, args, node, **kw: ObjV("sd")
        m.fields["sd.descriptor"] = OpaqueV("sd.descriptor")
        m.fields["self.disks"] = OpaqueV("disks")
        m.fields["self.parent"] = NoneV()
        m.truthy.update({"sd": z3.BoolVal(True), "parent_disk": z3.BoolVal(True)})
        return m

    # descriptor-file branch
    why = []
    try:
        m = model()
        eng = Engine(m, "vmdk:VMDK.__init__", node, allow_exc="*")
        st = State(env={"self": ObjV("self"), "fh": OpaqueV("fh"), "path": OpaqueV("path"), "fhs": OpaqueV("fhs")}, hyps=[], filepos={})
        n_open = 0
        for e, out in eng.run(branch.body, st):
            if isinstance(out, tuple) and out[0] == "raise":
                continue
            attr = m.fields["desc.attr"]
            cid = attr.memo.get(("item", "parentCID"))
            is_base = cid.memo.get(("eq", "ffffffff")) if cid is not None else None
            calls = e.ghost.get("open_parent", ())
            if is_base is None:
                why.append("parentCID is not compared with 'ffffffff'")
                break
            if calls:
                n_open += 1
                par = e.attrs.get("self.parent")
                if calls != (("path.parent", "attr['parentFileNameHint']"),) or not (isinstance(par, ObjV) and par.path == "parent_disk"):
                    why.append(f"the parent is opened as {calls} / stored as {describe_(par) if par is not None else None}; specified self.parent = open_parent(path.parent, attr['parentFileNameHint'])")
                if not implies(e.hyps, z3.Not(is_base)):
                    why.append("a parent is opened for a base disk")
            elif not implies(e.hyps, is_base):
                why.append("a delta disk (parentCID != ffffffff) continues without its parent")
        if n_open == 0:
            why.append("no path opens a parent")
    except Unsupported as e:
        rep.unsupported.append(f"{name1}: unsupported({e})")
    else:
        _record(rep, pid, name1, why, branch.lineno)
    # sparse-extent branch
    why = []
    try:
        m = model()
        eng = Engine(m, "vmdk:VMDK.__init__", node, allow_exc="*")
        st = State(env={"self": ObjV("self"), "fh": OpaqueV("fh"), "path": OpaqueV("path"), "fhs": OpaqueV("fhs")}, hyps=[], filepos={})
        n_open = 0
        for e, out in eng.run(sparse.body, st):
            if isinstance(out, tuple) and out[0] == "raise":
                continue
            d = m.fields["sd.descriptor"]
            a = d.memo.get(("attr", "attr"))
            cid = a.memo.get(("item", "parentCID")) if a is not None else None
            is_base = cid.memo.get(("eq", "ffffffff")) if cid is not None else None
            if is_base is None:
                why.append("the embedded descriptor's parentCID is not compared with 'ffffffff'")
                break
            want = z3.And(eng.truthy(d), z3.Not(is_base))
            calls = e.ghost.get("open_parent", ())
            if calls:
                n_open += 1
                par = e.attrs.get("sd.parent")
                if calls != (("path.parent", "sd.descriptor.attr['parentFileNameHint']"),) or not (isinstance(par, ObjV) and par.path == "parent_disk"):
                    why.append(f"the parent is opened as {calls}; specified sparse_disk.parent = open_parent(path.parent, descriptor.attr['parentFileNameHint'])")
                if not implies(e.hyps, want):
                    why.append("a parent is opened for an extent without an embedded delta descriptor")
            elif not implies(e.hyps, z3.Not(want)):
                why.append("a delta extent (embedded parentCID != ffffffff) continues without its parent")
        if n_open == 0:
            why.append("no path opens a parent")
    except Unsupported as e:
        rep.unsupported.append(f"{name2}: unsupported({e})")
    else:
        _record(rep, pid, name2, why, sparse.lineno)
