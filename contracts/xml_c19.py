"""C19: XML descriptors are parsed without entity expansion or external fetches (DESIGN.md 7/C19)."""
from __future__ import annotations

import json
import os
import subprocess

from pyvc import driver, effects
from .effects_c09 import OWNED, PASSTHROUGH, WRITER

ANCHORS = {"dissect/hypervisor/descriptor/ovf.py": "OVF.__init__", "dissect/hypervisor/descriptor/vbox.py": "VBox.__init__",
           "dissect/hypervisor/descriptor/pvs.py": "PVS.__init__", "dissect/hypervisor/disk/hdd.py": "Descriptor.__init__"}


def extra_checks(rep, pid, ledger, known):
    sites, infos = effects.analyse(rep.repo, OWNED, WRITER, PASSTHROUGH)
    mine = [s for s in sites if s.kind in ("xml.entry", "xml.import", "xml.alias")]
    rep.functions.append({"function": "every call site / import under dissect/hypervisor/**", "contract": "every XML parser entry point is defusedxml.ElementTree.fromstring with default flags; xml.* only under TYPE_CHECKING",
                          "files": len(infos), "sites_classified": len(mine)})
    for s in mine:
        rep.obligations[s.name] = {"verdict": "discharged" if s.ok else "undischarged", "atoms": 1, "ms": 0, "backends": {"set-inclusion"}, "stages": set(), "line": s.line, "props": ["C19"]}
        if not s.ok:
            p = driver.write_replay(pid, s.name, {"property": pid, "obligation": s.name, "site": s.as_dict(), "verifier_output": f"{s.file}:{s.line}: {s.text} -- {s.why}"})
            rep.violations.append((p, f"{s.file}:{s.line} `{s.text}`: {s.why}", True))
    # the four anchored entry points are among the sites found (guards against the analysis silently missing them)
    for f, q in ANCHORS.items():
        # file-level: the defused call may live in a helper of the same module (moving it is a harmless refactoring)
        hit = [s for s in mine if s.file == f and s.kind == "xml.entry" and s.ok]
        name = f"{f.rsplit('/', 1)[-1][:-3]}:{q}/xml.anchor"
        rep.obligations[name] = {"verdict": "discharged" if hit else "undischarged", "atoms": 1, "ms": 0, "backends": {"set-inclusion"}, "stages": set(), "line": hit[0].line if hit else 0, "props": ["C19"]}
        if not hit:
            p = driver.write_replay(pid, name, {"property": pid, "obligation": name, "verifier_output": f"no defusedxml.ElementTree.fromstring call found in {f}:{q}"})
            rep.violations.append((p, f"{f}:{q} no longer parses through defusedxml.ElementTree.fromstring", True))
    rep.samples += [s.as_dict() for s in mine[:6]]
    rep.extra["sites"] = [s.as_dict() for s in mine]
    rep.add_trusted("A3 defusedxml.ElementTree.fromstring with default flags raises on any entity declaration and never resolves external entities/DTDs (cross-checked by the bounded corpus)",
                    "A1 names resolve syntactically")
    corpus(rep, pid)


def corpus(rep, pid):
    from replay.harness import PY, VERIF

    env = dict(os.environ, PYTHONPATH=f"{rep.repo}:{VERIF}", PYTHONDONTWRITEBYTECODE="1")
    try:
        p = subprocess.run([PY, "-m", "replay.xml_corpus"], capture_output=True, text=True, timeout=300, env=env, cwd=VERIF)
        res = json.loads(p.stdout)
    except Exception as e:  # noqa: BLE001
        rep.notes.append(f"xml corpus failed to execute: {type(e).__name__}: {e} {p.stderr[-300:] if 'p' in dir() else ''}")
        return
    rep.bounded.append({"block": "c19.entity_corpus", "level": "bounded (real entry points on a generated corpus under an audit hook; NOT counted as proved)",
                        "evaluations": res["evaluations"], "distinct_nontrivial": res["distinct"], "rule": res["rule"], "failures": len(res["failures"])})
    for f in res["failures"][:3]:
        p = driver.write_replay(pid, "corpus." + f["entry"] + "." + f["doc"], {"property": pid, **f})
        rep.violations.append((p, f"entry point {f['entry']} on document {f['doc']}: {f['what']}", False))
