"""Contracts for dissect/hypervisor/disk/vdi.py (C05; also C07 parent fall-through, C08, C11, C12, C13, C14).

Specification source: VirtualBox VDICore.h -- block map of signed little-endian 32-bit entries at offBlocks;
entry -1 (VDI_IMAGE_BLOCK_FREE) = not allocated (read from the parent if any, else zeros), -2 (VDI_IMAGE_BLOCK_ZERO) = zeros,
otherwise the block's data is at offData + entry * cbBlock."""
from __future__ import annotations

import importlib

import z3

from pyvc import cstruct_ext
from .common import *

FILE = "dissect/hypervisor/disk/vdi.py"


def consts():
    m = importlib.import_module("dissect.hypervisor.disk.c_vdi")
    return m


class VdiModel(Model):
    def __init__(self, wf=True):
        super().__init__()
        c = consts()
        self.hyps = []
        self.fsize, self.farr = self.file_field("self.fh", "fh")
        self.bs = self.int_field("self.block_size", 0, U32, self.hyps)
        self.data_offset = self.int_field("self.data_offset", 0, U32, self.hyps)
        self.size = self.int_field("self.size", 0, U64, self.hyps)
        self.obj_field("self.map")
        self.obj_field("self.parent")
        self.nmap = z3.Int("len(self.map)")
        self.MAP = z3.Function("MAP", I, I)
        self.has_parent = z3.Bool("has_parent")
        self.truthy["self.parent"] = self.has_parent
        self.PG = z3.Function("ParentGuest", I, I)
        self.G = z3.Function("Guest", I, I)
        register_opaque("Guest", self.guest_def)
        self.globals["UNALLOCATED"] = IntV(z3.IntVal(c.UNALLOCATED))
        self.globals["SPARSE"] = IntV(z3.IntVal(c.SPARSE))
        self.items["self.map"] = self.map_getitem
        self.methods[("self.parent", "_read")] = self.parent_read
        self.hyps += [self.nmap >= 0, self.nmap <= U32, z3.ForAll([T], z3.And(self.MAP(T) >= -(1 << 31), self.MAP(T) < (1 << 31))), byte_range_axiom(self.farr)]
        if wf:
            self.hyps += [self.bs > 0, self.size <= self.nmap * self.bs,
                          z3.ForAll([T], z3.Implies(z3.And(0 <= T, T < self.nmap),
                                                    z3.And(self.MAP(T) >= -2, z3.Implies(self.MAP(T) >= 0, self.data_offset + (self.MAP(T) + 1) * self.bs <= self.fsize))))]

    def guest_def(self, x):  # SPEC (VDICore.h)
        q, r, fact = ediv(x, self.bs)
        m = self.MAP(q)
        return z3.If(m == -1, z3.If(self.has_parent, self.PG(x), 0), z3.If(m == -2, 0, z3.Select(self.farr, self.data_offset + m * self.bs + r))), [fact]

    def map_getitem(self, eng, st, idx, node):
        i = eng.as_int(idx, st, node)
        # array('i').__getitem__: IndexError outside [-n, n); negative indices would silently wrap -> obliged away
        eng.pre(st, i >= 0, node)
        eng.may_raise("IndexError", st, i < self.nmap, node)
        return IntV(self.MAP(i))

    def parent_read(self, eng, st, args, node):
        # the parent is a VDI one layer down: its _read is used through this same contract (induction over chain depth)
        o, n = (eng.as_int(a, st, node) for a in args)
        eng.pre(st, z3.And(o >= 0, n > 0, o < self.size), node)
        r = fresh_bytes_("pr")
        st.hyps.append(z3.And(z3.Implies(o + n <= self.size, r.n == n), z3.Implies(o + n > self.size, z3.And(r.n >= self.size - o, r.n <= n)), r.n >= 0,
                              z3.ForAll([K], z3.Implies(z3.And(0 <= K, K < r.n, K < self.size - o), r.at(K) == self.PG(o + K)))))
        return r


def fresh_bytes_(name):
    from pyvc.engine import fresh_bytes

    return fresh_bytes(name)


def _read(mode):
    offset0, length0 = z3.Ints("offset0 length0")

    def inv(eng, st):
        m = eng.model
        offset, length, acc = st.env["offset"].e, st.env["length"].e, st.env["bytes_read"].joined
        bi, bo = st.env["block_idx"].e, st.env["block_offset"].e
        end = st.ghost["@offset"] + st.ghost["@length"]  # loop-entry end of the (possibly clamped) request
        parts = [offset >= offset0, st.ghost["@offset"] == offset0, offset + length == end,
                 z3.Implies(length > 0, z3.And(0 <= bo, bo < m.bs, bi >= 0))]
        if mode == "functional":
            parts += [length >= 0, z3.Implies(length > 0, offset == bi * m.bs + bo),
                      # in-range part has exact length; past the end the tail may be short but never too long
                      z3.Implies(offset <= m.size, acc.n == offset - offset0),
                      z3.Implies(offset > m.size, z3.And(acc.n >= m.size - offset0, acc.n <= offset - offset0)),
                      forall_k(zmin(acc.n, m.size - offset0), lambda k: acc.at(k) == m.G(offset0 + k)),
                      st.ghost["io"] <= offset - offset0]
        return z3.And(*parts)

    def post(eng, st, rv):
        m = eng.model
        if mode != "functional":
            return []
        return lstream_post(rv, m.G, offset0, length0, m.size) + [("cost", st.ghost["io"] <= length0)]

    def requires(m):
        base = m.hyps + [offset0 >= 0, length0 > 0]
        if mode == "functional":
            base.append(offset0 < m.size)
        return base

    return FnContract(
        FILE, "VDI._read", ["C05", "C07", "C08", "C13"] if mode == "functional" else ["C11"], lambda: VdiModel(wf=(mode == "functional")),
        params=lambda m: {"self": ObjV("self"), "offset": IntV(offset0), "length": IntV(length0)},
        requires=requires, post=post,
        loops={("While", 0): LoopSpec(inv, lambda eng, st: st.env["length"].e)},
        shifts=r"^(bytes_read_len|pr_len)!", mode=mode, allow_any_exception=(mode != "functional"),
        note="block size, map contents (any mix of allocated/unallocated/zero, any physical order), parent presence and request symbolic; parent through the same class contract (chain depth by induction)")


replay = make_replay("vdi")
bounded = make_bounded("vdi", "vdi.small_scope")


def trusted(pid):
    return ["A3 file objects: seek/read/tell with short reads at EOF", "A3 array.array('i'): frombytes decodes host-endian signed 32-bit items (little-endian host assumed); indexing raises IndexError outside the array",
            "A6 well-formed image: map covers the virtual size, allocated blocks lie inside the file, parent has the same virtual size"]


def contracts(repo):
    return [_read("functional"), _read("termination")]
